"""usage: benign_delta.py <verif dir> <scratch copy of /repo> <patch>: the rules added / changed in round 10 on one refactoring,
each rule once with the scope and floor of its registration (DESIGN 6.2, fourth batch); the copy is reset before and after"""
import sys, json, os, subprocess
V, R, patch = sys.argv[1], sys.argv[2], sys.argv[3]
sys.path.insert(0, V + '/tools')
from sa import extract, props
from sa.facts import Program
from sa.core import Broken
from sa import rules_path, rules_effect, rules_types, rules_iter, rules_ref, rules_event, rules_traits, rules_layout, rules_lin
subprocess.run(["git", "-C", R, "checkout", "-q", "--", "."])
if subprocess.run(["git", "-C", R, "apply", patch]).returncode:
    print("DOES-NOT-APPLY", patch)
    sys.exit(0)
touched = [l[6:].strip() for l in open(patch) if l.startswith("+++ b/")]
prog = Program(extract.facts(R)[0])
P = {json.loads(l)['id']: json.loads(l)['anchors']['files'] for l in open(V + '/properties.jsonl')}
claimed = [p for p in props.PROPS]
dirs = set()
for p in claimed:
    for f in P[p] + props.PROPS[p].get("extra_scope_files", []):
        dirs.add(os.path.dirname(f))
bad = []


def run(name, fn, ctx, floor, filt=None):
    try:
        r = fn(prog, dict(ctx, repo=R))
    except Broken as e:
        bad.append("%s BROKEN %s" % (name, e))
        return
    obs = [o for o in r.obs if filt is None or filt(o)]
    if len(r.obs) < floor:
        bad.append("%s BROKEN %d obligations, floor %d" % (name, len(r.obs), floor))
    for o in obs:
        if not o.ok:
            bad.append("%s %s: %s" % (name, o.key, o.msg[:200]))


indirs = lambda o: os.path.dirname(o.file) in dirs
run("DEADLOOP", rules_path.run_deadloop, {}, 300, indirs)
run("PARAMCLASS", rules_effect.run_paramclass, {}, 300, indirs)
run("SUMWRAP", rules_types.run_sumwrap, {}, 1, indirs)
run("CONSTIFACE", rules_effect.run_constiface, {}, 1500, indirs)
run("DERIVEDFIELD", rules_iter.run_derivedfield, {"files": P["C19"]}, 1)
run("DETACHRELEASE", rules_ref.run_detachrelease, {}, 1)
run("SCANALL", rules_event.run_scanall, {"files": P["C11"]}, 3)
run("LAZYREAD", rules_path.run_lazyread, {"files": P["C06"]}, 5)
run("FRAGZERO", rules_path.run_fragzero, {"files": P["C17"]}, 2)
run("FRAGFIRST", rules_path.run_fragfirst, {"files": P["C17"]}, 5)
run("MAXSTORE", rules_path.run_maxstore, {"files": P["C13"]}, 3)
run("INITWRITES", rules_traits.run_initwrites, {}, 12)
if hasattr(rules_types, "run_sentineluse"):
    run("SENTINELUSE", rules_types.run_sentineluse, {}, 2)
run("RESETSAME", rules_layout.run_resetsame, {}, 20)
run("CONVFAILOK", rules_layout.run_convfailok, {}, 50)
run("TYPEIDDEST", rules_layout.run_typeiddest, {}, 12)
run("TYPEIDNAME", rules_layout.run_typeidname, {}, 5)
run("ENDDEREF", rules_types.run_endderef, {}, 15, indirs)
run("SHIFTKEEP", rules_lin.run_shiftkeep, {}, 3)
run("ROOMCODE", rules_path.run_roomcode, {"files": P["C03"]}, 4)
run("ALIGNIDLE", rules_path.run_alignidle, {"files": P["C03"]}, 2)
# round 11
run("DEADCOPY", rules_path.run_deadcopy, {}, 100, indirs)
run("DEADCALL", rules_path.run_deadcall, {}, 60, indirs)
run("DETACHDEAD", rules_ref.run_detachdead, {}, 10, indirs)
run("READBASE", rules_path.run_readbase, {}, 20)
run("MUSTCHECK", rules_effect.run_mustcheck, {}, 800, indirs)
if any(t == "mptcore/misc/identifier.c" for t in touched):
    from sa import rules_ident
    run("LINIDENT", rules_lin.run_linident, {"files": ["mptcore/misc/identifier.c"]}, 18)
    run("INLINEFIT", rules_ident.run_inlinefit, {}, 5)
    run("IDENTOVERLAY", rules_ident.run_identoverlay, {}, 15)
if any(t.startswith("mptcore/array/") or t in ("mpt++/array.cpp", "mptcore/array.h") for t in touched):
    run("LINBUF", rules_lin.run_linbuf, {"files": P["C04"], "only_dir": "mptcore/array/", "cxx_files": ["mpt++/array.cpp"]}, 60)
t = os.path.basename(os.path.dirname(patch)) + "/" + os.path.basename(patch)[:-5]
if bad:
    print("NOT SILENT on %s:" % t)
    for b in bad[:6]:
        print("   ", b[:330])
else:
    print("silent: %s" % t)
subprocess.run(["git", "-C", R, "checkout", "-q", "--", "."])
