#!/bin/sh
# usage: revert_test.sh <commit> <property>   — reverts one /repo commit in the working tree, runs the check, restores the tree
c=$1; p=$2
git -C /repo show $c | git -C /repo apply -R - || exit 3
/verif/check $p --no-evidence 2>&1 | grep -E "VIOLATION|^property|BROKEN" | head -4
git -C /repo checkout -- .
