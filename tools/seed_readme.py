#!/usr/bin/env python3
"""Regenerates seeded/README.md from the meta.json files."""
import json, os
V = os.path.dirname(os.path.dirname(os.path.abspath(__file__)))
R3 = "C01-2 C03-2 C04-2 C04-3 C05-2 C08-2 C11-2 C12-2 C13-2 C13-3 C14-2 C16-2 C17-2 C20-2".split()
R4 = "C06-2 C07-2 C09-2 C10-2 C12-3 C14-3 C15-2 C17-3 C19-2 C20-3".split()
rows = {}
for d in sorted(os.listdir(os.path.join(V, "seeded"))):
    mp = os.path.join(V, "seeded", d, "meta.json")
    if os.path.exists(mp):
        rows[d] = json.load(open(mp))
R5 = [d for d in rows if rows[d].get("round") == 5]
R6 = [d for d in rows if rows[d].get("round") == 6]
R7 = [d for d in rows if rows[d].get("round") == 7]
R8 = [d for d in rows if rows[d].get("round") == 8]
R9 = [d for d in rows if rows[d].get("round") == 9]
R10 = [d for d in rows if rows[d].get("round") == 10]
R11 = [d for d in rows if rows[d].get("round") == 11]
R12 = [d for d in rows if d not in R3 and d not in R4 and d not in R5 and d not in R6 and d not in R7 and d not in R8 and d not in R9 and d not in R10 and d not in R11]


def table(names):
    out = ["| seed | property | needs to manifest | reported by |", "|---|---|---|---|"]
    for d in names:
        m = rows[d]
        out.append("| %s | %s | %s | %s |" % (d, m["property"], m["needs_to_manifest"].replace("|", "/")[:240], m["detected_by"].replace("|", "/")[:300]))
    return out


def first_contact(names):
    return sum(1 for d in names if "as shipped" in rows[d]["detected_by"] or ("added" not in rows[d]["detected_by"] and "missed" not in rows[d]["detected_by"]))


out = ["# Seeded breaking changes (written independently by sub-agents)\n",
       "Each change was produced by a fresh sub-agent that saw only the property text and a scratch worktree of `/repo`",
       "(nothing from `/verif`; prompt of the kind in `tools/seed_prompt_example.txt`). Every one was confirmed here with",
       "`tools/seed_verify.sh` (clean tree + patch: library builds, ctest 29/29, `run.sh` exits non-zero; clean tree: `run.sh` exits 0)",
       "before it was kept, then run against the checks with `tools/seed_test.sh <patch> <property>` (`git -C /repo apply`, `./check`,",
       "`git -C /repo checkout -- .`).\n",
       "| round | seeds | reported as shipped | reported after additions | still missed |", "|---|---|---|---|---|",
       "| 1+2 | 18 | 4 | 17 | C11-1 |", "| 3 | 14 | 5 | 14 | — |", "| 4 | 10 | 4 | 9 | C09-2 |",
       "| 5 | 36 | 9 | 27 | " + " ".join(d for d in R5 if rows[d]["detected_by"].startswith("missed")) + " |",
       "| 6 | 36 | 8 | 19 | " + " ".join(d for d in R6 if rows[d]["detected_by"].startswith("missed")) + " |",
       "| 7 | 36 | %d | %d | " % (first_contact(R7), sum(1 for d in R7 if not rows[d]["detected_by"].startswith("missed"))) + " ".join(d for d in R7 if rows[d]["detected_by"].startswith("missed")) + " |",
       "| 8 | 36 | %d | %d | " % (first_contact(R8), sum(1 for d in R8 if not rows[d]["detected_by"].startswith("missed"))) + " ".join(d for d in R8 if rows[d]["detected_by"].startswith("missed")) + " |",
       "| 9 | 36 | %d | %d | " % (first_contact(R9), sum(1 for d in R9 if not rows[d]["detected_by"].startswith("missed"))) + " ".join(d for d in R9 if rows[d]["detected_by"].startswith("missed")) + " |",
       "| 10 | 36 | %d | %d | " % (first_contact(R10), sum(1 for d in R10 if not rows[d]["detected_by"].startswith("missed"))) + " ".join(d for d in R10 if rows[d]["detected_by"].startswith("missed")) + " |",
       "| 11 | 36 | %d | %d | " % (first_contact(R11), sum(1 for d in R11 if not rows[d]["detected_by"].startswith("missed"))) + " ".join(d for d in R11 if rows[d]["detected_by"].startswith("missed")) + " |\n",
       "## Rounds 1 and 2 (18 seeds, one per claimed property)\n",
       "First contact: 4 of 18 (C07-1, C10-1, C14-1, C19-1). For 13 of the 14 misses a structural or relational necessary condition exists and a",
       "rule was added (each run program-wide and read for false reports before arming); C11-1 stays missed (which slots the compaction may drop",
       "depends on the run-time contents of the slot array).\n"]
out += table(R12)
out += ["\n## Round 3 (14 seeds: second seeds for 12 properties, two each for C04 and C13 after the relational engine was built)\n",
        "First contact: 5 of 14. The 9 misses were content/bookkeeping slips rather than range checks; each now has an obligation or rule that states",
        "the violated clause as a shape of the code.\n"]
out += table(R3)
out += ["\n## Round 4 (10 seeds for the properties with the fewest seeds so far; agents were told the earlier seeds of the property and asked for a different function and kind of slip)\n",
        "First contact: 4 of 10. Five misses led to new rules (RAISEFAIL, LINNODE, FRAGSTATE, QUERYREST, CONVNARROW); C09-2 stays missed.\n"]
out += table(R4)
out += ["\n## Round 5 (36 seeds: every claimed property, one value/bound slip and one bookkeeping/control-flow slip each, in functions the earlier rounds did not touch)\n",
        "First contact: 9 of 36. 18 misses led to new or extended rules; 9 stay missed (the reason is in the table: each is a choice between two",
        "equally well-formed values or a floating-point result, not a shape of the code).\n"]
out += table(R5)
out += ["\n## Round 6 (36 seeds: per property one wrong-identifier slip (sibling variable, member, function or constant; swapped arguments) and one error-path / edge-case slip)\n",
        "First contact: 8 of 36 - these kinds leave the shape of the code almost untouched. 11 misses led to rules that compare the tree with a committed",
        "reference of the unchanged tree (MUSTCHECK, RESULTCLASS, ARGDEVIANT, INDEXSTEP) or state a pairing (FINIPATHS, CLONEFREE, BUFINSTALL, ERANGE, CUTSPEC);",
        "17 stay missed: most replace one identifier by a sibling of the same type.\n"]
out += table(R6)
out += ["\n## Round 7 (36 seeds: per property one initialisation / reset / stale-state slip and one type / width / sign slip)\n",
        "First contact: 5 of 36 - the weakest round so far. The type slips turned out to have exact, type-resolved necessary conditions (a comparison that",
        "is constant by its operand types, bytes compared with different signedness, a mask outside the variable's type, sizeof of a pointer as a length, a",
        "narrowing local whose source range does not fit): 15 of the 18 are reported now. Of the stale-state slips 6 are reported by new pairing / typestate",
        "rules (STALEBUF, INITWRITES, FINIBOUND, INITLIVE, PARKRESTORE, SPARSEZERO, ERANGE window, ERRFX through helpers); 10 seeds stay missed, most of them a",
        "dropped reset of one field whose required value only a history of calls shows.\n"]
out += table(R7)
out += ["\n## Round 8 (36 seeds: per property one ordering / missing-step slip and one condition slip)\n",
        "First contact: 13 of 36 - the best first contact so far; condition slips move a boundary, drop a negation or test the wrong operand, which the",
        "interval, relational and reference-table rules state directly (CONV, CODECPAIR, LINBUF CUTSPEC, NARROWEDGE, RESULTCLASS, IDENTOVERLAY, FRAGALL, LAZYORDER),",
        "and three of the ordering slips ran into rules added in round 7 (FRAGADOPT, CONSTSTATE) or before (FINALISER). Ten more are reported after",
        "additions (ADDREFFAIL, LENSPEC, CXXCOW, FINIFIRST, UNSIGNEDTEXT position, stricter ERRFX excuse, per-test RESULTCLASS, IDENTOVERLAY for C05,",
        "FINIMATCH for C15, LINBOUNDS for C03); 13 stay missed.\n"]
out += table(R8)
out += ["\n## Round 9 (36 seeds: per property one resource / ownership slip and one interface slip)\n",
        "First contact: 11 of 36. Nine more after additions: the reference table of returned and passed constants (CONSTIFACE) reports five interface",
        "slips (an error code that became success, a result code that vanished, a sizeof of the wrong member, a flag word replaced by 0), DETACHSAME,",
        "MUSTINSTALL and STABLETABLE report three ownership slips, ERRFX with split conditional returns one more. 16 stay missed: most are ownership",
        "questions between two parties (who releases, in which order, may the source alias the target) that no rule of this framework states.\n"]
out += table(R9)
out += ["\n## Round 10 (36 seeds: the agents chose the kinds themselves - the two slips they considered most likely in real maintenance of the code)\n",
        "First contact: 11 of 36 (CODECPAIR, LINBOUNDS twice, ERANGE, CONV, RESULTCLASS, NARROW, FINALISER, IDENTOVERLAY, CONSTIFACE, FLAGPATH / PROPTABLE). The",
        "agents mostly chose hasty fixes with an over-tight or incomplete condition, clean-ups that drop a side effect, and optimisations resting on a false",
        "invariant. Fourteen more are reported after additions: DETACHRELEASE (a detach that answers with a new buffer released the old reference),",
        "SCANALL (a slot walk is not ended by a hole), LAZYREAD (a first-use table is read behind its first-use test), FRAGZERO and FRAGFIRST (byte 0 of a",
        "fragment is examined; no exit on the first fragment alone), DEADLOOP (interval analysis enters every loop), MAXSTORE (capacity of a ring queue",
        "changes only while the content does not wrap), PARAMCLASS (case limits of integer parameters, reference table), callbacks in CONSTIFACE, the path",
        "clause of DERIVEDFIELD, GAPFILL for the insert functions, SUMWRAP (limit tests whose sum can wrap) and INITWRITES for C15. 11 stay missed: added",
        "shortcuts and stores that contradict nothing that existed, and choices between two callees or two masks.\n"]
out += table(R10)
out += ["\n## Round 11 (36 seeds, free choice again, with the spots of all earlier rounds to be avoided)\n",
        "First contact: 15 of 36, the best so far; five of them by rules of round 10 (SCANALL) and by RAISEFAIL, FLEXCOPY, ERRFX, ITERPROTO from earlier rounds,",
        "the others by CONV, NARROW, LINBOUNDS, CODECPAIR, FINALISER, IDENTOVERLAY, CONSTIFACE, MUSTCHECK. Nine more after additions: DETACHRAW (clause of",
        "DETACHRELEASE: a raw copy out of the old buffer only where its count reached zero), DETACHDEAD (the local handed to detach() is not used after the answer",
        "went elsewhere), READBASE (behind mpt_message_read(&M, n, buf) nothing is handed M.base with the same n - this also reports C11-5 of round 6), DEADCOPY (no copy",
        "with a length that is always 0), PARAMCLASS over integer members of pointer parameters, MUSTCHECK for callees whose result the tree tests below zero and with calls",
        "used as branch operands counted as used, and the identifier rules for the properties whose names are identifiers (C09, C14). 12 stay missed.\n"]
out += table(R11)
out.append("\n## Behaviour-preserving refactorings (false-alarm test)\n")
out.append("Eight further agents produced 40 behaviour-preserving refactorings (renames, loop rewrites, helper extraction, condition restructuring,")
out.append("temporaries) in the files with the densest rules, each with a differential driver showing identical behaviour. `tools/benign_test.sh` runs")
out.append("every check on each. Results and the corrections they led to are in DESIGN.md section 6.2.")
out.append("\nSide results: faults of the unchanged tree that the agents reported in passing: `notes/agent-reported-faults.md`.")
open(os.path.join(V, "seeded", "README.md"), "w").write("\n".join(out) + "\n")
print("ok", len(rows))
