#!/usr/bin/env python3
"""Compilation database for /repo's *current* working tree.

Runs `cmake -G Ninja -S <repo> -B <scratch>` in a fresh directory outside /repo
and /verif (nothing is written into /repo), takes compile_commands.json,
de-duplicates by source file, states -std explicitly, adds -UNDEBUG, and removes
the scratch directory.  The CMake files glob their sources, so added/removed
files are reflected on every run.
"""
import json, os, shutil, subprocess, sys, tempfile, shlex


def make(repo, outdir):
    scratch = tempfile.mkdtemp(prefix="mptsa-cmake-")
    try:
        env = dict(os.environ)
        r = subprocess.run(["cmake", "-G", "Ninja", "-S", repo, "-B", scratch,
                            "-DCMAKE_EXPORT_COMPILE_COMMANDS=ON"],
                           stdout=subprocess.PIPE, stderr=subprocess.STDOUT, env=env, text=True)
        if r.returncode != 0:
            sys.stderr.write(r.stdout)
            raise SystemExit("compdb: cmake configure failed")
        db = json.load(open(os.path.join(scratch, "compile_commands.json")))
    finally:
        shutil.rmtree(scratch, ignore_errors=True)
    seen = {}
    for e in db:
        f = os.path.realpath(e["file"])
        if f in seen:
            continue
        args = shlex.split(e["command"]) if "command" in e else list(e["arguments"])
        # drop output / dependency-file options, keep everything that affects parsing
        out = []
        skip = 0
        for a in args:
            if skip:
                skip -= 1
                continue
            if a in ("-o", "-MF", "-MT", "-MQ"):
                skip = 1
                continue
            if a in ("-MD", "-MMD", "-c"):
                continue
            out.append(a)
        cxx = f.endswith((".cpp", ".cc", ".cxx"))
        if not any(a.startswith("-std=") for a in out):
            out.insert(1, "-std=gnu++17" if cxx else "-std=gnu17")
        out.insert(1, "-UNDEBUG")
        out.insert(1, "-Wno-everything")
        # compile from the repo, not from the vanished scratch dir
        seen[f] = {"directory": repo, "file": f, "arguments": out + ["-c"] if False else out}
    res = list(seen.values())
    os.makedirs(outdir, exist_ok=True)
    with open(os.path.join(outdir, "compile_commands.json"), "w") as fp:
        json.dump(res, fp, indent=0)
    return res


if __name__ == "__main__":
    r = make(sys.argv[1], sys.argv[2])
    print(len(r), "units")
