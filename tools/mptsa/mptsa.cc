// mptsa — fact extractor for the mpt-base static checks.
//
// For one translation unit (given with the real build's flags through a
// compilation database) it writes ONE json file holding the *resolved* program:
//   types     canonical type table (size, signedness, pointee, record name)
//   records   struct/class layouts defined under the source root (field offsets)
//   enums     enumerators with their evaluated values
//   globals   variables of static storage with their initialisers (tables, vtables)
//   functions every function defined under the source root (main file, headers,
//             macro expansions, template instantiations): parameters, the clang
//             CFG (blocks, elements as expression trees, terminators, labelled
//             successor edges, case labels) and source positions
// Every expression node carries its type and, when clang's constant evaluator
// can fold it, its value — so macros, enum arithmetic and sizeof are seen as the
// compiler sees them.  Rules live in python (tools/rules); nothing here matches
// identifier text.
//
// usage: mptsa -p <dir with compile_commands.json> --root /repo --out <dir> file...

#include "clang/AST/ASTConsumer.h"
#include "clang/AST/ASTContext.h"
#include "clang/AST/RecordLayout.h"
#include "clang/AST/RecursiveASTVisitor.h"
#include "clang/AST/ExprCXX.h"
#include "clang/AST/StmtCXX.h"
#include "clang/Analysis/CFG.h"
#include "clang/Basic/TargetInfo.h"
#include "clang/Frontend/CompilerInstance.h"
#include "clang/Frontend/FrontendAction.h"
#include "clang/Tooling/CommonOptionsParser.h"
#include "clang/Tooling/Tooling.h"
#include "llvm/Support/CommandLine.h"
#include "llvm/Support/JSON.h"
#include "llvm/Support/MD5.h"
#include "llvm/Support/raw_ostream.h"
#include "llvm/Support/FileSystem.h"

#include <map>
#include <set>
#include <string>

using namespace clang;
using namespace clang::tooling;
namespace json = llvm::json;

static llvm::cl::OptionCategory Cat("mptsa options");
static llvm::cl::opt<std::string> Root("root", llvm::cl::desc("source root"), llvm::cl::init("/repo"), llvm::cl::cat(Cat));
static llvm::cl::opt<std::string> OutDir("out", llvm::cl::desc("output directory"), llvm::cl::Required, llvm::cl::cat(Cat));

namespace {

class Extractor {
public:
  ASTContext &Ctx;
  SourceManager &SM;
  std::string root;
  std::string buildPrefix;

  json::Array types;
  std::map<const Type *, int> typeIds;   // canonical, unqualified type -> id
  std::map<std::pair<const Type *, unsigned>, int> qualIds;
  json::Object records;
  json::Object enums;
  json::Array globals;
  json::Array functions;
  std::set<const RecordDecl *> seenRecords;
  std::set<const EnumDecl *> seenEnums;
  std::map<const Decl *, int> declIds;
  std::map<const Stmt *, int> elemIds;   // statements that are CFG elements of the current function
  unsigned nParseFunctions = 0;

  Extractor(ASTContext &C, std::string r) : Ctx(C), SM(C.getSourceManager()), root(std::move(r)) {
    if (root.empty() || root.back() != '/') root += '/';
    buildPrefix = root + "_build/";
  }

  // ---- locations ------------------------------------------------------
  std::string fileOf(SourceLocation L) {
    if (L.isInvalid()) return "";
    SourceLocation E = SM.getExpansionLoc(L);
    PresumedLoc P = SM.getPresumedLoc(E, false);
    if (P.isInvalid()) return "";
    std::string f = P.getFilename();
    llvm::SmallString<256> real(f);
    if (!llvm::sys::fs::real_path(f, real)) f = std::string(real.str());
    return f;
  }
  unsigned lineOf(SourceLocation L) {
    if (L.isInvalid()) return 0;
    return SM.getExpansionLineNumber(L);
  }
  bool inRoot(SourceLocation L) {
    std::string f = fileOf(L);
    if (f.compare(0, root.size(), root) != 0) return false;
    if (f.compare(0, buildPrefix.size(), buildPrefix) == 0) return false;
    return true;
  }
  std::string rel(const std::string &f) {
    if (f.compare(0, root.size(), root) == 0) return f.substr(root.size());
    return f;
  }

  int declId(const Decl *D) {
    D = D->getCanonicalDecl();
    auto it = declIds.find(D);
    if (it != declIds.end()) return it->second;
    int id = (int)declIds.size() + 1;
    declIds[D] = id;
    return id;
  }

  // ---- types ----------------------------------------------------------
  int typeId(QualType QT) {
    if (QT.isNull()) return -1;
    QT = QT.getCanonicalType();
    const Type *T = QT.getTypePtr();
    unsigned quals = (QT.isConstQualified() ? 1 : 0) | (QT.isVolatileQualified() ? 2 : 0);
    auto key = std::make_pair(T, quals);
    auto it = qualIds.find(key);
    if (it != qualIds.end()) return it->second;
    int id = (int)types.size();
    types.push_back(json::Object{});   // reserve slot (recursive types)
    qualIds[key] = id;
    json::Object o;
    o["s"] = QT.getAsString(Ctx.getPrintingPolicy());
    if (quals & 1) o["const"] = true;
    if (!T->isIncompleteType() && !T->isDependentType() && !T->isFunctionType() && !T->isVoidType() &&
        !T->isPlaceholderType() && !T->isUndeducedType() && !T->isReferenceType() &&
        (T->isBuiltinType() || T->isPointerType() || T->isEnumeralType() || T->isRecordType() || T->isConstantArrayType() || T->isMemberPointerType())) {
      o["sz"] = (int64_t)Ctx.getTypeSizeInChars(QT).getQuantity();
    }
    if (T->isDependentType()) {
      o["k"] = "dependent";
    } else if (T->isBooleanType()) {
      o["k"] = "bool";
    } else if (const auto *ET = T->getAs<EnumType>()) {
      o["k"] = "enum";
      o["name"] = ET->getDecl()->getQualifiedNameAsString();
      o["signed"] = T->isSignedIntegerOrEnumerationType();
      noteEnum(ET->getDecl());
    } else if (T->isIntegerType()) {
      o["k"] = "int";
      o["signed"] = T->isSignedIntegerType();
      o["bits"] = (int64_t)Ctx.getIntWidth(QT);
      if (T->isCharType()) o["char"] = true;
    } else if (T->isRealFloatingType()) {
      o["k"] = "float";
      const llvm::fltSemantics &S = Ctx.getFloatTypeSemantics(QT);
      o["mant"] = (int64_t)llvm::APFloat::semanticsPrecision(S);
      o["maxexp"] = (int64_t)llvm::APFloat::semanticsMaxExponent(S);
    } else if (T->isVoidType()) {
      o["k"] = "void";
    } else if (const auto *PT = T->getAs<PointerType>()) {
      o["k"] = "ptr";
      o["to"] = typeId(PT->getPointeeType());
    } else if (const auto *RT = T->getAs<ReferenceType>()) {
      o["k"] = "ref";
      o["to"] = typeId(RT->getPointeeType());
    } else if (const auto *AT = dyn_cast<ArrayType>(T)) {
      o["k"] = "array";
      o["to"] = typeId(AT->getElementType());
      if (const auto *CAT = dyn_cast<ConstantArrayType>(AT))
        o["n"] = (int64_t)CAT->getSize().getZExtValue();
    } else if (const auto *RcT = T->getAs<RecordType>()) {
      o["k"] = "record";
      o["name"] = recordName(RcT->getDecl());
      noteRecord(RcT->getDecl());
    } else if (const auto *FT = T->getAs<FunctionProtoType>()) {
      o["k"] = "func";
      o["ret"] = typeId(FT->getReturnType());
      json::Array ps;
      for (QualType P : FT->param_types()) ps.push_back(typeId(P));
      o["params"] = std::move(ps);
      if (FT->isVariadic()) o["variadic"] = true;
    } else if (const auto *FN = T->getAs<FunctionNoProtoType>()) {
      o["k"] = "func";
      o["ret"] = typeId(FN->getReturnType());
      o["noproto"] = true;
    } else if (T->isMemberPointerType()) {
      o["k"] = "memptr";
    } else if (T->isNullPtrType()) {
      o["k"] = "nullptr";
    } else {
      o["k"] = "other";
    }
    types[id] = std::move(o);
    return id;
  }

  std::string recordName(const RecordDecl *RD) {
    std::string n;
    llvm::raw_string_ostream os(n);
    if (const auto *S = dyn_cast<ClassTemplateSpecializationDecl>(RD)) {
      QualType QT = Ctx.getRecordType(S);
      QT.print(os, Ctx.getPrintingPolicy());
      os.flush();
      return n;
    }
    RD->printQualifiedName(os);
    os.flush();
    if (n.empty() || n.find("(anonymous") != std::string::npos || n.find("(unnamed") != std::string::npos) {
      // anonymous: name by position
      n = "anon@" + rel(fileOf(RD->getLocation())) + ":" + std::to_string(lineOf(RD->getLocation()));
    }
    return n;
  }

  void noteEnum(const EnumDecl *ED) {
    ED = ED->getDefinition();
    if (!ED || !seenEnums.insert(ED).second) return;
    if (!inRoot(ED->getLocation())) return;
    json::Object o;
    o["file"] = rel(fileOf(ED->getLocation()));
    o["line"] = (int64_t)lineOf(ED->getLocation());
    json::Array cs;
    for (const EnumConstantDecl *C : ED->enumerators()) {
      json::Object c;
      c["n"] = C->getNameAsString();
      c["v"] = (int64_t)C->getInitVal().getExtValue();
      c["line"] = (int64_t)lineOf(C->getLocation());
      cs.push_back(std::move(c));
    }
    o["consts"] = std::move(cs);
    std::string n = ED->getQualifiedNameAsString();
    if (n.empty() || n.find("(unnamed") != std::string::npos || n.find("(anonymous") != std::string::npos)
      n = "anon@" + rel(fileOf(ED->getLocation())) + ":" + std::to_string(lineOf(ED->getLocation()));
    enums[n] = std::move(o);
  }

  void noteRecord(const RecordDecl *RD0) {
    const RecordDecl *RD = RD0->getDefinition();
    if (!RD || !seenRecords.insert(RD).second) return;
    if (RD->isDependentType() || RD->isInvalidDecl()) return;
    bool local = inRoot(RD->getLocation());
    // external records: only iovec-like small ones are interesting; emit all non-root records lazily too
    if (!local) {
      std::string n = RD->getNameAsString();
      if (n != "iovec") return;
    }
    json::Object o;
    o["file"] = rel(fileOf(RD->getLocation()));
    o["line"] = (int64_t)lineOf(RD->getLocation());
    o["union"] = RD->isUnion();
    const ASTRecordLayout &L = Ctx.getASTRecordLayout(RD);
    o["size"] = (int64_t)L.getSize().getQuantity();
    json::Array fs;
    unsigned idx = 0;
    for (const FieldDecl *F : RD->fields()) {
      json::Object f;
      f["n"] = F->getNameAsString();
      f["t"] = typeId(F->getType());
      f["off"] = (int64_t)(L.getFieldOffset(idx) / 8);
      if (F->isBitField()) { f["bitoff"] = (int64_t)L.getFieldOffset(idx); f["bits"] = (int64_t)F->getBitWidthValue(Ctx); }
      f["line"] = (int64_t)lineOf(F->getLocation());
      fs.push_back(std::move(f));
      ++idx;
    }
    o["fields"] = std::move(fs);
    if (const auto *CRD = dyn_cast<CXXRecordDecl>(RD)) {
      json::Array bs;
      for (const auto &B : CRD->bases()) {
        json::Object b;
        b["t"] = typeId(B.getType());
        if (const auto *BD = B.getType()->getAsCXXRecordDecl()) {
          b["name"] = recordName(BD);
          if (!B.isVirtual()) b["off"] = (int64_t)L.getBaseClassOffset(BD).getQuantity();
        }
        bs.push_back(std::move(b));
      }
      if (!bs.empty()) o["bases"] = std::move(bs);
      if (CRD->isDynamicClass()) o["dynamic"] = true;
    }
    records[recordName(RD)] = std::move(o);
  }

  // ---- expressions ----------------------------------------------------
  json::Value pos(const Stmt *S) {
    return (int64_t)lineOf(S->getBeginLoc());
  }

  std::string fnName(const FunctionDecl *FD) {
    std::string n;
    llvm::raw_string_ostream os(n);
    FD->printQualifiedName(os);
    if (const TemplateArgumentList *TA = FD->getTemplateSpecializationArgs()) {
      printTemplateArgumentList(os, TA->asArray(), Ctx.getPrintingPolicy());
    }
    os.flush();
    return n;
  }

  void addConst(json::Object &o, const Expr *E) {
    if (E->isValueDependent() || E->isTypeDependent()) return;
    if (!E->getType()->isIntegralOrEnumerationType() && !E->getType()->isPointerType()) return;
    Expr::EvalResult R;
    if (E->getType()->isIntegralOrEnumerationType()) {
      if (E->EvaluateAsInt(R, Ctx, Expr::SE_NoSideEffects)) {
        llvm::APSInt V = R.Val.getInt();
        if (V.isSigned() || V.getActiveBits() < 64) o["v"] = (int64_t)V.getExtValue();
        else { llvm::SmallString<32> str; V.toString(str, 10); o["vu"] = std::string(str.str()); }
      }
    } else if (E->isNullPointerConstant(Ctx, Expr::NPC_NeverValueDependent)) {
      o["v"] = 0;
    }
  }

  json::Value declRef(const ValueDecl *D) {
    json::Object o;
    o["n"] = D->getNameAsString();
    if (const auto *FD = dyn_cast<FunctionDecl>(D)) {
      o["dk"] = "fn";
      o["qn"] = fnName(FD);
      o["static"] = FD->getStorageClass() == SC_Static || FD->isInAnonymousNamespace();
      if (const auto *MD = dyn_cast<CXXMethodDecl>(FD)) {
        if (MD->isVirtual()) o["virtual"] = true;
      }
      if (inRoot(FD->getLocation())) o["inroot"] = true;
    } else if (const auto *VD = dyn_cast<VarDecl>(D)) {
      o["id"] = declId(VD);
      if (isa<ParmVarDecl>(VD)) o["dk"] = "param";
      else if (VD->isLocalVarDecl()) o["dk"] = VD->isStaticLocal() ? "slocal" : "local";
      else { o["dk"] = "global"; o["qn"] = VD->getQualifiedNameAsString(); }
    } else if (isa<EnumConstantDecl>(D)) {
      o["dk"] = "enumc";
    } else if (isa<FieldDecl>(D)) {
      o["dk"] = "field";
    } else {
      o["dk"] = "other";
    }
    return std::move(o);
  }

  json::Value expr(const Stmt *S) {
    if (!S) return nullptr;
    json::Object o;
    if (const auto *E = dyn_cast<Expr>(S)) {
      // skip syntactic wrappers
      if (const auto *P = dyn_cast<ParenExpr>(E)) return expr(P->getSubExpr());
      if (const auto *CE = dyn_cast<ConstantExpr>(E)) return expr(CE->getSubExpr());
      if (const auto *EWC = dyn_cast<ExprWithCleanups>(E)) return expr(EWC->getSubExpr());
      if (const auto *MTE = dyn_cast<MaterializeTemporaryExpr>(E)) return expr(MTE->getSubExpr());
      if (const auto *BTE = dyn_cast<CXXBindTemporaryExpr>(E)) return expr(BTE->getSubExpr());
      if (const auto *SNTTP = dyn_cast<SubstNonTypeTemplateParmExpr>(E)) return expr(SNTTP->getReplacement());
      if (const auto *DA = dyn_cast<CXXDefaultArgExpr>(E)) return expr(DA->getExpr());
      if (const auto *DI = dyn_cast<CXXDefaultInitExpr>(E)) return expr(DI->getExpr());
      if (const auto *OV = dyn_cast<OpaqueValueExpr>(E)) { if (OV->getSourceExpr()) return expr(OV->getSourceExpr()); }
      o["t"] = typeId(E->getType());
      o["l"] = pos(E);
      { auto it = elemIds.find(S); if (it != elemIds.end()) o["sid"] = it->second; }
      addConst(o, E);
      if (E->isLValue()) o["lv"] = true;
    } else {
      o["l"] = pos(S);
    }

    if (const auto *IL = dyn_cast<IntegerLiteral>(S)) {
      o["k"] = "lit";
      (void)IL;
    } else if (const auto *CL = dyn_cast<CharacterLiteral>(S)) {
      o["k"] = "lit";
      o["chr"] = true;
      (void)CL;
    } else if (const auto *BL = dyn_cast<CXXBoolLiteralExpr>(S)) {
      o["k"] = "lit";
      (void)BL;
    } else if (isa<CXXNullPtrLiteralExpr>(S) || isa<GNUNullExpr>(S)) {
      o["k"] = "lit";
      o["v"] = 0;
    } else if (const auto *FL = dyn_cast<FloatingLiteral>(S)) {
      o["k"] = "flit";
      o["fv"] = FL->getValueAsApproximateDouble();
    } else if (const auto *SL = dyn_cast<StringLiteral>(S)) {
      o["k"] = "str";
      if (SL->getCharByteWidth() == 1) o["s"] = SL->getBytes().str();
      o["len"] = (int64_t)SL->getLength();
    } else if (const auto *DR = dyn_cast<DeclRefExpr>(S)) {
      o["k"] = "ref";
      o["d"] = declRef(DR->getDecl());
    } else if (const auto *ME = dyn_cast<MemberExpr>(S)) {
      o["k"] = "mem";
      o["b"] = expr(ME->getBase());
      o["arrow"] = ME->isArrow();
      const ValueDecl *MD = ME->getMemberDecl();
      o["f"] = MD->getNameAsString();
      if (const auto *FD = dyn_cast<FieldDecl>(MD)) {
        o["rec"] = recordName(FD->getParent());
        noteRecord(FD->getParent());
      } else if (const auto *MF = dyn_cast<CXXMethodDecl>(MD)) {
        o["method"] = fnName(MF);
        if (MF->isVirtual()) o["virtual"] = true;
      }
    } else if (const auto *UO = dyn_cast<UnaryOperator>(S)) {
      o["k"] = "un";
      o["op"] = UnaryOperator::getOpcodeStr(UO->getOpcode()).str();
      if (UO->isPostfix()) o["post"] = true;
      o["e"] = expr(UO->getSubExpr());
    } else if (const auto *CAO = dyn_cast<CompoundAssignOperator>(S)) {
      o["k"] = "bin";
      o["op"] = CAO->getOpcodeStr().str();
      o["a"] = expr(CAO->getLHS());
      o["b"] = expr(CAO->getRHS());
      o["ct"] = typeId(CAO->getComputationResultType());
    } else if (const auto *BO = dyn_cast<BinaryOperator>(S)) {
      o["k"] = "bin";
      o["op"] = BO->getOpcodeStr().str();
      o["a"] = expr(BO->getLHS());
      o["b"] = expr(BO->getRHS());
    } else if (const auto *CO = dyn_cast<ConditionalOperator>(S)) {
      o["k"] = "cond";
      o["c"] = expr(CO->getCond());
      o["a"] = expr(CO->getTrueExpr());
      o["b"] = expr(CO->getFalseExpr());
    } else if (const auto *BCO = dyn_cast<BinaryConditionalOperator>(S)) {
      o["k"] = "cond";
      o["c"] = expr(BCO->getCommon());
      o["a"] = expr(BCO->getCommon());
      o["b"] = expr(BCO->getFalseExpr());
    } else if (const auto *MC = dyn_cast<CXXMemberCallExpr>(S)) {
      o["k"] = "call";
      o["mcall"] = true;
      if (const CXXMethodDecl *MD = MC->getMethodDecl()) {
        o["fn"] = declRef(MD);
      }
      o["obj"] = expr(MC->getImplicitObjectArgument());
      o["callee"] = expr(MC->getCallee());
      json::Array as;
      for (const Expr *A : MC->arguments()) as.push_back(expr(A));
      o["args"] = std::move(as);
    } else if (const auto *CE = dyn_cast<CallExpr>(S)) {
      o["k"] = "call";
      if (const FunctionDecl *FD = CE->getDirectCallee()) o["fn"] = declRef(FD);
      else o["callee"] = expr(CE->getCallee());
      if (isa<CXXOperatorCallExpr>(CE)) o["opcall"] = true;
      json::Array as;
      for (const Expr *A : CE->arguments()) as.push_back(expr(A));
      o["args"] = std::move(as);
    } else if (const auto *ICE = dyn_cast<ImplicitCastExpr>(S)) {
      o["k"] = "cast";
      o["ck"] = ICE->getCastKindName();
      o["e"] = expr(ICE->getSubExpr());
    } else if (const auto *ECE = dyn_cast<ExplicitCastExpr>(S)) {
      o["k"] = "cast";
      o["ck"] = ECE->getCastKindName();
      o["explicit"] = true;
      o["e"] = expr(ECE->getSubExpr());
    } else if (const auto *AS = dyn_cast<ArraySubscriptExpr>(S)) {
      o["k"] = "idx";
      o["a"] = expr(AS->getBase());
      o["i"] = expr(AS->getIdx());
    } else if (const auto *UE = dyn_cast<UnaryExprOrTypeTraitExpr>(S)) {
      o["k"] = "sizeof";
      o["trait"] = (int64_t)UE->getKind();
      if (UE->isArgumentType()) o["at"] = typeId(UE->getArgumentType());
      else { o["at"] = typeId(UE->getArgumentExpr()->getType()); o["ae"] = expr(UE->getArgumentExpr()); }
    } else if (const auto *OO = dyn_cast<OffsetOfExpr>(S)) {
      o["k"] = "offsetof";
      o["rec"] = typeId(OO->getTypeSourceInfo()->getType());
      std::string path;
      for (unsigned i = 0; i < OO->getNumComponents(); ++i) {
        const OffsetOfNode &N = OO->getComponent(i);
        if (N.getKind() == OffsetOfNode::Field) { if (!path.empty()) path += "."; path += N.getField()->getNameAsString(); }
      }
      o["path"] = path;
    } else if (const auto *ILE = dyn_cast<InitListExpr>(S)) {
      o["k"] = "init";
      const InitListExpr *Sem = ILE->isSemanticForm() ? ILE : (ILE->getSemanticForm() ? ILE->getSemanticForm() : ILE);
      json::Array es;
      for (const Expr *I : Sem->inits()) es.push_back(expr(I));
      o["elts"] = std::move(es);
      if (Sem->hasArrayFiller()) o["filler"] = true;
    } else if (isa<ImplicitValueInitExpr>(S) || isa<CXXScalarValueInitExpr>(S)) {
      o["k"] = "zero";
    } else if (isa<CXXThisExpr>(S)) {
      o["k"] = "this";
    } else if (const auto *CC = dyn_cast<CXXConstructExpr>(S)) {
      o["k"] = "construct";
      o["fn"] = declRef(CC->getConstructor());
      json::Array as;
      for (const Expr *A : CC->arguments()) as.push_back(expr(A));
      o["args"] = std::move(as);
    } else if (const auto *NE = dyn_cast<CXXNewExpr>(S)) {
      o["k"] = "new";
      o["at"] = typeId(NE->getAllocatedType());
      json::Array pa;
      for (const Expr *A : NE->placement_arguments()) pa.push_back(expr(A));
      if (!pa.empty()) o["placement"] = std::move(pa);
      if (NE->getInitializer()) o["init"] = expr(NE->getInitializer());
      if (NE->isArray() && NE->getArraySize()) o["n"] = expr(*NE->getArraySize());
    } else if (const auto *DE = dyn_cast<CXXDeleteExpr>(S)) {
      o["k"] = "delete";
      o["e"] = expr(DE->getArgument());
    } else if (const auto *DS = dyn_cast<DeclStmt>(S)) {
      o["k"] = "decl";
      json::Array vs;
      for (const Decl *D : DS->decls()) {
        if (const auto *VD = dyn_cast<VarDecl>(D)) {
          json::Object v;
          v["id"] = declId(VD);
          v["n"] = VD->getNameAsString();
          v["t"] = typeId(VD->getType());
          if (VD->isStaticLocal()) v["static"] = true;
          if (VD->hasInit()) v["init"] = expr(VD->getInit());
          vs.push_back(std::move(v));
        }
      }
      o["vars"] = std::move(vs);
    } else if (const auto *RS = dyn_cast<ReturnStmt>(S)) {
      o["k"] = "ret";
      if (RS->getRetValue()) o["e"] = expr(RS->getRetValue());
    } else if (const auto *SE = dyn_cast<StmtExpr>(S)) {
      o["k"] = "stmtexpr";
      (void)SE;
    } else if (const auto *CLE = dyn_cast<CompoundLiteralExpr>(S)) {
      o["k"] = "complit";
      o["e"] = expr(CLE->getInitializer());
    } else if (const auto *VA = dyn_cast<VAArgExpr>(S)) {
      o["k"] = "vaarg";
      o["e"] = expr(VA->getSubExpr());
    } else if (const auto *LE = dyn_cast<LambdaExpr>(S)) {
      o["k"] = "lambda";
      (void)LE;
    } else {
      o["k"] = "other";
      o["cls"] = S->getStmtClassName();
      json::Array ch;
      for (const Stmt *C : S->children()) ch.push_back(expr(C));
      if (!ch.empty()) o["ch"] = std::move(ch);
    }
    return std::move(o);
  }

  // ---- functions ------------------------------------------------------
  void function(const FunctionDecl *FD) {
    if (!FD->doesThisDeclarationHaveABody()) return;
    if (FD->isDependentContext()) return;
    if (FD->isInvalidDecl()) return;
    if (!inRoot(FD->getLocation())) return;
    const Stmt *Body = FD->getBody();
    if (!Body) return;

    json::Object f;
    f["name"] = FD->getNameAsString();
    f["qn"] = fnName(FD);
    f["file"] = rel(fileOf(FD->getLocation()));
    f["line"] = (int64_t)lineOf(FD->getLocation());
    f["endline"] = (int64_t)lineOf(Body->getEndLoc());
    f["static"] = FD->getStorageClass() == SC_Static || FD->isInAnonymousNamespace();
    f["ret"] = typeId(FD->getReturnType());
    if (FD->isTemplateInstantiation()) f["inst"] = true;
    if (FD->isImplicit() || FD->isDefaulted()) f["implicit"] = true;
    if (const auto *MD = dyn_cast<CXXMethodDecl>(FD)) {
      f["method"] = true;
      f["cls"] = recordName(MD->getParent());
      if (MD->isVirtual()) f["virtual"] = true;
      if (MD->isConst()) f["const"] = true;
      if (const auto *Spec = dyn_cast<ClassTemplateSpecializationDecl>(MD->getParent())) {
        json::Array ta;
        for (const TemplateArgument &A : Spec->getTemplateArgs().asArray()) {
          if (A.getKind() == TemplateArgument::Type) ta.push_back(typeId(A.getAsType()));
          else ta.push_back(nullptr);
        }
        f["cls_targs"] = std::move(ta);
      }
      if (isa<CXXConstructorDecl>(MD)) f["ctor"] = true;
      if (isa<CXXDestructorDecl>(MD)) f["dtor"] = true;
      json::Array ov;
      for (const CXXMethodDecl *O : MD->overridden_methods()) ov.push_back(fnName(O));
      if (!ov.empty()) f["overrides"] = std::move(ov);
    }
    json::Array ps;
    for (const ParmVarDecl *P : FD->parameters()) {
      json::Object p;
      p["id"] = declId(P);
      p["n"] = P->getNameAsString();
      p["t"] = typeId(P->getType());
      ps.push_back(std::move(p));
    }
    f["params"] = std::move(ps);

    CFG::BuildOptions BO;
    BO.PruneTriviallyFalseEdges = false;
    BO.AddImplicitDtors = false;
    BO.AddInitializers = true;
    BO.AddTemporaryDtors = false;
    BO.AddEHEdges = false;
    std::unique_ptr<CFG> G = CFG::buildCFG(FD, const_cast<Stmt *>(Body), &Ctx, BO);
    if (!G) {
      f["nocfg"] = true;
      functions.push_back(std::move(f));
      return;
    }
    elemIds.clear();
    for (const CFGBlock *B : *G)
      for (const CFGElement &E : *B)
        if (auto CS = E.getAs<CFGStmt>()) {
          int n = (int)elemIds.size() + 1;
          elemIds.emplace(CS->getStmt(), n);
        }
    json::Array blocks;
    for (const CFGBlock *B : *G) {
      json::Object b;
      b["id"] = (int64_t)B->getBlockID();
      json::Array el;
      for (const CFGElement &E : *B) {
        if (auto CS = E.getAs<CFGStmt>()) {
          el.push_back(expr(CS->getStmt()));
        } else if (auto CI = E.getAs<CFGInitializer>()) {
          const CXXCtorInitializer *I = CI->getInitializer();
          json::Object io;
          io["k"] = "ctorinit";
          io["l"] = (int64_t)lineOf(I->getSourceLocation());
          if (I->isAnyMemberInitializer()) {
            io["f"] = I->getAnyMember()->getNameAsString();
            io["ft"] = typeId(I->getAnyMember()->getType());
          } else if (I->isBaseInitializer()) {
            io["base"] = typeId(QualType(I->getBaseClass(), 0));
          }
          io["e"] = expr(I->getInit());
          el.push_back(std::move(io));
        }
      }
      b["el"] = std::move(el);
      json::Array sc;
      for (auto I = B->succ_begin(); I != B->succ_end(); ++I) {
        const CFGBlock *SB = I->getReachableBlock();
        if (!SB) SB = I->getPossiblyUnreachableBlock();
        if (SB) sc.push_back((int64_t)SB->getBlockID());
        else sc.push_back(nullptr);
      }
      b["succ"] = std::move(sc);
      if (const Stmt *T = B->getTerminatorStmt()) {
        json::Object t;
        t["cls"] = T->getStmtClassName();
        t["l"] = (int64_t)lineOf(T->getBeginLoc());
        if (const Stmt *C = B->getTerminatorCondition(false)) t["cond"] = expr(C);
        if (const auto *BOp = dyn_cast<BinaryOperator>(T)) t["op"] = BOp->getOpcodeStr().str();
        b["term"] = std::move(t);
      }
      if (const Stmt *L = B->getLabel()) {
        json::Object lo;
        lo["l"] = (int64_t)lineOf(L->getBeginLoc());
        if (const auto *CS = dyn_cast<CaseStmt>(L)) {
          lo["k"] = "case";
          Expr::EvalResult R;
          if (CS->getLHS() && !CS->getLHS()->isValueDependent() && CS->getLHS()->EvaluateAsInt(R, Ctx)) lo["lo"] = (int64_t)R.Val.getInt().getExtValue();
          if (CS->getRHS()) { if (!CS->getRHS()->isValueDependent() && CS->getRHS()->EvaluateAsInt(R, Ctx)) lo["hi"] = (int64_t)R.Val.getInt().getExtValue(); }
          if (CS->getLHS()) lo["e"] = expr(CS->getLHS());
        } else if (isa<DefaultStmt>(L)) {
          lo["k"] = "default";
        } else if (const auto *LS = dyn_cast<LabelStmt>(L)) {
          lo["k"] = "label";
          lo["n"] = LS->getName();
        }
        b["label"] = std::move(lo);
      }
      blocks.push_back(std::move(b));
    }
    f["entry"] = (int64_t)G->getEntry().getBlockID();
    f["exit"] = (int64_t)G->getExit().getBlockID();
    f["blocks"] = std::move(blocks);
    elemIds.clear();
    functions.push_back(std::move(f));
    ++nParseFunctions;
  }

  void global(const VarDecl *VD) {
    if (!VD->hasInit()) return;
    if (VD->isInvalidDecl() || VD->getType()->isDependentType()) return;
    if (!inRoot(VD->getLocation())) return;
    if (!VD->hasGlobalStorage()) return;
    if (const Expr *I = VD->getInit()) if (I->isValueDependent() || I->isTypeDependent()) return;
    json::Object g;
    g["id"] = declId(VD);
    g["n"] = VD->getNameAsString();
    g["qn"] = VD->getQualifiedNameAsString();
    g["file"] = rel(fileOf(VD->getLocation()));
    g["line"] = (int64_t)lineOf(VD->getLocation());
    g["t"] = typeId(VD->getType());
    g["static"] = VD->getStorageClass() == SC_Static;
    if (VD->isStaticLocal()) {
      g["slocal"] = true;
      if (const auto *FD = dyn_cast<FunctionDecl>(VD->getDeclContext())) g["in"] = fnName(FD);
    }
    g["init"] = expr(VD->getInit());
    globals.push_back(std::move(g));
  }
};

class Visitor : public RecursiveASTVisitor<Visitor> {
public:
  Extractor &X;
  explicit Visitor(Extractor &x) : X(x) {}
  bool shouldVisitTemplateInstantiations() const { return true; }
  bool shouldVisitImplicitCode() const { return false; }
  bool VisitFunctionDecl(FunctionDecl *FD) { X.function(FD); return true; }
  bool VisitVarDecl(VarDecl *VD) { X.global(VD); return true; }
  bool VisitRecordDecl(RecordDecl *RD) {
    if (RD->isCompleteDefinition() && !RD->isDependentType() && X.inRoot(RD->getLocation())) X.noteRecord(RD);
    return true;
  }
  bool VisitEnumDecl(EnumDecl *ED) { if (ED->isCompleteDefinition()) X.noteEnum(ED); return true; }
};

class Consumer : public ASTConsumer {
  std::string file;
public:
  explicit Consumer(std::string f) : file(std::move(f)) {}
  void HandleTranslationUnit(ASTContext &Ctx) override {
    json::Object out;
    out["unit"] = file;
    bool err = Ctx.getDiagnostics().hasErrorOccurred();
    out["errors"] = err;
    Extractor X(Ctx, Root);
    Visitor V(X);
    V.TraverseDecl(Ctx.getTranslationUnitDecl());
    out["types"] = std::move(X.types);
    out["records"] = std::move(X.records);
    out["enums"] = std::move(X.enums);
    out["globals"] = std::move(X.globals);
    out["functions"] = std::move(X.functions);
    out["ptrsize"] = (int64_t)(Ctx.getTargetInfo().getPointerWidth(0) / 8);
    out["char_signed"] = Ctx.getLangOpts().CharIsSigned;
    llvm::MD5 H;
    H.update(file);
    llvm::MD5::MD5Result R;
    H.final(R);
    llvm::SmallString<32> hex;
    llvm::MD5::stringifyResult(R, hex);
    std::string path = OutDir + "/" + std::string(hex.str()) + ".json";
    std::error_code EC;
    llvm::raw_fd_ostream os(path, EC);
    if (EC) { llvm::errs() << "mptsa: cannot write " << path << ": " << EC.message() << "\n"; return; }
    os << json::Value(std::move(out));
    os << "\n";
  }
};

class Action : public ASTFrontendAction {
public:
  std::unique_ptr<ASTConsumer> CreateASTConsumer(CompilerInstance &CI, StringRef InFile) override {
    llvm::SmallString<256> real(InFile);
    std::string f = InFile.str();
    if (!llvm::sys::fs::real_path(InFile, real)) f = std::string(real.str());
    return std::make_unique<Consumer>(f);
  }
};

} // namespace

int main(int argc, const char **argv) {
  auto Opts = CommonOptionsParser::create(argc, argv, Cat);
  if (!Opts) { llvm::errs() << llvm::toString(Opts.takeError()) << "\n"; return 2; }
  ClangTool Tool(Opts->getCompilations(), Opts->getSourcePathList());
  return Tool.run(newFrontendActionFactory<Action>().get());
}
