#!/bin/sh
# build the fact extractor (offline; clang 14 libTooling, linked by path)
set -e
here=$(cd "$(dirname "$0")" && pwd)
out="$here/../../build"
mkdir -p "$out"
if [ "$out/mptsa" -nt "$here/mptsa.cc" ]; then exit 0; fi
clang++ $(llvm-config-14 --cxxflags) -fno-rtti -O1 -w "$here/mptsa.cc" -o "$out/mptsa.tmp" \
  /usr/lib/llvm-14/lib/libclang-cpp.so.14 /usr/lib/llvm-14/lib/libLLVM-14.so
mv "$out/mptsa.tmp" "$out/mptsa"
