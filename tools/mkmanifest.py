#!/usr/bin/env python3
"""writes MANIFEST.json from tools/sa/props.py (claimed) and tools/na.json (not applicable)"""
import json, os, sys
V = os.path.dirname(os.path.dirname(os.path.abspath(__file__)))
sys.path.insert(0, os.path.join(V, "tools"))
from sa import props
allp = [json.loads(l)["id"] for l in open(os.path.join(V, "properties.jsonl"))]
na = json.load(open(os.path.join(V, "tools", "na.json")))
checks = []
for pid in allp:
    if pid not in props.PROPS:
        continue
    s = props.PROPS[pid]
    checks.append({
        "property_id": pid,
        "quick_cmd": "./check %s --tier quick" % pid,
        "thorough_cmd": "./check %s --tier thorough" % pid,
        "evidence_file": "/verif/evidence/%s.json" % pid,
        "replay_cmd_template": "./check %s --replay {path}" % pid,
        "engine": "mptsa",
        "level_claimed": {"category": "other", "text": s["level_text"], "design_ref": s.get("design_ref", "DESIGN.md section 4 " + pid)},
        "level_note": s["level_note"],
        "technique": s["technique"],
    })
m = {
    "version": 1,
    "setup_cmd": "sh tools/mptsa/build.sh",
    "hooks": {"guard": "MPT_BASE_VERIF", "enable": "no hooks: the analyser parses /repo's sources as they are, with the flags of a scratch cmake configure",
              "baseline_off_cmd": "cd /repo && cmake -G Ninja -B _build >/dev/null && cmake --build _build >/dev/null && ctest --test-dir _build -j8 --timeout 900",
              "source_commits": [], "add_only": True},
    "engines": [{"name": "mptsa", "path": "tools/mptsa/mptsa.cc + tools/sa/*.py", "serves_properties": [c["property_id"] for c in checks],
                 "kind_free_text": "clang-14 libTooling fact extractor (resolved AST + CFG per function, constants folded) and python rule engines: "
                                   "interval abstract interpretation with guard refinement, table/sibling agreement, CFG path rules"}],
    "checks": checks,
    "notes": "static analysis only; every run re-parses /repo's working tree (facts cached by content hash of every source file). exit 2 = ANALYSIS-BROKEN (anchor vanished / floor not met)",
    "not_applicable": [{"property_id": p, "reason": na.get(p, "check not built yet (DESIGN.md section 8 build order)")} for p in allp if p not in props.PROPS],
}
json.dump(m, open(os.path.join(V, "MANIFEST.json"), "w"), indent=1)
print(len(checks), "claimed,", len(m["not_applicable"]), "not applicable")
