#!/usr/bin/env python3
"""usage: seed_archive_round.py <round dir> <results file> <round number> [kind of seed-a] [kind of seed-b]
archives <round dir>/<Cxx>/seed-{a,b} as seeded/<Cxx>-<n> (next free n); the results file has lines
`Cxx-a violations=N broken=N rules=R1 R2` from the check run against the patched tree, and optional `# Cxx-a shipped` marks"""
import json, os, re, shutil, sys
rd, resf, rnd = sys.argv[1], sys.argv[2], sys.argv[3]
KIND = {"a": sys.argv[4] if len(sys.argv) > 4 else "value/bound slip", "b": sys.argv[5] if len(sys.argv) > 5 else "bookkeeping/control-flow slip"}
V = os.path.dirname(os.path.dirname(os.path.abspath(__file__)))
res, shipped, why = {}, set(), {}
for l in open(resf):
    m = re.match(r"(C\d\d)-([ab]) violations=(\d+) broken=(\d+) rules=(.*)", l)
    if m:
        res[(m.group(1), m.group(2))] = (int(m.group(3)), m.group(5).split())
    m = re.match(r"# (C\d\d)-([ab]) shipped", l)
    if m:
        shipped.add((m.group(1), m.group(2)))
    m = re.match(r"# (C\d\d)-([ab]) missed: (.*)", l)
    if m:
        why[(m.group(1), m.group(2))] = m.group(3).strip()
out = []
for (pid, k), (nv, rules) in sorted(res.items()):
    src = os.path.join(rd, pid, "seed-" + k)
    if not os.path.isdir(src):
        continue
    n = 1
    while os.path.exists(os.path.join(V, "seeded", "%s-%d" % (pid, n))):
        n += 1
    name = "%s-%d" % (pid, n)
    dst = os.path.join(V, "seeded", name)
    os.makedirs(dst)
    for fn in os.listdir(src):
        p = os.path.join(src, fn)
        if os.path.isfile(p) and os.path.getsize(p) < 200000 and fn.endswith((".diff", ".c", ".cpp", ".sh", ".md", ".py", ".h", ".txt")):
            shutil.copy(p, os.path.join(dst, fn))
    if nv:
        det = "%s — %s" % (" / ".join(rules), "as shipped" if (pid, k) in shipped else "added after this seed")
    else:
        det = "missed: " + why.get((pid, k), "no structural or relational necessary condition found")
    meta = {"property": pid, "round": int(rnd), "kind": KIND[k],
            "needs_to_manifest": "see notes.md",
            "confirmed": "clean tree + patch: library builds, ctest 29/29, run.sh exits non-zero; clean tree: run.sh exits 0 (each in its own scratch worktree)",
            "detected_by": det,
            "checked_with": "./check %s against the patched tree (tools/seed_regress.sh applies the patch to /repo, runs the check and restores /repo)" % pid}
    json.dump(meta, open(os.path.join(dst, "meta.json"), "w"), indent=1)
    out.append(name)
print("archived", out)
