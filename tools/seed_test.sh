#!/bin/sh
# usage: seed_test.sh <patch.diff> <property> [more properties...] — applies a seeded patch to /repo, runs the checks, undoes it
patch=$1; shift
git -C /repo apply "$patch" || exit 3
for p in "$@"; do /verif/check $p --no-evidence 2>&1 | grep -E "^  [a-z].*:[0-9]+ |^property|BROKEN" | cut -c1-260 | head -8; done
git -C /repo checkout -- .
