"""Rules for C12 (request ids / reply contexts): OUTPARAM (callee side), IDWIDTH, CONVTYPE, LENCLEARED, UNINITCTX."""
import json
from .facts import strip, cval, walk, walk_own, show, callee_name
from .ival import Analysis, AV, join
from .core import Result, Broken, norm
from .rules_path import OutSummary, funcs_of
from .rules_table import switch_cases, first_case_elements
from .rules_effect import root_of, return_cases
from .rules_layout import convert_calls, mem_path


def run_outparam_callee(prog, ctx=None):
    """OUTPARAM (callee side): a result parameter written on one non-error return is written on every non-error return"""
    res = Result("OUTPARAM")
    files = set(ctx.get("files", [])) if ctx else None
    names = ctx.get("names") if ctx else None
    osum = OutSummary(prog)
    for f in funcs_of(prog, files, names):
        summ = osum.get(f)
        if not summ:
            continue
        RT = f.T(f.ret)
        if RT.get("k") != "int":
            continue
        for i, s in sorted(summ.items()):
            PT = f.T(f.pointee(f.params[i]["t"]))
            if PT.get("k") not in ("int", "ptr", "float", "enum"):
                continue      # result scalars only; object parameters are covered by ERRFX
            w, u = s["written"], s["unwritten"]
            if w is None:
                continue      # never written: an input
            key = "%s:*%s" % (f.qn, f.params[i]["n"])
            bad = u is not None and u.hi >= 0 and w.hi >= 0 and (u.hi > 0 or w.lo <= 0 <= w.hi or u.lo <= 0)
            # "written only when returning 0, unwritten for the positive results" is the defect shape; an out that is
            # unwritten on a *different* success class than it is written on needs the classes to overlap or be ordered
            res.ob(key, not bad, f, f.line,
                   "" if not bad else "result *%s is stored when the function returns %s but not when it returns %s" % (f.params[i]["n"], w, u),
                   {"written_on": w.tojson(), "unwritten_on": u.tojson() if u else None})
    return res


def run_idwidth(prog, ctx=None):
    """IDWIDTH: per header width w the largest request id is 2^(8w-1)-1 (top bit of the first byte marks replies)"""
    res = Result("IDWIDTH")
    f = prog.func("mpt_command_reserve")
    if f is None:
        raise Broken("anchor missing: mpt_command_reserve")
    n = 0
    for K, blk, swb in switch_cases(f):
        if K <= 0 or K > 8:
            continue
        for e in first_case_elements(f, blk):
            for nd in walk(e):
                if nd.get("k") == "bin" and nd.get("op") == "=" and cval(nd["b"]) is not None:
                    want = (1 << (8 * K - 1)) - 1
                    got = cval(nd["b"])
                    n += 1
                    ok = got == want
                    res.ob("mpt_command_reserve:width %d" % K, ok, f, nd.get("l", 0),
                           "" if ok else "largest id for %d byte headers is %s, the reply marker leaves 2^%d-1 = %s" % (K, got, 8 * K - 1, want))
    if n < 6:
        raise Broken("mpt_command_reserve: width table not found (%d cases)" % n)
    # the writer refuses ids with the marker bit set
    w = prog.func("mpt_message_id2buf")
    if w is None:
        raise Broken("anchor missing: mpt_message_id2buf")
    # the marker test in any spelling:  x & 0x80  /  x > 127  /  x >= 128  on a byte
    marker = [nd for b, i, nd in w.walk_all() if nd.get("k") == "bin" and (
        (nd.get("op") == "&" and (cval(nd["b"]) == 0x80 or cval(nd["a"]) == 0x80))
        or (nd.get("op") == ">" and cval(nd["b"]) == 127) or (nd.get("op") == ">=" and cval(nd["b"]) == 128)
        or (nd.get("op") == "<" and cval(nd["a"]) == 127) or (nd.get("op") == "<=" and cval(nd["a"]) == 128))]
    res.ob("mpt_message_id2buf:marker-test", bool(marker), w, w.line, "" if marker else "no test of the reply marker bit (0x80) in the id writer")
    return res


def consumer_types(prog):
    """type id K -> set of record names callers ask for: convert(x, K, &p) with `struct R *p`"""
    out = {}
    for f in prog.functions.values():
        if f.nocfg:
            continue
        for call, ke, de, what in convert_calls(prog, f):
            K = cval(ke)
            if K is None or K == 0:
                continue
            d = strip(de, all_casts=True)
            if d.get("k") == "un" and d.get("op") == "&":
                DT = f.T(d["e"].get("t"))
                if DT.get("k") == "ptr":
                    PT = f.T(DT.get("to"))
                    if PT.get("k") == "record":
                        out.setdefault(K, {}).setdefault(PT["name"], []).append("%s:%s" % (f.file, call.get("l")))
    return out


def run_convtype(prog, ctx=None):
    """CONVTYPE: a convert() implementation answering `type == K` hands out a pointer to the record type consumers of K expect"""
    res = Result("CONVTYPE")
    files = set(ctx.get("files", [])) if ctx and ctx.get("files") else None
    cons = consumer_types(prog)
    for f in funcs_of(prog, files):
        if len(f.params) != 3:
            continue
        T1 = f.T(f.params[1]["t"])
        T2 = f.T(f.params[2]["t"])
        if T1.get("k") != "int" or T2.get("k") != "ptr" or f.T(T2.get("to")).get("k") != "void":
            continue
        if f.T(f.ret).get("k") != "int":
            continue
        sel = f.params[1]["id"]
        dst = f.params[2]["id"]
        # blocks guarded by `type == K`
        guards = []
        for bid, b in f.blocks.items():
            if b.term and b.term.get("cond") is not None and len(b.succ) == 2:
                c = strip(b.term["cond"], all_casts=True)
                if c.get("k") == "bin" and c.get("op") == "==":
                    a, bb = strip(c["a"], all_casts=True), c["b"]
                    if a.get("k") == "ref" and a["d"].get("id") == sel and cval(bb) is not None:
                        guards.append((cval(bb), b.succ[0], b.succ[1]))
        for K, blk, swb in switch_cases(f):
            guards.append((K, blk, None))
        for K, tb, fb in guards:
            if K not in cons:
                continue
            # region of the guard: until return
            seen = set()
            st = [tb]
            while st:
                x = st.pop()
                if x is None or x in seen or x == fb:
                    continue
                seen.add(x)
                if any(e.get("k") == "ret" for e in f.blocks[x].el):
                    continue
                st.extend(s for s in f.blocks[x].succ if s is not None)
                if len(seen) > 8:
                    break
            for x in seen:
                for e in f.blocks[x].el:
                    for n in walk_own(e):
                        if n.get("k") == "bin" and n.get("op") == "=" and root_of(n["a"]) == dst:
                            v = strip(n["b"], all_casts=True)
                            VT = f.T(v.get("t"))
                            if VT.get("k") != "ptr":
                                continue
                            PT = f.T(VT.get("to"))
                            if PT.get("k") != "record":
                                continue
                            want = cons[K]
                            # C interface inheritance: a record whose first member (transitively) is the wanted record
                            names = [PT["name"]]
                            cur = PT["name"]
                            for _ in range(6):
                                r = prog.records.get(cur)
                                if not r or not r["fields"] or r["fields"][0]["off"] != 0:
                                    break
                                FT = r["unit"].types[r["fields"][0]["t"]]
                                if FT.get("k") != "record":
                                    break
                                cur = FT["name"]
                                names.append(cur)
                            ok = any(nm in want for nm in names)
                            if not ok:
                                # interface inheritance through the vtable struct: R._vptr -> V, V starts with W's vtable struct
                                def vchain(nm):
                                    r = prog.records.get(nm)
                                    out = []
                                    if not r or not r["fields"] or r["fields"][0]["off"] != 0:
                                        return out
                                    FT = r["unit"].types[r["fields"][0]["t"]]
                                    if FT.get("k") != "ptr":
                                        return out
                                    VT = r["unit"].types[FT["to"]]
                                    cur = VT.get("name") if VT.get("k") == "record" else None
                                    for _ in range(6):
                                        if cur is None:
                                            break
                                        out.append(cur)
                                        rr = prog.records.get(cur)
                                        if not rr or not rr["fields"]:
                                            break
                                        F0 = rr["unit"].types[rr["fields"][0]["t"]]
                                        cur = F0.get("name") if F0.get("k") == "record" else None
                                    return out
                                mine = vchain(PT["name"])
                                ok = any((vchain(w)[:1] and vchain(w)[0] in mine) for w in want)
                            res.ob("%s:type %s:%s" % (f.qn, hex(K), norm(show(n, f))), ok, f, n.get("l", 0),
                                   "" if ok else "request for type %s is answered with a pointer to %s; callers store the result in %s" % (
                                       hex(K), PT["name"], ", ".join("%s* (%d sites)" % (k, len(v2)) for k, v2 in want.items())))
    return res


def run_lencleared(prog, ctx=None):
    """LENCLEARED: in reply senders every path from an accepted transport call (result >= 0) to the return clears the armed id length"""
    res = Result("LENCLEARED")
    files = set(ctx.get("files", [])) if ctx else None
    n = 0
    for f in funcs_of(prog, files):
        # parameter of type reply_data* that is not const
        rds = [p for p in f.params if f.T(f.pointee(p["t"]) if f.pointee(p["t"]) is not None else -1).get("name", "").endswith("reply_data")
               and not f.T(f.pointee(p["t"])).get("const")]
        if not rds:
            continue
        rd = rds[0]["id"]
        # transport calls: indirect calls through a field named send / or calls taking rd and a message
        sends = []
        for b, i, e in f.elements():
            if e.get("k") == "call" and e.get("callee") is not None:
                cal = strip(e["callee"], all_casts=True)
                if cal.get("k") == "mem" and any(strip(a, all_casts=True).get("k") == "ref" and strip(a, all_casts=True)["d"].get("id") == rd for a in e.get("args", [])):
                    sends.append((b, i, e))
        if not sends:
            continue
        n += 1
        PK = Analysis.PK

        def hook(an, b, i, el, st, rd=rd, sends=sends):
            k = st.get(PK) or "idle"
            if any(el is s[2] for s in sends):
                k = "sent"
            for nd in walk_own(el):
                if nd.get("k") == "bin" and nd.get("op") == "=" and cval(nd["b"]) == 0:
                    l = strip(nd["a"], lvalue_to_rvalue=False)
                    if l.get("k") == "mem" and l.get("f") == "len" and root_of(l) == rd:
                        k = "cleared" if k == "sent" else k
            st[PK] = k

        an = Analysis(prog, f, hook=hook)
        st0 = an.entry_state()
        st0[PK] = "idle"
        an.run(state=st0)
        for el, vexpr, pos, parts in return_cases(an, f):
            for pk, st in parts:
                if pk != "sent":
                    continue
                rv = an.ev(vexpr, dict(st), True, f.blocks[pos[0]].el[pos[1]])
                if rv.hi < 0:
                    continue          # transport rejected the send: retry allowed
                res.ob("%s:return %s" % (f.qn, norm(show(vexpr, f))), False, f, el.get("l", 0),
                       "reply handed to the transport and accepted (%s) but the armed id length is not cleared: the request can be answered again" % rv)
        res.ob("%s:accepted-send-clears-len" % f.qn, True, f, f.line)
    if n < 1:
        raise Broken("no reply sender found")
    return res


def run_uninitctx(prog, ctx=None):
    """UNINITCTX: a local aggregate handed to a callee by address has a store on every path before the call"""
    res = Result("UNINITCTX")
    files = set(ctx.get("files", [])) if ctx else None
    for f in funcs_of(prog, files):
        locs = {}
        for b, i, n in f.walk_all():
            if n.get("k") == "decl":
                for v in n["vars"]:
                    if v.get("init") is None and not v.get("static") and f.T(v["t"]).get("k") == "record":
                        locs[v["id"]] = (v["n"], b.id, i)
        if not locs:
            continue
        dom = f.dominators()
        # store sites per variable
        stores = {vid: [] for vid in locs}
        for b, i, e in f.elements():
            for n in walk_own(e):
                tgt = None
                if n.get("k") == "bin" and n["op"].endswith("="):
                    tgt = n["a"]
                elif n.get("k") == "call" and callee_name(n) in ("memset", "memcpy", "memmove") and n.get("args"):
                    tgt = n["args"][0]
                elif n.get("k") == "call" and n.get("args"):
                    # handing &var to a callee that is not the use under test counts as initialisation by that callee
                    continue
                if tgt is not None:
                    r = root_of(tgt)
                    if r in stores:
                        stores[r].append((b.id, i))
        for b, i, e in f.elements():
            if e.get("k") != "call":
                continue
            args = e.get("args", [])
            for ai, a in enumerate(args):
                s = strip(a, all_casts=True)
                if s.get("k") == "un" and s.get("op") == "&":
                    x = strip(s["e"], lvalue_to_rvalue=False)
                    if x.get("k") == "ref" and x["d"].get("id") in locs:
                        vid = x["d"]["id"]
                        # is there a callback next to it? (user-context idiom) or any in-repo callee
                        has_fn = any(f.T(strip(o, all_casts=True).get("t")).get("k") in ("func",) or
                                     (strip(o, all_casts=True).get("k") == "ref" and strip(o, all_casts=True)["d"].get("dk") == "fn") for o in args)
                        if not has_fn:
                            continue
                        earlier_calls = False
                        ok = any((sb == b.id and si < i) or (sb != b.id and sb in dom[b.id]) for sb, si in stores[vid])
                        res.ob("%s:%s:&%s" % (f.qn, norm(show(e, f))[:80], locs[vid][0]), ok, f, e.get("l", 0),
                               "" if ok else "context object %s is passed to %s together with a callback but no field of it is set before the call" % (
                                   locs[vid][0], callee_name(e) or "the callee"))
    return res


def run_idfit(prog, ctx=None):
    """IDFIT: interval proof over mpt_message_id2buf() per header width w = 1..8 (trace partition on the remaining length unrolls
    the byte loop): every id the width table permits (0 .. 2^(8w-1)-1) is accepted, ids with the reply marker bit or more than
    w bytes are refused"""
    res = Result("IDFIT")
    f = prog.func("mpt_message_id2buf")
    if f is None:
        raise Broken("anchor missing: mpt_message_id2buf")
    idp, ptrp, lenp = f.params[0]["id"], f.params[1]["id"], f.params[2]["id"]
    PK = Analysis.PK

    def hook(an, b, i, el, st):
        # trace partition that unrolls the byte loop: the remaining length while it is a known constant, and (for loops that
        # count with an index of their own and leave the length alone) every integer local that holds a small constant
        v = st.get(("v", lenp))
        key = [v.lo if (v is not None and v.is_const()) else "?"]
        for k2 in sorted(k for k in st if isinstance(k, tuple) and k[0] == "v" and k[1] != lenp and k[1] != idp):
            x = st[k2]
            if x is not None and hasattr(x, "is_const") and x.is_const() and isinstance(x.lo, int) and 0 <= x.lo <= 16:
                key.append((k2[1], x.lo))
        st[PK] = tuple(key)

    def outcomes(w, lo, hi):
        an = Analysis(prog, f, hook=hook, edge_hook=lambda an, b, c, t, st: hook(an, b, 0, None, st))
        st0 = an.entry_state()
        st0[("v", idp)] = AV(lo, hi)
        st0[("v", lenp)] = AV(w, w)
        st0[("v", ptrp)] = AV(1, (1 << 64) - 1)
        st0[PK] = (w,)
        an.run(state=st0, max_parts=200)
        out = []
        for el, vexpr, pos, parts in return_cases(an, f):
            for pk, st in parts:
                out.append(an.ev(vexpr, dict(st), True, f.blocks[pos[0]].el[pos[1]]))
        return out

    for w in range(1, 9):
        top = (1 << (8 * w - 1)) - 1
        rs = outcomes(w, 0, top)
        ok = bool(rs) and all(r.lo > 0 or (r.lo == 0 and r.hi == 0) for r in rs) and any(r.lo > 0 for r in rs)
        res.ob("mpt_message_id2buf:width %d accepts 0..2^%d-1" % (w, 8 * w - 1), ok, f, f.line,
               "" if ok else "an id the width table permits can be refused: reachable returns %s" % [str(r) for r in rs], {"returns": [r.tojson() for r in rs]})
        rs = outcomes(w, top + 1, (1 << (8 * w)) - 1)
        ok = bool(rs) and all(r.hi < 0 for r in rs)
        res.ob("mpt_message_id2buf:width %d refuses marker-bit ids" % w, ok, f, f.line,
               "" if ok else "an id whose top bit collides with the reply marker can be written: reachable returns %s" % [str(r) for r in rs])
        if w < 8:
            rs = outcomes(w, 1 << (8 * w), (1 << 64) - 1)
            ok = bool(rs) and all(r.hi < 0 for r in rs)
            res.ob("mpt_message_id2buf:width %d refuses wider ids" % w, ok, f, f.line,
                   "" if ok else "an id that needs more than %d bytes is not refused: reachable returns %s" % (w, [str(r) for r in rs]))
    return res


def run_flexcopy(prog, ctx=None):
    """FLEXCOPY: an object allocated with a variable tail (`malloc(sizeof(*p) + n)`, n not constant) whose last member ends in an
    array is filled by a copy that includes the tail; a plain struct assignment into that member copies the declared array only"""
    res = Result("FLEXCOPY")
    files = set(ctx.get("files", [])) if ctx else None
    for f in funcs_of(prog, files):
        ext = {}      # local pointer id -> name, allocated with variable tail
        for b, i, n in f.walk_all():
            if n.get("k") == "bin" and n.get("op") == "=":
                l = strip(n["a"], lvalue_to_rvalue=False)
                r = strip(n["b"], all_casts=True)
                if l.get("k") == "ref" and "id" in l["d"] and r.get("k") == "call" and callee_name(r) in ("malloc", "realloc") and r.get("args"):
                    sz = strip(r["args"][-1], all_casts=True)
                    if sz.get("k") == "bin" and sz.get("op") == "+" and cval(sz) is None and any(m.get("k") == "sizeof" for m in walk(sz)):
                        ext[l["d"]["id"]] = l["d"]["n"]
        if not ext:
            continue
        for b, i, e in f.elements():
            for n in walk_own(e):
                tgt = None
                if n.get("k") == "bin" and n.get("op") == "=":
                    tgt = strip(n["a"], lvalue_to_rvalue=False)
                    how = "struct assignment"
                elif n.get("k") == "call" and callee_name(n) == "memcpy" and n.get("args"):
                    a0 = strip(n["args"][0], all_casts=True)
                    if a0.get("k") == "un" and a0.get("op") == "&":
                        tgt = strip(a0["e"], lvalue_to_rvalue=False)
                        how = "memcpy"
                if tgt is None or tgt.get("k") != "mem" or not tgt.get("arrow"):
                    continue
                bs = strip(tgt["b"], all_casts=True)
                if bs.get("k") != "ref" or bs["d"].get("id") not in ext:
                    continue
                T = f.T(tgt.get("t"))
                if T.get("k") != "record":
                    continue
                # last member of the allocated object, ending in an array?
                prec = prog.records.get(tgt.get("rec"))
                r2 = prog.records.get(T.get("name"))
                if not prec or not r2 or not prec["fields"] or prec["fields"][-1]["n"] != tgt["f"] or not r2["fields"]:
                    continue
                LT = r2["unit"].types[r2["fields"][-1]["t"]]
                if LT.get("k") != "array":
                    continue
                key = "%s:%s" % (f.qn, norm(show(n, f))[:70])
                if how == "memcpy":
                    ln = strip(n["args"][2], all_casts=True)
                    ok = cval(ln) is None      # length includes the variable tail
                    res.ob(key, ok, f, n.get("l", 0), "" if ok else "copy of the tail-extended member %s uses a constant size" % tgt["f"])
                else:
                    res.ob(key, False, f, n.get("l", 0),
                           "%s->%s lies at the end of an object allocated with a variable tail; assigning the struct copies only %s[%s], the bytes beyond it are lost" % (
                               ext[bs["d"]["id"]], tgt["f"], r2["fields"][-1]["n"], LT.get("n")))
    return res


FORMAT_FUNCS = {"mpt_log": 3, "mpt_printf": 1, "printf": 0, "fprintf": 1, "sprintf": 1, "snprintf": 2, "dprintf": 1, "syslog": 1}


def _parse_format(s):
    """conversion specifications of a printf format: list of classes 'int' | 'long' | 'size' | 'float' | 'str' | 'ptr' | 'star' """
    out = []
    i = 0
    n = len(s)
    while i < n:
        if s[i] != "%":
            i += 1
            continue
        i += 1
        if i < n and s[i] == "%":
            i += 1
            continue
        while i < n and s[i] in "-+ #0'":
            i += 1
        if i < n and s[i] == "*":
            out.append("star")
            i += 1
        while i < n and s[i].isdigit():
            i += 1
        if i < n and s[i] == ".":
            i += 1
            if i < n and s[i] == "*":
                out.append("star")
                i += 1
            while i < n and s[i].isdigit():
                i += 1
        length = ""
        while i < n and s[i] in "hlqjztL":
            length += s[i]
            i += 1
        if i >= n:
            out.append("bad")
            break
        c = s[i]
        i += 1
        if c in "diouxXc":
            out.append("long" if length in ("l", "ll", "q", "j", "z", "t") else "int")
        elif c in "fFeEgGaA":
            out.append("float")
        elif c == "s":
            out.append("str")
        elif c == "p":
            out.append("ptr")
        elif c == "n":
            out.append("ptr")
        else:
            out.append("bad")
    return out


def run_formatargs(prog, ctx=None):
    """FORMATARGS: calls of the logging / printing functions with a literal format pass one argument per conversion, of the
    class the conversion reads (string conversions get a pointer, integer conversions an integer of at least that width)"""
    res = Result("FORMATARGS")
    files = set(ctx.get("files", [])) if ctx else None
    for f in funcs_of(prog, files):
        for b, i, e in f.elements():
            if e.get("k") != "call":
                continue
            name = (callee_name(e) or "").split("::")[-1]
            if name not in FORMAT_FUNCS:
                continue
            fi = FORMAT_FUNCS[name]
            args = e.get("args", [])
            if len(args) <= fi:
                continue
            fm = strip(args[fi], all_casts=True)
            if fm.get("k") != "str":
                continue
            convs = _parse_format(fm.get("s", ""))
            rest = args[fi + 1:]
            why = ""
            if "bad" in convs:
                why = "format not understood"
            elif len(convs) > len(rest):
                why = "%d conversions, %d arguments" % (len(convs), len(rest))
            else:
                # surplus arguments are evaluated and ignored (defined); a conversion reading the wrong class is not
                for k, (c, a) in enumerate(zip(convs, rest)):
                    T = f.T(strip(a, lvalue_to_rvalue=True).get("t"))
                    kind = T.get("k")
                    if c in ("str", "ptr") and kind not in ("ptr", "array"):
                        why = "conversion %d reads a pointer, argument `%s` is %s" % (k + 1, norm(show(a, f))[:30], T.get("s"))
                    elif c in ("int", "star", "long") and kind not in ("int", "enum", "bool"):
                        why = "conversion %d reads an integer, argument `%s` is %s" % (k + 1, norm(show(a, f))[:30], T.get("s"))
                    elif c in ("int", "star") and (T.get("sz") or 4) > 4:
                        why = "conversion %d reads an int, argument `%s` is %s (8 bytes)" % (k + 1, norm(show(a, f))[:30], T.get("s"))
                    elif c == "long" and (T.get("sz") or 4) < 8:
                        why = "conversion %d reads a 64 bit integer, argument `%s` is %s" % (k + 1, norm(show(a, f))[:30], T.get("s"))
                    elif c == "float" and kind != "float":
                        why = "conversion %d reads a double, argument `%s` is %s" % (k + 1, norm(show(a, f))[:30], T.get("s"))
                    if why:
                        break
            res.ob("%s:%s(%s)" % (f.qn, name, json.dumps(fm.get("s", ""))[:40]), not why, f, e.get("l", f.line), why)
    return res


def run_idcap(prog, ctx=None):
    """IDCAP: mpt_message_buf2id() refuses a header only when its significant bytes do not fit the id type: at every error
    return the count of significant bytes (the variable the success path returns) is larger than sizeof(*iptr).  A test that
    already refuses a count equal to the size rejects ids the writer (mpt_message_id2buf, IDFIT) accepts."""
    res = Result("IDCAP")
    f = prog.func("mpt_message_buf2id")
    if f is None:
        raise Broken("anchor missing: mpt_message_buf2id")
    out = [p for p in f.params if f.T(p["t"]).get("k") == "ptr" and f.T(f.T(p["t"]).get("to")).get("k") == "int" and not f.T(f.T(p["t"]).get("to")).get("const")]
    if not out:
        raise Broken("mpt_message_buf2id: id destination parameter not found")
    cap = f.T(f.T(out[0]["t"]).get("to")).get("sz") or 8
    uid = None
    for b, i, e in f.elements():
        if e.get("k") == "ret" and e.get("e") is not None and cval(e["e"]) is None:
            r = strip(e["e"], all_casts=True)
            if r.get("k") == "ref" and r["d"].get("dk") == "local":
                uid = r["d"]["id"]
    if uid is None:
        raise Broken("mpt_message_buf2id: count of significant bytes (returned local) not found")
    an = Analysis(prog, f)
    an.run()
    n = 0
    for (bid, idx), parts in sorted(an.pre_parts.items()):
        el = f.blocks[bid].el[idx]
        if el.get("k") != "ret" or el.get("e") is None:
            continue
        cv = cval(el["e"])
        if cv is None or cv >= 0:
            continue
        lo = None
        for st in parts.values():
            u = st.get(("v", uid))
            lo = None if u is None else (u.lo if lo is None else min(lo, u.lo))
            if u is None:
                lo = None
                break
        n += 1
        ok = lo is not None and lo > cap
        res.ob("mpt_message_buf2id:refusal line %s" % n, ok, f, el.get("l", f.line),
               "" if ok else "the header is refused with a count of significant bytes that may be %s; an id of %d bytes fits the destination (only more than %d does not)" % (
                   "unknown" if lo is None else lo, cap, cap), {"count_lower_bound": lo, "capacity": cap})
    if not n:
        raise Broken("mpt_message_buf2id: no refusal found")
    return res


def _trailing_array(prog, f, tid, depth=0):
    """(path, byte size) of the array an object of record type tid ends in (through last members that are records)"""
    T = f.T(tid)
    if T.get("k") != "record" or depth > 4:
        return None
    r = prog.records.get(T.get("name"))
    if not r or not r.get("fields"):
        return None
    last = r["fields"][-1]
    LT = r["unit"].types[last["t"]]
    if LT.get("k") == "array":
        return (last["n"], LT.get("sz"))
    if LT.get("k") == "record":
        r2 = prog.records.get(LT.get("name"))
        if r2 and r2.get("fields"):
            l2 = r2["fields"][-1]
            L2 = r2["unit"].types[l2["t"]]
            if L2.get("k") == "array":
                return (last["n"] + "." + l2["n"], L2.get("sz"))
    return None


def run_flextail(prog, ctx=None):
    """FLEXTAIL: an object that ends in a small array A and is allocated as `malloc(sizeof(*p) + T)` provides sizeof(A) + T
    bytes behind the start of A.  Where T is computed from a capacity by subtracting a sizeof (`cap - sizeof(S)`), S is no
    larger than A: subtracting the size of anything bigger (the record that contains A) leaves the object short of the
    capacity that is stored in it, and the bytes behind the allocation are read or written as part of A."""
    res = Result("FLEXTAIL")
    files = set(ctx.get("files", [])) if ctx else None
    for f in funcs_of(prog, files):
        defs = {}
        for b, i, n in f.walk_all():
            if n.get("k") == "bin" and n.get("op") in ("=", "-="):
                l = strip(n["a"], lvalue_to_rvalue=False)
                if l.get("k") == "ref" and "id" in l["d"]:
                    defs.setdefault(l["d"]["id"], []).append(n)
            elif n.get("k") == "decl":
                for v in n["vars"]:
                    if v.get("init") is not None:
                        defs.setdefault(v["id"], []).append({"k": "bin", "op": "=", "a": None, "b": v["init"]})
        for b, i, n in f.walk_all():
            if not (n.get("k") == "bin" and n.get("op") == "=" or n.get("k") == "decl"):
                continue
            pairs = []
            if n.get("k") == "decl":
                pairs = [(v.get("t"), v["init"]) for v in n["vars"] if v.get("init") is not None]
            else:
                l = strip(n["a"], lvalue_to_rvalue=False)
                pairs = [(l.get("t"), n["b"])]
            for vt, rhs in pairs:
                r = strip(rhs, all_casts=True)
                if not (r.get("k") == "call" and callee_name(r) in ("malloc", "realloc") and r.get("args")):
                    continue
                VT = f.T(vt)
                if VT.get("k") != "ptr":
                    continue
                ta = _trailing_array(prog, f, VT.get("to"))
                sz = strip(r["args"][-1], all_casts=True)
                if ta is None or not (sz.get("k") == "bin" and sz.get("op") == "+" and cval(sz) is None):
                    continue
                # the variable part of the size
                tails = []
                for side in (sz["a"], sz["b"]):
                    s2 = strip(side, all_casts=True)
                    if s2.get("k") == "ref" and "id" in s2["d"]:
                        tails.append(s2["d"]["id"])
                subs = []
                for t in tails:
                    for d in defs.get(t, []):
                        # the tail is computed by a file-local helper: its returns
                        rhs = strip(d["b"], all_casts=True) if isinstance(d.get("b"), dict) else {}
                        if rhs.get("k") == "call":
                            for g in prog.resolve_call(f, rhs):
                                if g.nocfg or g.file != f.file:
                                    continue
                                for b3, i3, e3 in g.elements():
                                    if e3.get("k") == "ret" and e3.get("e") is not None:
                                        for m in walk(e3["e"]):
                                            if m.get("k") == "bin" and m.get("op") == "-":
                                                for q in walk(m["b"]):
                                                    if q.get("k") == "sizeof":
                                                        subs.append((q, d))
                                                    if q.get("k") == "ref" and "id" in q["d"]:
                                                        # a local of the helper that holds the sizeof
                                                        for b4, i4, n4 in g.walk_all():
                                                            if n4.get("k") == "decl":
                                                                for v4 in n4["vars"]:
                                                                    if v4["id"] == q["d"]["id"] and v4.get("init") is not None and cval(v4["init"]) is not None:
                                                                        subs.append(({"k": "sizeof", "v": cval(v4["init"]), "l": n4.get("l")}, d))
                        if d.get("op") == "-=":
                            for m in walk(d["b"]):
                                if m.get("k") == "sizeof":
                                    subs.append((m, d))
                        for m in walk(d["b"]):
                            if m.get("k") == "bin" and m.get("op") == "-":
                                for q in walk(m["b"]):
                                    if q.get("k") == "sizeof":
                                        subs.append((q, d))
                for m, d in subs:
                    v = cval(m)
                    ok = v is not None and ta[1] is not None and v <= ta[1]
                    res.ob("%s:tail of %s at line %s" % (f.qn, f.T(VT.get("to")).get("s"), m.get("l", d.get("l", f.line))), ok, f, m.get("l") or d.get("l") or f.line,
                           "" if ok else "the tail length is the capacity minus %s bytes, but the object ends in %s of %s bytes: the allocation is %s bytes short of the capacity it records" % (
                               v, ta[0], ta[1], (v or 0) - (ta[1] or 0)))
    return res
