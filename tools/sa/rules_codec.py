"""CODECPAIR (C01): the encoder and the decoder selected for one framing id are two halves of one codec.

Everything is read from the resolved program: the two dispatch switches, the
block limit the encoder compares its running code with, the zero-pair offset
expression, and the decoder's code->(data bytes, zero bytes) table obtained by
abstractly evaluating its two length formulas for every code value 1..255.
"""
import ast as pyast
import os
from .facts import strip, cval, walk, show, callee_name
from .ival import Analysis, AV
from .core import Result, Broken, norm
from .rules_table import switch_cases, first_case_elements


def dispatch(prog, name):
    f = prog.func(name)
    if f is None:
        raise Broken("anchor missing: " + name)
    out = {}
    for K, blk, swb in switch_cases(f):
        for e in first_case_elements(f, blk):
            if e.get("k") == "ret" and e.get("e") is not None:
                r = strip(e["e"], all_casts=True)
                if r.get("k") == "ref" and r["d"].get("dk") == "fn":
                    c = prog.by_qn.get(r["d"].get("qn") or r["d"]["n"], [])
                    out[K] = (c[0] if c else None, e.get("l", 0))
                elif cval(e["e"]) == 0:
                    out[K] = (None, e.get("l", 0))
    return f, out


def has_loop(f):
    dom = f.dominators()
    for bid, b in f.blocks.items():
        for s in b.succ:
            if s is not None and s in dom[bid]:
                return True
    return False


def repo_calls(prog, f):
    out = []
    for b, i, e in f.elements():
        if e.get("k") == "call" and e.get("fn", {}).get("inroot"):
            cs = prog.resolve_call(f, e)
            if cs:
                out.append(cs[0])
    return out


def unwrap(prog, f):
    """follow `return g(...)` wrappers"""
    seen = set()
    while f is not None and f.key() not in seen:
        seen.add(f.key())
        els = [e for b, i, e in f.elements()]
        rets = [e for e in els if e.get("k") == "ret"]
        if len(rets) == 1 and rets[0].get("e") is not None:
            c = strip(rets[0]["e"], all_casts=True)
            if c.get("k") == "call" and len(f.blocks) <= 3:
                cs = prog.resolve_call(f, c)
                if cs:
                    f = cs[0]
                    continue
        break
    return f


def classify(prog, f):
    """('regular', f) for a block coder with its own loop, ('inline', regular) for a tail-inline wrapper, ('other', f)"""
    f = unwrap(prog, f)

    def block_coder(g):
        if not has_loop(g):
            return False
        if encoder_params(g)[0] is not None:
            return True
        # decoder: keeps its running code in the low byte of the state word
        for b, i, n in g.walk_all():
            if n.get("k") == "bin" and n.get("op") == "&" and cval(n["b"]) == 0xff and any(m.get("k") == "mem" and m.get("f") == "_ctx" for m in walk(n["a"])):
                return True
        return False

    if block_coder(f):
        return "regular", f
    cands = []
    for c in repo_calls(prog, f):
        c = unwrap(prog, c)
        if block_coder(c) and c.key() != f.key():
            cands.append(c)
    return ("inline", cands[0]) if cands else ("other", f)


def encoder_params(f):
    """block limit E (`++code == E`) and, if present, zero pair elimination (lower bound A, upper bound L, offset K)"""
    E = None
    zpe = None
    for b, i, n in f.walk_all():
        if n.get("k") == "bin" and n.get("op") == "==":
            a = strip(n["a"], all_casts=True)
            if a.get("k") == "un" and a.get("op") == "++" and not a.get("post") and cval(n["b"]) is not None:
                E = cval(n["b"])
        if n.get("k") == "cond":
            K = A = L = None
            for m in walk(n["a"]):
                if m.get("k") == "bin" and m.get("op") == "+" and cval(m["b"]) is not None and cval(m) is None:
                    K = cval(m["b"])
            for m in walk(n["c"]):
                if m.get("k") == "bin" and m.get("op") in (">", "<") and cval(m["b"]) is not None and cval(m) is None:
                    if m["op"] == ">":
                        A = cval(m["b"])
                    else:
                        L = cval(m["b"])
            if K is not None and A is not None and L is not None:
                zpe = (A, L, K)
    return E, zpe


def decoder_table(prog, f):
    """code -> (data bytes, zero bytes before a non-zero next code) by abstract evaluation of the decoder's formulas"""
    an = Analysis(prog, f)
    # `code`: the local loaded from `<state>->_ctx & mask`
    code_id = None
    for b, i, n in f.walk_all():
        if n.get("k") == "bin" and n.get("op") == "=":
            l = strip(n["a"], lvalue_to_rvalue=False)
            r = strip(n["b"], all_casts=True)
            if l.get("k") == "ref" and r.get("k") == "bin" and r.get("op") == "&":
                if any(m.get("k") == "mem" and m.get("f") == "_ctx" for m in walk(r["a"])) and cval(r["b"]) == 0xff:
                    code_id = l["d"]["id"]
    if code_id is None:
        raise Broken("decoder %s: code variable (loaded from _ctx & 0xff) not found" % f.qn)

    def vars_in(e):
        return {n["d"]["id"] for n in walk(e) if n.get("k") == "ref" and "id" in n["d"]}

    data_e = zero_e = None
    curr_id = None
    for b, i, n in f.walk_all():
        if n.get("k") == "bin" and n.get("op") == "=" :
            l = strip(n["a"], lvalue_to_rvalue=False)
            if l.get("k") == "ref" and "id" in l["d"] and l["d"]["id"] != code_id and vars_in(n["b"]) == {code_id}:
                data_e, curr_id = n["b"], l["d"]["id"]
    for b, i, n in f.walk_all():
        if n.get("k") == "bin" and n.get("op") == "+=":
            l = strip(n["a"], lvalue_to_rvalue=False)
            if l.get("k") == "ref" and l["d"].get("id") == curr_id and code_id in vars_in(n["b"]):
                zero_e = n["b"]
    if data_e is None or zero_e is None:
        raise Broken("decoder %s: block length formulas not found" % f.qn)
    others = vars_in(zero_e) - {code_id}
    table = {}
    for c in range(1, 256):
        st = {("v", code_id): AV(c, c)}
        for o in others:
            st[("v", o)] = AV(1, 255)
        an._tracked |= {code_id} | others
        d = an.ev(data_e, dict(st), True)
        z = an.ev(zero_e, dict(st), True)
        table[c] = (d, z)
    return table


def run(prog, ctx=None):
    res = Result("CODECPAIR")
    ef, enc = dispatch(prog, "mpt_message_encoder")
    df, dec = dispatch(prog, "mpt_message_decoder")
    codes = sorted(set(enc) | set(dec))
    if len(codes) < 5:
        raise Broken("only %d framing ids found in the dispatch switches" % len(codes))
    # ids of the name table are known to both
    eg = prog.global_var("_encodings", "mptcore/convert/encoding.c")
    if eg is None:
        raise Broken("anchor missing: _encodings table")
    for row in eg[1]["init"].get("elts", []):
        if row.get("k") != "init":
            continue
        nm = strip(row["elts"][0], all_casts=True).get("s", "")
        tid = cval(row["elts"][1])
        if tid == 0:
            continue
        ok = tid in enc and tid in dec and enc[tid][0] is not None and dec[tid][0] is not None
        res.ob("name %s:id %s handled" % (nm, tid), ok, None, row.get("l", 0),
               "" if ok else "framing \"%s\" (id %s) has no encoder or no decoder" % (nm, tid), file="mptcore/convert/encoding.c")
    regular_pairs = {}
    kinds = {}
    for K in codes:
        e = enc.get(K, (None, 0))
        d = dec.get(K, (None, 0))
        ok = (e[0] is None) == (d[0] is None)
        res.ob("id %s:both-or-none" % K, ok, ef, e[1] or d[1], "" if ok else "framing id %s: encoder %s, decoder %s" % (K, e[0] and e[0].qn, d[0] and d[0].qn))
        if e[0] is None or d[0] is None:
            continue
        ke, re_ = classify(prog, e[0])
        kd, rd = classify(prog, d[0])
        kinds[K] = (ke, re_, kd, rd)
        ok = ke == kd
        res.ob("id %s:same-kind" % K, ok, df, d[1],
               "" if ok else "framing id %s: encoder %s is %s, decoder %s is %s" % (K, e[0].qn, ke, d[0].qn, kd))
        if ke == "regular" and kd == "regular":
            regular_pairs[(re_.key(), rd.key())] = (K, re_, rd)
    for K, (ke, re_, kd, rd) in kinds.items():
        if ke == "inline" and kd == "inline":
            ok = (re_.key(), rd.key()) in regular_pairs
            res.ob("id %s:inline-of-a-pair" % K, ok, df, dec[K][1],
                   "" if ok else "tail-inline framing %s wraps encoder %s and decoder %s, which are not registered as one regular framing" % (K, re_.qn, rd.qn))
    if not regular_pairs:
        raise Broken("no regular block codec pair found")
    # block limit / zero pair parameters against the decoder's evaluated table
    for (K, ef_, df_) in regular_pairs.values():
        E, zpe = encoder_params(ef_)
        if E is None:
            raise Broken("encoder %s: block limit comparison (++code == E) not found" % ef_.qn)
        table = decoder_table(prog, df_)
        tag = "id %s:%s/%s" % (K, ef_.qn, df_.qn)
        bad = []
        for c in range(1, E):
            d, z = table[c]
            if not (d.is_const() and d.lo == c - 1 and z.is_const() and z.lo == 1):
                bad.append((c, d, z, (c - 1, 1)))
        d, z = table[E] if E <= 255 else (None, None)
        if E > 255 or not (d.is_const() and d.lo == E - 1 and z.is_const() and z.lo == 0):
            bad.append((E, d, z, (E - 1, 0)))
        ok = not bad
        res.ob(tag + ":block-codes", ok, df_, df_.line,
               "" if ok else "encoder block limit %d: decoder reads code %d as (data %s, zeros %s), encoder means %s" % (E, bad[0][0], bad[0][1], bad[0][2], bad[0][3]),
               {"block_limit": E, "codes_checked": E})
        if zpe:
            A, L, Koff = zpe
            bad = []
            for c in range(A + 1, L):
                cc = c + Koff
                if cc > 255:
                    bad.append((cc, None, None, "code does not fit a byte"))
                    continue
                d, z = table[cc]
                if not (d.is_const() and d.lo == c - 1 and z.is_const() and z.lo == 2):
                    bad.append((cc, d, z, (c - 1, 2)))
            ok = not bad and A + 1 + Koff > E
            res.ob(tag + ":zero-pair-codes", ok, df_, df_.line,
                   "" if ok else ("zero pair code %s: decoder reads (data %s, zeros %s), encoder means %s" % bad[0] if bad else "zero pair codes overlap block codes"),
                   {"offset": Koff, "range": [A + 1, L - 1]})
            # the format itself (COBS/ZPE: every code above the block limit is <code - (E+1)> data bytes and a zero pair):
            # frames of another sender use the codes this encoder never emits
            bad = []
            for cc in range(E + 1, 256):
                d, z = table[cc]
                if not (d.is_const() and d.lo == cc - (E + 1) and z.is_const() and z.lo == 2):
                    bad.append((cc, d, z, (cc - (E + 1), 2)))
            ok = not bad
            res.ob(tag + ":pair-codes-format", ok, df_, df_.line,
                   "" if ok else "pair code %s: decoder reads (data %s, zeros %s), the format says %s" % bad[0], {"codes_checked": 255 - E})
        else:
            # a decoder with pair codes needs an encoder that can emit them and vice versa: codes above E decode as plain blocks or not at all
            pairs = [c for c in range(E + 1, 256) if table[c][1].is_const() and table[c][1].lo >= 2]
            ok = not pairs
            res.ob(tag + ":no-pair-codes", ok, df_, df_.line, "" if ok else "decoder expands codes %s.. to zero pairs, the encoder never emits them" % pairs[0])
        res.count("regular_pairs")

    # tail-inline wrappers: the byte they move into the code position is a block code of the wrapped codec (the decoder
    # would read anything above the block limit as a pair code)
    from .rules_path import null_partitioned
    for K, (ke, re_, kd, rd) in sorted(kinds.items()):
        if ke != "inline":
            continue
        w = unwrap(prog, enc[K][0])
        E, zpe = encoder_params(re_)
        if E is None:
            continue
        # locals that hold a byte read back from the frame (the last data byte that may take the code's place)
        frame_bytes = set()
        for b_, i, n in w.walk_all():
            if n.get("k") == "bin" and n.get("op") == "=":
                l = strip(n["a"], lvalue_to_rvalue=False)
                r = strip(n["b"], all_casts=True)
                if l.get("k") == "ref" and "id" in l["d"] and (r.get("k") == "idx" or (r.get("k") == "un" and r.get("op") == "*")):
                    frame_bytes.add(l["d"]["id"])
        sites = []
        for b_, i, e in w.elements():
            for n in walk(e):
                if n.get("k") == "bin" and n.get("op") == "=":
                    l = strip(n["a"], lvalue_to_rvalue=False)
                    r = strip(n["b"], all_casts=True)
                    if l.get("k") in ("un", "idx") and (l.get("k") != "un" or l.get("op") == "*") and w.T(l.get("t")).get("sz") == 1 \
                            and r.get("k") == "ref" and r["d"].get("id") in frame_bytes:
                        sites.append((b_, i, n))
        if not sites:
            continue
        an = null_partitioned(prog, w)
        for b_, i, n in sites:
            v = None
            el = w.blocks[b_.id].el[i]
            for st in an.pre_parts.get((b_.id, i), {}).values():
                x = an.ev(n["b"], dict(st), True, el)
                v = x if v is None else AV(min(v.lo, x.lo), max(v.hi, x.hi), v.nan or x.nan)
            if v is None:
                continue
            ok = v.hi <= E and v.lo >= 1
            res.ob("id %s:%s:inline-code %s" % (K, w.qn, norm(show(n, w))[:40]), ok, w, n.get("l", w.line),
                   "" if ok else "tail-inline wrapper %s stores a byte in [%s, %s] as block code; the wrapped codec's block codes are 1..%d (higher values are read as pair codes or do not exist)" % (w.qn, v.lo, v.hi, E),
                   {"value": [v.lo, v.hi], "block_limit": E})
            res.count("inline_code_stores")

    # python client
    repo = (ctx or {}).get("repo", "/repo")
    py = os.path.join(repo, "mpt.py")
    if not os.path.exists(py):
        raise Broken("anchor missing: mpt.py")
    tree = pyast.parse(open(py).read())
    fn = [n for n in pyast.walk(tree) if isinstance(n, pyast.FunctionDef) and n.name == "encode_cobs"]
    if not fn:
        raise Broken("anchor missing: mpt.py encode_cobs")
    fn = fn[0]
    limits = []
    for n in pyast.walk(fn):
        if isinstance(n, pyast.Compare) and isinstance(n.left, pyast.Name) and len(n.ops) == 1 and isinstance(n.ops[0], (pyast.GtE, pyast.Gt)) \
                and isinstance(n.comparators[0], pyast.Constant) and isinstance(n.comparators[0].value, int):
            limits.append((n.left.id, n.comparators[0].value + (1 if isinstance(n.ops[0], pyast.GtE) else 2), n.lineno))
    plain = [v for v in regular_pairs.values() if encoder_params(v[1])[1] is None]
    if not limits or not plain:
        raise Broken("python encoder block limit or plain C codec not found")
    Ec = encoder_params(plain[0][1])[0]
    for var, Epy, line in limits:
        ok = Epy == Ec
        res.ob("mpt.py:encode_cobs:block-limit", ok, None, line,
               "" if ok else "python client closes a block with code %d, C codec with %d" % (Epy, Ec), file="mpt.py")
    # every branch that restarts the running code opens a new block (appends its placeholder) like its sibling branch
    var = limits[0][0]

    def resets(body):
        out = []
        for st in body:
            if isinstance(st, pyast.If):
                for br in (st.body, st.orelse):
                    if br:
                        idx = [i for i, s in enumerate(br) if isinstance(s, pyast.Assign) and any(isinstance(t, pyast.Name) and t.id == var for t in s.targets)
                               and isinstance(s.value, pyast.Constant) and s.value.value == 1]
                        if idx:
                            rest = br[idx[0] + 1:]
                            opened = any(isinstance(s, pyast.Expr) and isinstance(s.value, pyast.Call) and isinstance(s.value.func, pyast.Attribute)
                                         and s.value.func.attr == "append" and any(isinstance(a, pyast.Name) and a.id == var for a in s.value.args) for s in rest)
                            out.append((br[idx[0]].lineno, opened))
                        out.extend(resets(br))
            elif isinstance(st, (pyast.For, pyast.While)):
                out.extend(resets(st.body))
        return out

    rs = resets(fn.body)
    if len(rs) < 2:
        raise Broken("python encoder: block restart sites not found")
    for line, opened in rs:
        res.ob("mpt.py:encode_cobs:restart@%s" % ("zero" if opened else "limit") if False else "mpt.py:encode_cobs:restart-opens-block:%d" % rs.index((line, opened)), opened, None, line,
               "" if opened else "block closed at the length limit without appending the next block's code byte (sibling branch does)", file="mpt.py")
    return res
