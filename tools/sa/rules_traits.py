"""C05 managed elements: TRAITS, FINILOOP, DEADFINI, DETACHCOPY."""
from .facts import strip, cval, walk, walk_own, show, callee_name
from .ival import Analysis, AV
from .core import Result, Broken, norm
from .rules_path import funcs_of, natural_loops
from .rules_effect import root_of


def run_traits(prog, ctx=None):
    """TRAITS: every static type_traits initialiser has init and fini both set or both absent, and its size is the size of the
    type the init/fini bodies treat their element pointer as"""
    res = Result("TRAITS")
    n = 0
    for u, g in prog.globals:
        T = u.types[g["t"]]
        if T.get("k") != "record" or T.get("name", "").split("::")[-1] not in ("mpt_type_traits", "type_traits"):
            continue
        init = g.get("init")
        if not init:
            continue
        fields = {}
        if init.get("k") == "init":
            r = prog.records.get(T["name"])
            for idx, e in enumerate(init.get("elts", [])):
                if r and idx < len(r["fields"]):
                    fields[r["fields"][idx]["n"]] = e
        elif init.get("k") == "construct":
            # C++: type_traits(size, fini, init)
            a = init.get("args", [])
            names = ("size", "fini", "init")
            for idx, e in enumerate(a[:3]):
                fields[names[idx]] = e
        if "size" not in fields:
            continue
        n += 1
        key = "%s:%s" % (g["file"], g.get("in") or g["n"])

        def fn_of(e):
            if e is None:
                return None
            s = strip(e, all_casts=True)
            if s.get("k") == "ref" and s["d"].get("dk") == "fn":
                c = prog.by_qn.get(s["d"].get("qn") or s["d"]["n"], [])
                c = [x for x in c if x.file == g["file"]] or c
                return c[0] if c else "extern"
            return None

        fi, ff = fn_of(fields.get("init")), fn_of(fields.get("fini"))
        ok = (fi is None) == (ff is None)
        if not ok and init.get("k") == "construct" and fi is None:
            # C++ unique arrays: buffers that are never copied (BufferNoCopy) may have a destructor only
            res.notes.append("%s: destructor-only traits of a non-copyable C++ container" % key)
            ok = True
        res.ob(key + ":init-fini-paired", ok, None, g["line"],
               "" if ok else "traits with %s: elements are %s" % ("init but no fini" if fi else "fini but no init", "constructed but never destroyed" if fi else "destroyed but copied as raw bytes"),
               file=g["file"])
        size = cval(fields["size"])
        for role, fn in (("init", fi), ("fini", ff)):
            if fn is None or fn == "extern" or fn.nocfg or not fn.params:
                continue
            pid = fn.params[0]["id"]
            et = None
            for b, i, nd in fn.walk_all():
                if nd.get("k") == "decl":
                    for v in nd["vars"]:
                        if v.get("init") is not None:
                            s = strip(v["init"], all_casts=True)
                            if s.get("k") == "ref" and s["d"].get("id") == pid and fn.T(v["t"]).get("k") == "ptr":
                                et = fn.T(fn.pointee(v["t"]))
                elif nd.get("k") == "cast" and nd.get("explicit") and fn.T(nd.get("t")).get("k") == "ptr":
                    s = strip(nd["e"], all_casts=True)
                    if s.get("k") == "ref" and s["d"].get("id") == pid and et is None:
                        et = fn.T(fn.pointee(nd["t"]))
            if et is None or et.get("sz") is None or et.get("k") == "void":
                continue
            ok = size == et["sz"]
            res.ob(key + ":%s-size" % role, ok, fn, fn.line,
                   "" if ok else "traits.size is %s but %s() treats an element as %s (%d bytes)" % (size, fn.qn, et.get("s"), et["sz"]))
    if n < 4:
        raise Broken("TRAITS: only %d static type_traits found" % n)
    return res


def trait_calls(f):
    """indirect calls through a type_traits init/fini slot (directly or via a local loaded from it): [(block, idx, call, role)]"""
    roles = {}
    for b, i, n in f.walk_all():
        pairs = []
        if n.get("k") == "bin" and n.get("op") == "=":
            l = strip(n["a"], lvalue_to_rvalue=False)
            if l.get("k") == "ref" and "id" in l["d"]:
                pairs.append((l["d"]["id"], n["b"]))
        elif n.get("k") == "decl":
            for v in n["vars"]:
                if v.get("init") is not None:
                    pairs.append((v["id"], v["init"]))
        for vid, rhs in pairs:
            r = strip(rhs, all_casts=True)
            if r.get("k") == "mem" and r.get("f") in ("init", "fini") and r.get("rec", "").split("::")[-1] in ("mpt_type_traits", "type_traits"):
                roles[vid] = r["f"]
    out = []
    for b, i, e in f.elements():
        if e.get("k") == "call" and e.get("callee") is not None:
            c = strip(e["callee"], all_casts=True)
            role = None
            if c.get("k") == "ref" and c["d"].get("id") in roles:
                role = roles[c["d"]["id"]]
            elif c.get("k") == "mem" and c.get("f") in ("init", "fini") and c.get("rec", "").split("::")[-1] in ("mpt_type_traits", "type_traits"):
                role = c["f"]
            if role:
                out.append((b, i, e, role))
    return out


def var_defs(f):
    d = {}
    for b, i, n in f.walk_all():
        if n.get("k") == "bin" and n.get("op") == "=":
            l = strip(n["a"], lvalue_to_rvalue=False)
            if l.get("k") == "ref" and "id" in l["d"]:
                d.setdefault(l["d"]["id"], []).append(n["b"])
        elif n.get("k") == "decl":
            for v in n["vars"]:
                if v.get("init") is not None:
                    d.setdefault(v["id"], []).append(v["init"])
    return d


def offset_vars(f, e, defs, depth=0):
    """variables added to a payload base pointer inside expression e (following one level of local definitions)"""
    out = set()
    s = strip(e, all_casts=True)
    if s.get("k") == "bin" and s.get("op") == "+":
        for side in (s["a"], s["b"]):
            x = strip(side, all_casts=True)
            if x.get("k") == "ref" and "id" in x["d"]:
                T = f.T(x.get("t"))
                if T.get("k") == "int":
                    out.add(x["d"]["id"])
                elif T.get("k") == "ptr" and depth < 2:
                    for dd in defs.get(x["d"]["id"], []):
                        out |= offset_vars(f, dd, defs, depth + 1)
            else:
                out |= offset_vars(f, side, defs, depth)
    return out


def run_finiloop(prog, ctx=None):
    """FINILOOP: the element pointer handed to traits->init/fini in a loop is `payload + index` with the range offset applied once:
    not both in the base pointer and in the index start (double offset leaves the element range)"""
    res = Result("FINILOOP")
    files = set(ctx.get("files", [])) if ctx else None
    for f in funcs_of(prog, files):
        tc = trait_calls(f)
        if not tc:
            continue
        loops = natural_loops(f)
        defs = var_defs(f)
        for b, i, e, role in tc:
            inloop = [h for h, body in loops.items() if b.id in body]
            if not inloop or not e.get("args"):
                continue
            arg = e["args"][0]
            offs = offset_vars(f, arg, defs)
            # loop index: integer variable in the argument that the loop modifies
            idx = None
            body = loops[inloop[0]]
            modified = set()
            for x in body:
                for el in f.blocks[x].el:
                    for n in walk_own(el):
                        t = None
                        if n.get("k") == "un" and n.get("op") in ("++", "--"):
                            t = strip(n["e"], lvalue_to_rvalue=False)
                        elif n.get("k") == "bin" and n.get("op") in ("+=", "-="):
                            t = strip(n["a"], lvalue_to_rvalue=False)
                        if t is not None and t.get("k") == "ref" and "id" in t["d"]:
                            modified.add(t["d"]["id"])
            idxs = [v for v in offs if v in modified]
            key = "%s:%s(%s)" % (f.qn, role, norm(show(arg, f))[:50])
            if not idxs:
                res.notes.append("%s: loop index not identified" % key)
                continue
            idx = idxs[0]
            base_offs = offs - {idx}
            # index start values outside the loop
            starts = set()
            for d in defs.get(idx, []):
                for n in walk(d):
                    if n.get("k") == "ref" and "id" in n["d"] and f.T(n.get("t")).get("k") == "int":
                        starts.add(n["d"]["id"])
            dbl = base_offs & starts
            ok = not dbl
            nm = {}
            for bb, ii, n in f.walk_all():
                if n.get("k") == "ref" and "id" in n["d"]:
                    nm[n["d"]["id"]] = n["d"]["n"]
            res.ob(key, ok, f, e.get("l", 0),
                   "" if ok else "element address adds %s twice: once in the base pointer and again as the start of the index: %s() runs on memory behind the element range" % (
                       ", ".join(nm.get(v, "?") for v in dbl), role))
    return res


def run_deadfini(prog, ctx=None):
    """DEADFINI: where the bound of a finaliser loop is known to be zero (the function tested it) the used length of the
    buffer is not changed afterwards: otherwise elements are dropped without being finalised"""
    res = Result("DEADFINI")
    files = set(ctx.get("files", [])) if ctx else None
    for f in funcs_of(prog, files):
        tc = [x for x in trait_calls(f) if x[3] == "fini"]
        if not tc:
            continue
        loops = natural_loops(f)
        used_stores = []
        for b, i, e in f.elements():
            for n in walk_own(e):
                if n.get("k") == "bin" and n["op"].endswith("=") and n["op"] not in ("==", "!=", "<=", ">="):
                    l = strip(n["a"], lvalue_to_rvalue=False)
                    if l.get("k") == "mem" and l.get("f") == "_used":
                        used_stores.append((b, i, n))
        if not used_stores:
            continue
        for b, i, e, role in tc:
            hs = [h for h, body in loops.items() if b.id in body]
            if not hs:
                continue
            h = hs[0]
            hb = f.blocks[h]
            bound = None
            for x in loops[h]:
                blk = f.blocks[x]
                if blk.term and blk.term.get("cond") is not None and any(s is not None and s not in loops[h] for s in blk.succ):
                    c = strip(blk.term["cond"], all_casts=True)
                    if c.get("k") == "bin" and c.get("op") in ("<", "!="):
                        r = strip(c["b"], all_casts=True)
                        if r.get("k") == "ref" and "id" in r["d"]:
                            bound = r["d"]
            if bound is None:
                continue
            vid = bound["id"]
            # only where the function gives bound == 0 a meaning of its own: an explicit `if (!bound)` / `bound == 0` test
            explicit = False
            for bid2, blk2 in f.blocks.items():
                if blk2.term and blk2.term.get("cond") is not None and blk2.term.get("cls") == "IfStmt":
                    c2 = strip(blk2.term["cond"], all_casts=True)
                    while c2.get("k") == "bin" and c2.get("op") in ("&&", "||"):
                        c2 = strip(c2["b"], all_casts=True)
                    if c2.get("k") == "un" and c2.get("op") == "!":
                        c2 = strip(c2["e"], all_casts=True)
                    elif c2.get("k") == "bin" and c2.get("op") in ("==", "!=") and cval(c2["b"]) == 0:
                        c2 = strip(c2["a"], all_casts=True)
                    if c2.get("k") == "ref" and c2["d"].get("id") == vid:
                        explicit = True
            if not explicit:
                res.ob("%s:%s:no-special-zero" % (f.qn, bound["n"]), True, f, e.get("l", 0))
                continue
            PK = Analysis.PK

            def hook(an, blk, idx, el, st):
                # the special meaning ends when the bound is given a new value
                for n in walk_own(el):
                    if n.get("k") == "bin" and n["op"].endswith("=") and n["op"] not in ("==", "!=", "<=", ">="):
                        l = strip(n["a"], lvalue_to_rvalue=False)
                        if l.get("k") == "ref" and l["d"].get("id") == vid:
                            st[PK] = "?"

            def edge_hook(an, blk, cond, truth, st):
                # entered only on the zero edge of an explicit test of the bound itself
                c = strip(cond, all_casts=True)
                neg = False
                while c.get("k") == "un" and c.get("op") == "!":
                    neg = not neg
                    c = strip(c["e"], all_casts=True)
                if c.get("k") == "bin" and c.get("op") in ("==", "!=") and cval(c["b"]) == 0:
                    if c["op"] == "==":
                        neg = not neg
                    c = strip(c["a"], all_casts=True)
                if c.get("k") == "ref" and c["d"].get("id") == vid and blk.term.get("cls") == "IfStmt":
                    if (truth and neg) or (not truth and not neg):
                        st[PK] = "Z"

            an = Analysis(prog, f, hook=hook, edge_hook=edge_hook)
            st0 = an.entry_state()
            st0[PK] = "?"
            an.run(state=st0)
            # is there a zero test of the bound at all?
            zero_parts = [(k2, st) for k2, d in an.pre_parts.items() for pk, st in d.items() if pk == "Z"]
            loop_root = root_of(e["args"][0]) if e.get("args") else None
            defs = var_defs(f)
            if loop_root is not None and loop_root in defs:
                for d in defs[loop_root]:
                    r2 = root_of(d)
                    if r2 is not None:
                        loop_root = r2
            for sb, si, sn in used_stores:
                sroot = root_of(sn["a"])
                if loop_root is not None and sroot is not None and sroot != loop_root:
                    continue      # used length of another buffer (the freshly allocated copy)
                parts = an.pre_parts.get((sb.id, si), {})
                if "Z" not in parts:
                    res.ob("%s:%s:%s" % (f.qn, bound["n"], norm(show(sn, f))[:50]), True, f, sn.get("l", 0))
                    continue
                # accepted: the store does not come after the loop (it is before it), or restores a saved value
                after = sb.id in f.reachable_from(h) and sb.id not in loops[h]
                if not after:
                    res.ob("%s:%s:%s" % (f.qn, bound["n"], norm(show(sn, f))[:50]), True, f, sn.get("l", 0))
                    continue
                res.ob("%s:%s:%s" % (f.qn, bound["n"], norm(show(sn, f))[:50]), False, f, sn.get("l", 0),
                       "with %s == 0 the finaliser loop runs zero times, yet %s still executes: elements beyond the new length are dropped unfinalised" % (
                           bound["n"], norm(show(sn, f))))
    return res


def run_detachcopy(prog, ctx=None):
    """DETACHCOPY: in detach implementations the path that leaves the source alive (counter still non-zero) populates the new
    buffer through mpt_buffer_set()/traits->init, never by memcpy; the relocating path may copy raw bytes"""
    res = Result("DETACHCOPY")
    from .rules_ref import vtables
    n = 0
    seen = set()
    for g, u, rname, slot, fn, qn in vtables(prog):
        if not slot.endswith("detach") or fn is None or fn.key() in seen or fn.nocfg:
            continue
        seen.add(fn.key())
        lowers = [(b, i, e) for b, i, e in fn.elements() if e.get("k") == "call" and callee_name(e) == "mpt_refcount_lower"]
        copies = [(b, i, e) for b, i, e in fn.elements() if e.get("k") == "call" and callee_name(e) in ("memcpy", "memmove")]
        if not lowers:
            continue
        n += 1
        le = lowers[0][2]
        tb = None
        for bid, b in fn.blocks.items():
            if b.term and b.term.get("cond") is not None and len(b.succ) == 2 and any(m.get("sid") == le.get("sid") for m in walk(b.term["cond"])):
                tb = b
        key = "%s (%s.%s)" % (fn.qn, g["n"], slot)
        if tb is None:
            res.ob(key + ":tested", False, fn, le.get("l", 0), "result of mpt_refcount_lower() not tested in detach")
            continue
        c = strip(tb.term["cond"], all_casts=True)
        neg = False
        while c.get("k") == "un" and c.get("op") == "!":
            neg = not neg
            c = strip(c["e"], all_casts=True)
        alive = tb.succ[1] if neg else tb.succ[0]
        gone = tb.succ[0] if neg else tb.succ[1]
        alive_only = fn.reachable_from(alive, avoid={gone}) - fn.reachable_from(gone, avoid={alive}) if alive is not None and gone is not None else set()
        bad = [e for b, i, e in copies if b.id in alive_only]
        ok = not bad
        res.ob(key + ":shared-source-copied-by-elements", ok, fn, le.get("l", 0),
               "" if ok else "%s duplicates raw bytes of a buffer that other handles keep: managed elements are shared without copy construction" % norm(show(bad[0], fn))[:50])
        sets = [e for b, i, e in fn.elements() if e.get("k") == "call" and callee_name(e) == "mpt_buffer_set" and b.id in alive_only]
        ok = bool(sets)
        res.ob(key + ":uses-element-copy", ok, fn, le.get("l", 0), "" if ok else "the shared path does not populate the copy through mpt_buffer_set()")
    if n < 1:
        raise Broken("DETACHCOPY: no counted detach implementation found")
    return res


def run_retype(prog, ctx=None):
    """RETYPE: when the element type of an existing buffer is replaced (store to B->_content_traits), the old content is gone
    (B->_used = 0 on that path), or the type is unchanged (old == new tested), or the two types share their finaliser
    (the repo's compatibility test `fini == traits->fini`); fresh buffers are exempt"""
    res = Result("RETYPE")
    files = set(ctx.get("files", [])) if ctx else None
    for f in funcs_of(prog, files):
        stores = []
        for b, i, e in f.elements():
            for n in walk_own(e):
                if n.get("k") == "bin" and n.get("op") == "=":
                    l = strip(n["a"], lvalue_to_rvalue=False)
                    if l.get("k") == "mem" and l.get("f") == "_content_traits" and l.get("rec", "").split("::")[-1] in ("mpt_buffer", "buffer"):
                        stores.append((b, i, n, l))
        if not stores:
            continue
        # variables loaded from B->_content_traits (the old type)
        oldvars = set()
        for b, i, n in f.walk_all():
            pairs = []
            if n.get("k") == "bin" and n.get("op") == "=":
                l = strip(n["a"], lvalue_to_rvalue=False)
                if l.get("k") == "ref" and "id" in l["d"]:
                    pairs.append((l["d"]["id"], n["b"]))
            elif n.get("k") == "decl":
                for v in n["vars"]:
                    if v.get("init") is not None:
                        pairs.append((v["id"], v["init"]))
            for vid, rhs in pairs:
                r = strip(rhs, all_casts=True)
                if r.get("k") == "mem" and r.get("f") == "_content_traits":
                    oldvars.add(vid)
        if not oldvars:
            continue      # only functions that look at the buffer's current element type re-type an existing buffer
        PK = Analysis.PK
        verdict = {}

        def zeroes_used(g, _memo={}):
            """file-local helper that ends with `B->_used = 0` for its buffer parameter on every path to its return"""
            if g.key() in _memo:
                return _memo[g.key()]
            _memo[g.key()] = False
            zb = set()
            for b2, i2, n2 in g.walk_all():
                if n2.get("k") == "bin" and n2.get("op") == "=" and cval(n2["b"]) == 0:
                    l2 = strip(n2["a"], lvalue_to_rvalue=False)
                    if l2.get("k") == "mem" and l2.get("f") == "_used" and root_of(l2) in {p["id"] for p in g.params}:
                        zb.add(b2.id)
            if zb:
                ent = [bid for bid, bb in g.blocks.items() if not bb.preds]
                start = max(ent) if ent else max(g.blocks)
                reach = {start} | set(g.reachable_from(start, avoid=zb))
                rets = [b2.id for b2, i2, e2 in g.elements() if e2.get("k") == "ret"] or [bid for bid, bb in g.blocks.items() if not any(s is not None for s in bb.succ)]
                _memo[g.key()] = not any(r in reach and r not in zb for r in rets)
            return _memo[g.key()]

        def hook(an, b, i, el, st):
            facts = set(st.get(PK) or ())
            if el.get("k") == "call" and el.get("fn"):
                for g in prog.resolve_call(f, el):
                    if g.static and g.file == f.file and not g.nocfg and zeroes_used(g):
                        facts.add("zeroed")
            for n in walk_own(el):
                if n.get("k") == "bin" and n.get("op") == "=":
                    l = strip(n["a"], lvalue_to_rvalue=False)
                    if l.get("k") == "mem" and l.get("f") == "_used" and cval(n["b"]) == 0:
                        facts.add("zeroed")
                    if l.get("k") == "ref" and "id" in l["d"]:
                        r = strip(n["b"], all_casts=True)
                        if r.get("k") == "bin" and r.get("op") == "=":
                            r = strip(r["b"], all_casts=True)
                        if r.get("k") == "call" and callee_name(r) in ("_mpt_buffer_alloc", "mpt::buffer::create", "create"):
                            facts.add(("fresh", l["d"]["id"]))
                    if l.get("k") == "mem" and l.get("f") == "_content_traits":
                        base = root_of(l)
                        ok = "zeroed" in facts or "same" in facts or "compat" in facts or ("fresh", base) in facts
                        # no old type at all: the handle had no buffer / buffer never typed is the fresh case
                        key = "%s:%s" % (f.qn, norm(show(n, f))[:60])
                        if key not in verdict or not ok:
                            verdict[key] = (ok, n.get("l", 0))
                elif n.get("k") == "decl":
                    for v in n["vars"]:
                        if v.get("init") is not None:
                            r = strip(v["init"], all_casts=True)
                            if r.get("k") == "call" and callee_name(r) in ("_mpt_buffer_alloc", "create"):
                                facts.add(("fresh", v["id"]))
            st[PK] = frozenset(facts)

        def edge_hook(an, b, cond, truth, st):
            c = strip(cond, all_casts=True)
            facts = set(st.get(PK) or ())
            # the test in any spelling: under negations, and as the last operand of the && / || chain this block decides
            for _ in range(8):
                if c.get("k") == "un" and c.get("op") == "!":
                    truth = not truth
                    c = strip(c["e"], all_casts=True)
                elif c.get("k") == "bin" and c.get("op") in ("&&", "||"):
                    c = strip(c["b"], all_casts=True)
                else:
                    break
            if c.get("k") == "bin" and c.get("op") in ("!=", "=="):
                a, bb = strip(c["a"], all_casts=True), strip(c["b"], all_casts=True)
                equal = (c["op"] == "==") == truth
                ids = {x["d"].get("id") for x in (a, bb) if x.get("k") == "ref"}
                if equal and ids & oldvars:
                    facts.add("same")
                # fini == traits->fini
                if equal and any(x.get("k") == "mem" and x.get("f") == "fini" for x in (a, bb)):
                    facts.add("compat")
            st[PK] = frozenset(facts)

        an = Analysis(prog, f, hook=hook, edge_hook=edge_hook)
        st0 = an.entry_state()
        st0[PK] = frozenset()
        an.run(state=st0)
        for key, (ok, line) in sorted(verdict.items()):
            res.ob(key, ok, f, line, "" if ok else "the buffer's element type is replaced while its old content is still counted in _used: the new type's finaliser will run on elements it never constructed")
    return res


def run_ctorcover(prog, ctx=None):
    """CTORCOVER: inside a loop that constructs elements with traits->init(base + C, ..) (C the loop's position variable), a store
    to the buffer's used length made before leaving the loop records C — the elements constructed so far stay covered
    (and will be finalised); any other value there drops them or covers memory that holds no element"""
    res = Result("CTORCOVER")
    files = set(ctx.get("files", [])) if ctx else None
    for f in funcs_of(prog, files):
        tc = [(b, i, e) for b, i, e, role in trait_calls(f) if role == "init"]
        if not tc:
            continue
        loops = natural_loops(f)
        for b, i, e in tc:
            heads = [h for h, body in loops.items() if b.id in body]
            if not heads or not e.get("args"):
                continue
            body = min((loops[h] for h in heads), key=len)
            # position variable: the variable added to the payload pointer in the constructor's first argument
            a0 = strip(e["args"][0], all_casts=True)
            cvars = set()
            if a0.get("k") == "bin" and a0.get("op") == "+":
                for side in (a0["a"], a0["b"]):
                    s = strip(side, all_casts=True)
                    T = f.T(s.get("t"))
                    if s.get("k") == "ref" and "id" in s["d"] and T.get("k") in ("int", "enum"):
                        cvars.add(s["d"]["id"])
            if not cvars:
                continue
            head = [h for h in heads if loops[h] is body][0]
            # blocks entered by leaving the loop from inside its body (not by the loop condition at the head)
            early = set()
            for x in body:
                if x == head:
                    continue
                for sx in f.blocks[x].succ:
                    if sx is not None and sx not in body:
                        early |= f.reachable_from(sx, avoid=body)
            for bid in sorted(body | early):
                for el in f.blocks[bid].el:
                    for n in walk_own(el):
                        if n.get("k") == "bin" and n.get("op") == "=":
                            l = strip(n["a"], lvalue_to_rvalue=False)
                            if l.get("k") == "mem" and l.get("f") == "_used":
                                r = strip(n["b"], all_casts=True)
                                ok = r.get("k") == "ref" and r["d"].get("id") in cvars
                                res.ob("%s:%s" % (f.qn, norm(show(n, f))[:60]), ok, f, n.get("l", f.line),
                                       "" if ok else "inside the loop that constructs elements at %s the used length is set to %s: elements constructed so far are no longer covered (or raw memory is)" % (
                                           norm(show(e["args"][0], f)), norm(show(n["b"], f))))
    return res


def _loop_info(f, loops, call_block, call):
    """(head, body, counter id, start text, bound variable ids) of the innermost loop around a traits call on base + counter"""
    heads = [h for h, body in loops.items() if call_block.id in body]
    if not heads or not call.get("args"):
        return None
    head = min(heads, key=lambda h: len(loops[h]))
    body = loops[head]
    a0 = strip(call["args"][0], all_casts=True)
    counter = None
    if a0.get("k") == "bin" and a0.get("op") == "+":
        for side in (a0["a"], a0["b"]):
            s = strip(side, all_casts=True)
            if s.get("k") == "ref" and "id" in s["d"] and f.T(s.get("t")).get("k") in ("int", "enum"):
                counter = s["d"]
    if counter is None:
        return None
    # start: the value assigned to the counter in a block that enters the loop from outside; a parameter walks from itself
    start = counter["n"]
    for p in f.blocks[head].preds:
        if p in body:
            continue
        for el in f.blocks[p].el:
            for n in walk_own(el):
                if n.get("k") == "bin" and n.get("op") == "=":
                    l = strip(n["a"], lvalue_to_rvalue=False)
                    if l.get("k") == "ref" and l["d"].get("id") == counter["id"]:
                        start = norm(show(strip(n["b"], all_casts=True), f))
    bounds = set()
    for bid in body:
        blk = f.blocks[bid]
        if any(s is not None and s not in body for s in blk.succ) and blk.term and blk.term.get("cond") is not None:
            for x in walk(blk.term["cond"]):
                if x.get("k") == "ref" and "id" in x["d"] and x["d"]["id"] != counter["id"] and f.T(x.get("t")).get("k") in ("int", "enum"):
                    bounds.add(x["d"]["n"])
    return head, body, counter, start, bounds


def run_finimatch(prog, ctx=None):
    """FINIMATCH: elements finalised because they are about to be rebuilt are exactly the ones rebuilt: when a loop finalises
    base + [S, B) and a later loop of the same function constructs base + [S, E) from the same start S, the finalising loop is
    also bounded by E.  Otherwise elements behind E are finalised, stay inside the used length and are finalised again."""
    res = Result("FINIMATCH")
    files = set(ctx.get("files", [])) if ctx else None
    for f in funcs_of(prog, files):
        tc = trait_calls(f)
        finis = [(b, e) for b, i, e, role in tc if role == "fini"]
        inits = [(b, e) for b, i, e, role in tc if role == "init"]
        if not finis or not inits:
            continue
        loops = natural_loops(f)
        for fb, fe in finis:
            fi = _loop_info(f, loops, fb, fe)
            if fi is None:
                continue
            fhead, fbody, fcnt, fstart, fbounds = fi
            for ib, ie in inits:
                ii = _loop_info(f, loops, ib, ie)
                if ii is None or ii[0] == fhead:
                    continue
                ihead, ibody, icnt, istart, ibounds = ii
                if istart != fstart:
                    continue
                # the constructing loop must come after the finalising one
                if ihead not in f.reachable_from(fhead) or fhead in f.reachable_from(ihead, avoid={fhead}) and False:
                    continue
                missing = sorted(ibounds - fbounds)
                ok = not missing
                res.ob("%s:fini from %s bounded like init" % (f.qn, fstart), ok, f, fe.get("l", f.line),
                       "" if ok else "elements from %s on are finalised up to {%s} but rebuilt only up to {%s}: the finalising loop is not bounded by %s" % (
                           fstart, ", ".join(sorted(fbounds)), ", ".join(sorted(ibounds)), ", ".join(missing)))
    return res


def run_ctorfail(prog, ctx=None):
    """CTORFAIL: when a constructor call inside an element loop is tested for failure, the failure path records how far
    construction got (a store _used = loop position) before the function ends: leaving a used length that covers the
    unconstructed rest hands raw memory to the finaliser later"""
    res = Result("CTORFAIL")
    files = set(ctx.get("files", [])) if ctx else None
    for f in funcs_of(prog, files):
        tc = [(b, i, e) for b, i, e, role in trait_calls(f) if role == "init"]
        if not tc:
            continue
        loops = natural_loops(f)
        for b, i, e in tc:
            info = _loop_info(f, loops, b, e)
            if info is None:
                continue
            head, body, counter, start, bounds = info
            # the block that tests this call's result
            fail = None
            for bid, blk in f.blocks.items():
                if blk.term and blk.term.get("cond") is not None and len(blk.succ) == 2:
                    c = strip(blk.term["cond"], all_casts=True)
                    cs = c
                    if blk.term.get("cls") != "BinaryOperator":
                        while cs.get("k") == "bin" and cs.get("op") in ("&&", "||"):
                            cs = strip(cs["b"], all_casts=True)
                    if cs.get("k") == "bin" and cs.get("op") == "<" and cval(cs["b"]) == 0 and strip(cs["a"], all_casts=True).get("k") == "call" and strip(cs["a"], all_casts=True).get("sid") == e.get("sid") and e.get("sid") is not None:
                        fail = blk.succ[0]        # explicit error test (a success test `>= 0` has a fallback behind it)
            if fail is None:
                continue
            stores = set()
            for b2, i2, n in f.walk_all():
                if n.get("k") == "bin" and n.get("op") == "=":
                    l = strip(n["a"], lvalue_to_rvalue=False)
                    r = strip(n["b"], all_casts=True)
                    if l.get("k") == "mem" and l.get("f") == "_used" and r.get("k") == "ref" and r["d"].get("id") == counter["id"]:
                        stores.add(b2.id)
            reach = f.reachable_from(fail, avoid=stores) if fail not in stores else set()
            ok = f.exit not in reach
            res.ob("%s:failure of %s" % (f.qn, norm(show(e, f))[:40]), ok, f, e.get("l", f.line),
                   "" if ok else "when this constructor fails the function can end without `_used = %s`: the used length may cover memory that holds no element" % counter["n"])
    return res


def traits_functions(prog):
    """(role, function, table key) for the init / fini functions named by static type_traits initialisers"""
    out = []
    for u, g in prog.globals:
        T = u.types[g["t"]]
        if T.get("k") != "record" or T.get("name", "").split("::")[-1] not in ("mpt_type_traits", "type_traits"):
            continue
        init = g.get("init")
        if not init:
            continue
        fields = {}
        if init.get("k") == "init":
            r = prog.records.get(T["name"])
            for idx, e in enumerate(init.get("elts", [])):
                if r and idx < len(r["fields"]):
                    fields[r["fields"][idx]["n"]] = e
        elif init.get("k") == "construct":
            for idx, e in enumerate(init.get("args", [])[:3]):
                fields[("size", "fini", "init")[idx]] = e
        for role in ("init", "fini"):
            e = fields.get(role)
            if e is None:
                continue
            s = strip(e, all_casts=True)
            if s.get("k") == "ref" and s["d"].get("dk") == "fn":
                c = prog.by_qn.get(s["d"].get("qn") or s["d"]["n"], [])
                c = [x for x in c if x.file == g["file"]] or c
                if c and not c[0].nocfg:
                    out.append((role, c[0], "%s:%s" % (g["file"], g.get("in") or g["n"])))
    return out


def run_initwrites(prog, ctx=None):
    """INITWRITES: the `init` operation of a type_traits table is called on raw memory (a fresh or recycled buffer slot) and
    its non-negative answer makes that memory an element that `fini` will be run on.  On every path to a return that can be
    non-negative the element has been written: a store through the element pointer (or an alias of it) or a call that is
    handed the pointer.  A path that answers success without writing leaves whatever bytes the slot held as the element."""
    res = Result("INITWRITES")
    seen = set()
    for role, f, key in traits_functions(prog):
        if role != "init" or f.key() in seen or not f.params:
            continue
        seen.add(f.key())
        pid = f.params[0]["id"]
        alias = {pid}
        changed = True
        while changed:
            changed = False
            for b, i, n in f.walk_all():
                pairs = []
                if n.get("k") == "decl":
                    pairs = [(v["id"], v["init"]) for v in n["vars"] if v.get("init") is not None]
                elif n.get("k") == "bin" and n.get("op") == "=":
                    l = strip(n["a"], lvalue_to_rvalue=False)
                    if l.get("k") == "ref" and "id" in l["d"]:
                        pairs = [(l["d"]["id"], n["b"])]
                for vid, rhs in pairs:
                    r = strip(rhs, all_casts=True)
                    if r.get("k") == "ref" and r["d"].get("id") in alias and vid not in alias:
                        alias.add(vid)
                        changed = True

        def writes(e):
            for n in walk_own(e):
                if n.get("k") == "bin" and n.get("op", "").endswith("=") and n["op"] not in ("==", "!=", "<=", ">="):
                    l = strip(n["a"], lvalue_to_rvalue=False)
                    # *(T *) ptr = ..,  p->member = ..,  p[i] = ..
                    base = l
                    while base.get("k") in ("mem", "idx", "un", "cast"):
                        if base.get("k") == "mem":
                            base = base["b"]
                        elif base.get("k") == "idx":
                            base = base["a"]
                        else:
                            base = base["e"]
                        base = strip(base, all_casts=True)
                    if l.get("k") in ("mem", "idx", "un") and base.get("k") == "ref" and base["d"].get("id") in alias:
                        return True
                if n.get("k") in ("call", "construct", "new"):
                    for a in list(n.get("args", [])) + list(n.get("placement", [])):
                        s = strip(a, all_casts=True)
                        if s.get("k") == "ref" and s["d"].get("id") in alias:
                            return True
            return False

        wblocks = {}
        for b, i, e in f.elements():
            if writes(e):
                wblocks.setdefault(b.id, i)
        bad = None
        work = [(f.entry, 0)] if hasattr(f, "entry") else [(min(f.blocks), 0)]
        # entry block: the one without predecessors that has successors
        ent = [bid for bid, b in f.blocks.items() if not b.preds and (b.succ or b.el)]
        work = [(max(ent) if ent else min(f.blocks))]
        seenb = set()
        while work and bad is None:
            x = work.pop()
            if x in seenb:
                continue
            seenb.add(x)
            blk = f.blocks[x]
            if x in wblocks:
                # a return in this block before the write?
                for e in blk.el[:wblocks[x]]:
                    if e.get("k") == "ret" and e.get("e") is not None and not ((cval(e["e"]) or 0) < 0):
                        bad = e
                continue
            for e in blk.el:
                if e.get("k") == "ret" and e.get("e") is not None:
                    v = cval(e["e"])
                    if v is None or v >= 0:
                        bad = e
            for s in blk.succ:
                if s is not None:
                    work.append(s)
        res.ob("%s:%s writes the element" % (key, f.qn), bad is None, f, (bad.get("l") if bad else f.line) or f.line,
               "" if bad is None else "`%s` is reached on a path that never wrote through %s: init() answers success and the slot keeps the bytes it held (a stale pointer or count becomes the element)" % (
                   norm(show(bad, f)), f.params[0]["n"]))
    return res


def run_finibound(prog, ctx=None):
    """FINIBOUND: the bound of a finalizer loop is the used length the buffer had when its elements were alive.  Where the
    bound is read from `B->_used` (directly in the loop condition or through a local), no store to `B->_used` of the same
    buffer reaches that read: a length that was reset first makes the loop run over nothing, and every element that was alive
    keeps what it references."""
    res = Result("FINIBOUND")
    files = set(ctx.get("files", [])) if ctx else None
    for f in funcs_of(prog, files):
        tc = [x for x in trait_calls(f) if x[3] == "fini"]
        if not tc:
            continue
        loops = natural_loops(f)
        defs_at = {}          # var id -> [(block, idx, rhs)]
        for b, i, e in f.elements():
            for n in walk_own(e):
                if n.get("k") == "bin" and n.get("op") == "=":
                    l = strip(n["a"], lvalue_to_rvalue=False)
                    if l.get("k") == "ref" and "id" in l["d"]:
                        defs_at.setdefault(l["d"]["id"], []).append((b, i, n["b"]))
                elif n.get("k") == "decl":
                    for v in n["vars"]:
                        if v.get("init") is not None:
                            defs_at.setdefault(v["id"], []).append((b, i, v["init"]))
        stores = []
        for b, i, e in f.elements():
            for n in walk_own(e):
                if n.get("k") == "bin" and n["op"].endswith("=") and n["op"] not in ("==", "!=", "<=", ">="):
                    l = strip(n["a"], lvalue_to_rvalue=False)
                    if l.get("k") == "mem" and l.get("f") == "_used":
                        stores.append((b, i, n, norm(show(strip(l["b"], all_casts=True), f))))
        done = set()
        for b, i, e, role in tc:
            hs = [h for h, body in loops.items() if b.id in body]
            if not hs:
                continue
            h = min(hs, key=lambda x: len(loops[x]))
            if h in done:
                continue
            done.add(h)
            # reads of X->_used that feed the loop's exit condition
            reads = []       # (block, idx, base text)
            for x in loops[h]:
                blk = f.blocks[x]
                if not (blk.term and blk.term.get("cond") is not None and any(s is not None and s not in loops[h] for s in blk.succ)):
                    continue
                for n in walk(blk.term["cond"]):
                    if n.get("k") == "mem" and n.get("f") == "_used":
                        reads.append((blk, len(blk.el), norm(show(strip(n["b"], all_casts=True), f))))
                    if n.get("k") == "ref" and n["d"].get("id") in defs_at:
                        seen = set()
                        work = [n["d"]["id"]]
                        while work:
                            v = work.pop()
                            if v in seen:
                                continue
                            seen.add(v)
                            for db, di, rhs in defs_at.get(v, []):
                                for m in walk(rhs):
                                    if m.get("k") == "mem" and m.get("f") == "_used":
                                        reads.append((db, di, norm(show(strip(m["b"], all_casts=True), f))))
                                    if m.get("k") == "ref" and m["d"].get("id") in defs_at and m["d"]["id"] != v:
                                        work.append(m["d"]["id"])
            for rb, ri, base in reads:
                bad = None
                for sb, si, sn, sbase in stores:
                    if sbase != base:
                        continue
                    if sb.id in loops[h] or (sb.id in f.reachable_from(h) and sb.id != rb.id and rb.id not in f.reachable_from(sb.id)):
                        continue
                    before = (sb.id == rb.id and si < ri) or (sb.id != rb.id and rb.id in f.reachable_from(sb.id))
                    if before:
                        bad = sn
                res.ob("%s:bound %s->_used of the finalizer loop at line %s" % (f.qn, base, e.get("l", f.line)), bad is None, f, (bad.get("l") if bad else e.get("l")) or f.line,
                       "" if bad is None else "`%s` runs before the finalizer loop reads %s->_used as its bound: the loop sees the new length, the elements up to the old one are never finalized" % (
                           norm(show(bad, f)), base))
    return res


def run_finifirst(prog, ctx=None):
    """FINIFIRST: in a function that runs the element finalizer in a loop, the used length is lowered only behind that loop:
    a store to `_used` that is not reachable from the head of a finalizer loop (a shortcut taken before the loop) and that
    is not an increase (`_used = used + ..`, `_used += ..`) drops elements that were never finalized.  Stores that record how
    far a constructor loop got, and stores under a test that the traits have no finalizer, are the accepted exceptions."""
    res = Result("FINIFIRST")
    files = set(ctx.get("files", [])) if ctx else None
    for f in funcs_of(prog, files):
        tc = [x for x in trait_calls(f) if x[3] == "fini"]
        if not tc:
            continue
        loops = natural_loops(f)
        heads = set()
        for b, i, e, role in tc:
            hs = [h for h, body in loops.items() if b.id in body]
            if hs:
                heads.add(min(hs, key=lambda x: len(loops[x])))
        if not heads:
            continue
        init_loops = set()
        for b, i, e, role in trait_calls(f):
            if role == "init":
                for h, body in loops.items():
                    if b.id in body:
                        init_loops |= body
        behind = set()
        for h in heads:
            behind |= {h} | set(f.reachable_from(h))
        for b, i, e in f.elements():
            for n in walk_own(e):
                if not (n.get("k") == "bin" and n.get("op") in ("=", "-=")):
                    continue
                l = strip(n["a"], lvalue_to_rvalue=False)
                if not (l.get("k") == "mem" and l.get("f") == "_used"):
                    continue
                # increases and constructor bookkeeping
                r = strip(n["b"], all_casts=True)
                grows = r.get("k") == "bin" and r.get("op") == "+"
                if grows or b.id in init_loops:
                    continue
                ok = b.id in behind
                if not ok:
                    # under a test that there is no finalizer / that nothing is used
                    dom = f.dominators()
                    for pb in dom[b.id]:
                        blk = f.blocks[pb]
                        if blk.term and blk.term.get("cond") is not None:
                            c = strip(blk.term["cond"], all_casts=True)
                            txt = norm(show(c, f))
                            if "fini" in txt and "fini(" not in txt:
                                ok = True
                            # growth guard: `if (v > X->_used) X->_used = v`
                            if c.get("k") == "bin" and c.get("op") in (">", "<"):
                                big, small = (c["a"], c["b"]) if c["op"] == ">" else (c["b"], c["a"])
                                sm = strip(small, all_casts=True)
                                if sm.get("k") == "mem" and sm.get("f") == "_used" and norm(show(strip(big, all_casts=True), f)) == norm(show(r, f)) and blk.succ and blk.succ[0] is not None \
                                        and (blk.succ[0] == b.id or blk.succ[0] in dom[b.id]):
                                    ok = True
                res.ob("%s:%s at line %s" % (f.qn, norm(show(n, f))[:40], n.get("l", f.line)), ok, f, n.get("l", f.line) or f.line,
                       "" if ok else "`%s` lowers the used length on a path that has not passed the finalizer loop of %s: the elements it drops are never finalized" % (norm(show(n, f)), f.qn))
    return res

