"""Program model over the per-unit fact files written by mptsa.

Everything a rule sees comes from here: resolved functions with their clang CFG,
expression trees with types and folded constants, record layouts, enumerators,
static tables.  Functions defined in headers / template instantiations are
de-duplicated across units by (file, line, qualified name).
"""
import glob, json, os, sys
from collections import defaultdict


class Unit:
    def __init__(self, d):
        self.path = d["unit"]
        self.types = d["types"]
        self.errors = d.get("errors", False)
        self.ptrsize = d.get("ptrsize", 8)
        self.char_signed = d.get("char_signed", True)


class Block:
    __slots__ = ("id", "el", "succ", "term", "label", "preds")

    def __init__(self, d):
        self.id = d["id"]
        self.el = d["el"]
        self.succ = d["succ"]
        self.term = d.get("term")
        self.label = d.get("label")
        self.preds = []


class Func:
    def __init__(self, d, unit):
        self.unit = unit
        self.name = d["name"]
        self.qn = d["qn"]
        self.file = d["file"]
        self.line = d["line"]
        self.endline = d.get("endline", d["line"])
        self.static = d.get("static", False)
        self.ret = d["ret"]
        self.params = d["params"]
        self.d = d
        self.nocfg = d.get("nocfg", False)
        self.blocks = {}
        if not self.nocfg:
            for b in d["blocks"]:
                self.blocks[b["id"]] = Block(b)
            for b in self.blocks.values():
                for s in b.succ:
                    if s is not None and s in self.blocks:
                        self.blocks[s].preds.append(b.id)
            self.entry = d["entry"]
            self.exit = d["exit"]
        self._dom = None

    # ---- types -------------------------------------------------------
    def T(self, tid):
        if tid is None or tid < 0:
            return {"k": "none", "s": "?"}
        return self.unit.types[tid]

    def tstr(self, tid):
        return self.T(tid).get("s", "?")

    def pointee(self, tid):
        t = self.T(tid)
        if t.get("k") in ("ptr", "ref", "array"):
            return t.get("to")
        return None

    # ---- traversal ---------------------------------------------------
    def elements(self):
        for bid in sorted(self.blocks, reverse=True):
            b = self.blocks[bid]
            for i, e in enumerate(b.el):
                yield b, i, e

    def walk_all(self):
        """every expression node of the function body (each element's tree)"""
        for b, i, e in self.elements():
            for n in walk(e):
                yield b, i, n
        # terminator conditions are elements of their block already

    def key(self):
        return (self.file, self.line, self.qn, getattr(self, "sig", 0))

    def __repr__(self):
        return "<Func %s %s:%d>" % (self.qn, self.file, self.line)

    # ---- dominators (iterative) ---------------------------------------
    def dominators(self):
        if self._dom is not None:
            return self._dom
        ids = list(self.blocks)
        allb = set(ids)
        dom = {b: set(allb) for b in ids}
        dom[self.entry] = {self.entry}
        changed = True
        order = sorted(ids, reverse=True)
        while changed:
            changed = False
            for b in order:
                if b == self.entry:
                    continue
                ps = [p for p in self.blocks[b].preds]
                if ps:
                    new = set.intersection(*[dom[p] for p in ps]) | {b}
                else:
                    new = {b}
                if new != dom[b]:
                    dom[b] = new
                    changed = True
        self._dom = dom
        return dom

    def reachable_from(self, start, avoid=()):
        seen = set()
        st = [start]
        while st:
            b = st.pop()
            if b in seen or b in avoid:
                continue
            seen.add(b)
            for s in self.blocks[b].succ:
                if s is not None:
                    st.append(s)
        return seen


CHILD_KEYS = ("b", "e", "a", "c", "i", "obj", "callee", "ae", "init", "n")


def children(e):
    if not isinstance(e, dict):
        return
    k = e.get("k")
    if k == "bin":
        yield e["a"]; yield e["b"]
    elif k in ("un", "cast", "delete", "complit", "vaarg", "ctorinit"):
        if e.get("e") is not None:
            yield e["e"]
    elif k == "ret":
        if e.get("e") is not None:
            yield e["e"]
    elif k == "mem":
        yield e["b"]
    elif k == "idx":
        yield e["a"]; yield e["i"]
    elif k == "cond":
        yield e["c"]; yield e["a"]; yield e["b"]
    elif k == "call":
        if e.get("obj") is not None:
            yield e["obj"]
        elif e.get("callee") is not None:
            yield e["callee"]
        for a in e.get("args", []):
            yield a
    elif k == "construct":
        for a in e.get("args", []):
            yield a
    elif k == "init":
        for a in e.get("elts", []):
            yield a
    elif k == "decl":
        for v in e.get("vars", []):
            if v.get("init") is not None:
                yield v["init"]
    elif k == "sizeof":
        return
    elif k == "new":
        for a in e.get("placement", []):
            yield a
        if e.get("init") is not None:
            yield e["init"]
        if isinstance(e.get("n"), dict):
            yield e["n"]
    elif k == "other":
        for a in e.get("ch", []):
            if a is not None:
                yield a


def walk(e):
    if not isinstance(e, dict):
        return
    st = [e]
    while st:
        n = st.pop()
        yield n
        for c in children(n):
            if isinstance(c, dict):
                st.append(c)


def walk_own(e):
    """nodes of CFG element e that are evaluated *at* e: sub-trees that are CFG elements themselves
    (calls, arms of ?:, operands of && ||) are visited where they are elements, not here"""
    if not isinstance(e, dict):
        return
    st = [e]
    first = True
    while st:
        n = st.pop()
        if not first and "sid" in n:
            continue
        first = False
        yield n
        for c in children(n):
            if isinstance(c, dict):
                st.append(c)


def strip(e, lvalue_to_rvalue=True, all_casts=False):
    """skip value-preserving wrappers: parens are gone already; NoOp / LValueToRValue casts"""
    while isinstance(e, dict) and e.get("k") == "cast":
        ck = e.get("ck")
        if all_casts or ck in ("NoOp", "LValueToRValue", "ArrayToPointerDecay", "FunctionToPointerDecay") :
            if ck == "LValueToRValue" and not lvalue_to_rvalue:
                break
            e = e["e"]
        else:
            break
    return e


def cval(e):
    """folded integer constant of an expression or None"""
    if not isinstance(e, dict):
        return None
    if "v" in e:
        return e["v"]
    if "vu" in e:
        return int(e["vu"])
    return None


def callee_name(e):
    if e.get("k") != "call":
        return None
    fn = e.get("fn")
    if fn:
        qn = fn.get("qn") or fn.get("n")
        n = fn.get("n") or ""
        # C API seen from C++ (`namespace mpt { extern "C" ... }`): same function, plain name
        if qn and qn == "mpt::" + n and (n.startswith("mpt_") or n.startswith("_mpt_")):
            return n
        return qn
    return None


def ref_id(e):
    """decl id if e (through value-preserving wrappers) names a variable"""
    e = strip(e)
    if isinstance(e, dict) and e.get("k") == "ref" and "id" in e["d"]:
        return e["d"]["id"]
    return None


def ref_name(e):
    e = strip(e)
    if isinstance(e, dict) and e.get("k") == "ref":
        return e["d"]["n"]
    return None


BINPREC = {"*": 12, "/": 12, "%": 12, "+": 11, "-": 11, "<<": 10, ">>": 10, "<": 9, ">": 9, "<=": 9, ">=": 9,
           "==": 8, "!=": 8, "&": 7, "^": 6, "|": 5, "&&": 4, "||": 3, ",": 0}


def show(e, f=None, depth=0):
    """normalised text of an expression tree (no positions) — used in construct keys"""
    if e is None:
        return ""
    if not isinstance(e, dict):
        return str(e)
    if depth > 12:
        return "…"
    k = e.get("k")
    d = depth + 1
    if k == "lit":
        v = cval(e)
        if e.get("chr") and v is not None and 32 <= v < 127:
            return "'%s'" % chr(v)
        return str(v)
    if k == "flit":
        return repr(e.get("fv"))
    if k == "str":
        return json.dumps(e.get("s", ""))
    if k == "ref":
        return e["d"]["n"]
    if k == "mem":
        return show(e["b"], f, d) + ("->" if e.get("arrow") else ".") + e["f"]
    if k == "un":
        if e.get("post"):
            return show(e["e"], f, d) + e["op"]
        return e["op"] + show(e["e"], f, d)
    if k == "bin":
        return "(%s %s %s)" % (show(e["a"], f, d), e["op"], show(e["b"], f, d)) if depth else "%s %s %s" % (show(e["a"], f, d), e["op"], show(e["b"], f, d))
    if k == "cond":
        return "(%s ? %s : %s)" % (show(e["c"], f, d), show(e["a"], f, d), show(e["b"], f, d))
    if k == "call":
        n = callee_name(e)
        if e.get("mcall"):
            n = show(e.get("obj"), f, d) + "." + (e.get("fn", {}).get("n") or "?")
        elif n is None:
            n = show(e.get("callee"), f, d)
        return "%s(%s)" % (n, ", ".join(show(a, f, d) for a in e.get("args", [])))
    if k == "cast":
        if e.get("explicit") and f is not None:
            return "(%s)%s" % (f.tstr(e["t"]), show(e["e"], f, d))
        return show(e["e"], f, d)
    if k == "idx":
        return "%s[%s]" % (show(e["a"], f, d), show(e["i"], f, d))
    if k == "sizeof":
        if f is not None:
            return "sizeof(%s)" % f.tstr(e.get("at"))
        return "sizeof(?)"
    if k == "ret":
        return "return " + show(e.get("e"), f, d)
    if k == "decl":
        return "; ".join("%s%s" % (v["n"], (" = " + show(v["init"], f, d)) if v.get("init") is not None else "") for v in e["vars"])
    if k == "init":
        return "{" + ", ".join(show(a, f, d) for a in e.get("elts", [])) + "}"
    if k == "this":
        return "this"
    if k == "zero":
        return "{}"
    if k == "construct":
        return "%s(%s)" % (e["fn"]["n"], ", ".join(show(a, f, d) for a in e.get("args", [])))
    if k == "new":
        return "new " + (f.tstr(e.get("at")) if f else "?")
    if k == "delete":
        return "delete " + show(e["e"], f, d)
    if k == "ctorinit":
        return "%s(%s)" % (e.get("f", "base"), show(e.get("e"), f, d))
    if k == "offsetof":
        return "offsetof(%s)" % e.get("path")
    if k == "complit":
        return show(e["e"], f, d)
    return "<%s>" % (e.get("cls") or k)


class Program:
    def __init__(self, factdir):
        self.units = []
        self.functions = {}          # key -> Func
        self.by_name = defaultdict(list)   # plain name -> [Func]
        self.by_qn = defaultdict(list)
        self.by_file = defaultdict(list)
        self.records = {}
        self.enums = {}
        self.enum_consts = {}        # enumerator name -> value
        self.globals = []            # (unit, dict)
        self.nunits = 0
        self.parse_errors = []
        files = sorted(glob.glob(os.path.join(factdir, "*.json")))
        loaded = []
        for p in files:
            with open(p) as fp:
                loaded.append(json.load(fp))
        # fact files are named by a hash of the unit's absolute path: order the units by the path itself, so that the order
        # in which same-named definitions are met does not depend on where the analysed tree lives
        loaded.sort(key=lambda d: d.get("unit", ""))
        for d in loaded:
            u = Unit(d)
            self.units.append(u)
            self.nunits += 1
            if u.errors:
                self.parse_errors.append(u.path)
            for name, r in d["records"].items():
                r = dict(r)
                r["unit"] = u
                self.records.setdefault(name, r)
            for name, en in d["enums"].items():
                self.enums.setdefault(name, en)
                for c in en["consts"]:
                    self.enum_consts.setdefault(c["n"], c["v"])
            for g in d["globals"]:
                self.globals.append((u, g))
            for fd in d["functions"]:
                f = Func(fd, u)
                # identical text -> same function seen through another unit (headers, templates);
                # different text at one position -> a .c file included under other macros (decode_cobs.c)
                sig = hash(tuple(show(e) for b, i, e in f.elements()))
                key = (fd["file"], fd["line"], fd["qn"], sig)
                if key in self.functions:
                    continue
                f.sig = sig
                self.functions[key] = f
                self.by_name[f.name].append(f)
                self.by_qn[f.qn].append(f)
                self.by_file[f.file].append(f)
        # globals de-dup (static tables in headers)
        seen = set()
        gl = []
        for u, g in self.globals:
            # function-local statics of template members share file, line and name: the enclosing instantiation tells them apart
            k = (g["file"], g["line"], g["qn"], g.get("in"))
            if k in seen:
                continue
            seen.add(k)
            gl.append((u, g))
        self.globals = gl

    def func(self, name, file=None):
        """the unique function of that (plain or qualified) name, optionally in file"""
        c = self.by_name.get(name) or self.by_qn.get(name) or []
        if file:
            c = [f for f in c if f.file == file or f.file.endswith(file)]
        if len(c) == 1:
            return c[0]
        if not c:
            return None
        # prefer non-static
        nz = [f for f in c if not f.static]
        if len(nz) == 1:
            return nz[0]
        # extern "C" functions that the C++ library defines again (mpt_meta_new, mpt_node_new, mpt_meta_buffer): the C one
        c = sorted(nz or c, key=lambda f: (not f.file.startswith("mptcore/"), f.file, f.line))
        return c[0]

    def func_in_unit(self, name, unit_suffix):
        for f in self.by_name.get(name, []) + self.by_qn.get(name, []):
            if f.unit.path.endswith(unit_suffix):
                return f
        return None

    def funcs_in(self, files):
        out = []
        for fl in files:
            out.extend(self.by_file.get(fl, []))
        return out

    def global_var(self, name, file=None):
        for u, g in self.globals:
            if g["n"] == name and (file is None or g["file"] == file or g["file"].endswith(file)):
                return u, g
        return None

    def resolve_call(self, f, e):
        """Func objects a call expression can reach directly (by resolved declaration)"""
        fn = e.get("fn")
        if not fn:
            return []
        qn = fn.get("qn") or fn.get("n")
        cands = self.by_qn.get(qn, [])
        if not cands and fn.get("dk") == "fn":
            # C functions declared inside `namespace mpt { extern "C" ... }` are seen as mpt::name from C++
            cands = [c for c in self.by_name.get(fn.get("n"), []) if not c.d.get("method") and "::" not in c.qn]
        if fn.get("static"):
            c2 = [c for c in cands if c.unit.path == f.unit.path or c.file == f.file]
            if c2:
                return c2[:1]
        if len(cands) > 1:
            # a name defined in more than one library: the definition in the caller's own library, else the core one
            top = f.file.split("/", 1)[0]
            cands = sorted(cands, key=lambda c: (c.file.split("/", 1)[0] != top, not c.file.startswith("mptcore/"), c.file, c.line))
        return cands[:1] if cands else []
