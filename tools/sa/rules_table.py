"""TABLE rules for the type registry (C06) and the conversion dispatchers (C07):
TYPEMAP, REGRANGE, MEMCPYSIZE."""
from .facts import strip, cval, walk, show, callee_name
from .ival import Analysis, AV, Summaries, monotone_counters, type_range, join
from .core import Result, Broken, norm
from .typemap import TypeMap, idname


def same_ctype(a, b):
    if a is None or b is None:
        return False
    ka, kb = a.get("k"), b.get("k")
    ia = ka in ("int", "bool", "enum")
    ib = kb in ("int", "bool", "enum")
    if ia != ib or (ka == "float") != (kb == "float") or (ka == "ptr") != (kb == "ptr"):
        return False
    if a.get("sz") != b.get("sz"):
        return False
    if ia and bool(a.get("signed")) != bool(b.get("signed")):
        return False
    if ka == "float" and a.get("mant") != b.get("mant"):
        return False
    return True


def switch_cases(f, param_idx=None):
    """[(K, case block id)] of the (single) switch on a parameter"""
    out = []
    for bid, b in f.blocks.items():
        if b.term and b.term.get("cls") == "SwitchStmt":
            for s in b.succ:
                if s is None:
                    continue
                lab = f.blocks[s].label
                if lab and lab.get("k") == "case" and "lo" in lab:
                    out.append((lab["lo"], s, bid))
    return out


def case_region(f, start, stop_labels=True):
    """elements executed from a case label up to its break/return (follows fall-through)"""
    seen = set()
    st = [start]
    els = []
    while st:
        b = st.pop()
        if b in seen:
            continue
        seen.add(b)
        blk = f.blocks[b]
        els.extend(blk.el)
        if any(e.get("k") == "ret" for e in blk.el):
            continue
        for s in blk.succ:
            if s is None or s == f.exit:
                continue
            sb = f.blocks[s]
            # stop at the statement after the switch: blocks that are no case and have preds outside the region
            st.append(s)
        if len(seen) > 12:
            break
    return els


def first_case_elements(f, start):
    """elements of the straight-line code right at the case label (until a branch or return)"""
    els = []
    b = start
    seen = set()
    while b is not None and b not in seen:
        seen.add(b)
        blk = f.blocks[b]
        els.extend(blk.el)
        if any(e.get("k") == "ret" for e in blk.el) or blk.term is not None:
            break
        nxt = [s for s in blk.succ if s is not None]
        if len(nxt) != 1:
            break
        if f.blocks[nxt[0]].label and f.blocks[nxt[0]].label.get("k") in ("case", "default"):
            # empty case falling through to the next label
            if els:
                break
        b = nxt[0]
    return els


def run_typemap(prog, ctx=None):
    res = Result("TYPEMAP")
    tm = TypeMap(prog)
    ec = prog.enum_consts
    E = lambda n: ec.get("MPT_" + n, ec.get(n))

    # T1 rows unique, sizes equal sizeof of the row's type
    seen = {}
    for table, rows in (("scalar_sizes", tm.rows_scalar), ("core_sizes", tm.rows_core)):
        for tid, ct, size, line in rows:
            dup = (table, tid) in seen
            seen[(table, tid)] = True
            res.ob("%s:row %s:unique" % (table, idname(tid)), not dup, None, line or 0,
                   "" if not dup else "id %s listed twice in %s" % (idname(tid), table), file="mptcore/types/type_traits.c")
            if ct is not None:
                ok = size == ct.get("sz")
                res.ob("%s:row %s:size" % (table, idname(tid)), ok, None, line or 0,
                       "" if ok else "row size %s differs from sizeof(%s)=%s" % (size, ct.get("s"), ct.get("sz")), file="mptcore/types/type_traits.c")
            if table == "scalar_sizes":
                ok = tid is not None and E("_TypeScalarBase") <= tid <= E("_TypeScalarMax")
                res.ob("%s:row %s:range" % (table, idname(tid)), ok, None, line or 0,
                       "" if ok else "scalar row id outside [_TypeScalarBase,_TypeScalarMax]", file="mptcore/types/type_traits.c")
            else:
                ok = tid is not None and 0 < tid < E("_TypeCoreSize")
                res.ob("%s:row %s:range" % (table, idname(tid)), ok, None, line or 0,
                       "" if ok else "core row id outside (0,_TypeCoreSize)", file="mptcore/types/type_traits.c")

    # T9 every core enumerator below _TypeCoreSize has a size row
    types_enum = None
    for name, en in prog.enums.items():
        names = {c["n"] for c in en["consts"]}
        if "MPT__TypeCoreSize" in names or "_TypeCoreSize" in names:
            if en["file"].endswith("types.h"):
                types_enum = en
                break
    if types_enum is None:
        raise Broken("anchor missing: enum Types with _TypeCoreSize")
    core_ids = {tid for tid, ct, size, line in tm.rows_core}
    for c in types_enum["consts"]:
        n = c["n"].replace("MPT_", "", 1)
        if n.startswith("_"):
            continue
        if 0 < c["v"] < E("_TypeCoreSize"):
            ok = c["v"] in core_ids
            res.ob("core_sizes:has-row:%s" % n, ok, None, c.get("line", 0),
                   "" if ok else "built-in type %s (%s) has no size row: mpt_type_traits() reports it as unknown" % (n, hex(c["v"])), file="mptcore/types.h")

    # T8 kind ranges disjoint and ordered, size constants cover the ranges
    ranges = [("core", 1, E("_TypeCoreSize") - 1), ("vector", E("_TypeVectorBase"), E("_TypeVectorMax")),
              ("scalar", E("_TypeScalarBase"), E("_TypeScalarMax")), ("interface", E("_TypeInterfaceBase"), E("_TypeInterfaceMax")),
              ("dynamic", E("_TypeDynamicBase"), E("_TypeDynamicMax")), ("metaptr", E("_TypeMetaPtrBase"), E("_TypeMetaPtrMax")),
              ("value", E("_TypeValueAdd"), E("_TypeValueMax"))]
    if any(lo is None or hi is None for _, lo, hi in ranges):
        raise Broken("anchor missing: a range enumerator of enum Types")
    for (n1, lo1, hi1), (n2, lo2, hi2) in zip(ranges, ranges[1:]):
        ok = lo1 <= hi1 < lo2 <= hi2
        res.ob("ranges:%s<%s" % (n1, n2), ok, None, types_enum["line"],
               "" if ok else "id ranges %s [%s,%s] and %s [%s,%s] are not disjoint/ordered" % (n1, hex(lo1), hex(hi1), n2, hex(lo2), hex(hi2)), file="mptcore/types.h")
    for kind, sz in (("Vector", E("_TypeVectorSize")), ("Scalar", E("_TypeScalarSize"))):
        lo, hi = E("_Type%sBase" % kind), E("_Type%sMax" % kind)
        ok = sz is not None and sz >= hi - lo + 1
        res.ob("ranges:%s-size" % kind.lower(), ok, None, types_enum["line"],
               "" if ok else "_Type%sSize=%s does not cover [%s,%s]" % (kind, sz, hex(lo), hex(hi)), file="mptcore/types.h")
    # scalar <-> vector id translation keeps the offset inside both ranges
    ok = E("_TypeVectorMax") - E("_TypeVectorBase") == E("_TypeScalarMax") - E("_TypeScalarBase")
    res.ob("ranges:vector-scalar-span", ok, None, types_enum["line"], "" if ok else "vector and scalar id ranges differ in length", file="mptcore/types.h")
    ok = E("TypeIdentifier") > E("_TypeMetaPtrMax") and E("TypeCommand") < E("_TypeValueAdd")
    res.ob("ranges:static-managed", ok, None, types_enum["line"], "" if ok else "static managed ids overlap metatype/dynamic ranges", file="mptcore/types.h")

    # interface table: position i holds _TypeInterfaceBase + i
    ig = prog.global_var("core_interfaces", "mptcore/types/type_traits.c")
    if ig is None:
        raise Broken("anchor missing: core_interfaces table")
    names = set()
    for i, row in enumerate(ig[1]["init"].get("elts", [])):
        if row.get("k") != "init":
            continue
        nm = strip(row["elts"][0], all_casts=True).get("s")
        tid = cval(row["elts"][1])
        ok = tid == E("_TypeInterfaceBase") + i
        res.ob("core_interfaces:row %d:%s" % (i, nm), ok, None, row.get("l", 0),
               "" if ok else "row %d (%s) has id %s but the init loop stores it at slot %d = id %s" % (i, nm, hex(tid or 0), i, hex(E("_TypeInterfaceBase") + i)),
               file="mptcore/types/type_traits.c")
        ok = nm not in names
        names.add(nm)
        res.ob("core_interfaces:name %s:unique" % nm, ok, None, row.get("l", 0), "" if ok else "duplicate interface name", file="mptcore/types/type_traits.c")
        ok = tid is not None and tid < E("_TypeInterfaceAdd")
        res.ob("core_interfaces:row %d:below-add" % i, ok, None, row.get("l", 0),
               "" if ok else "built-in interface id not below _TypeInterfaceAdd (first dynamic slot)", file="mptcore/types/type_traits.c")

    # T2 type_properties<T>::id specialisations
    n_tp = 0
    for f in prog.functions.values():
        if f.name != "id" or "type_properties<" not in f.d.get("cls", ""):
            continue
        ta = f.d.get("cls_targs") or []
        if len(ta) != 1 or ta[0] is None:
            continue
        T = f.T(ta[0])
        rets = [e for b, i, e in f.elements() if e.get("k") == "ret" and e.get("e") is not None]
        if len(rets) != 1:
            continue
        K = cval(rets[0]["e"])
        if K is None:
            continue
        if K in tm.scalar and T.get("k") in ("int", "float"):
            n_tp += 1
            ok = same_ctype(T, tm.scalar[K])
            res.ob("type_properties<%s>::id" % T.get("s"), ok, f, f.line,
                   "" if ok else "C++ type %s is given id %s whose registry row is %s" % (T.get("s"), idname(K), tm.scalar[K].get("s")))
    if n_tp < 8:
        raise Broken("only %d scalar type_properties<T>::id specialisations found" % n_tp)

    # T3 mpt_data_converter: id -> converter whose source pointee is the id's C type
    from .rules_conv import find_converters
    dc, convs = find_converters(prog)
    for K, f, line in convs:
        if K is None or K not in tm.scalar or not f.params:
            continue
        ST = f.T(f.pointee(f.params[0]["t"]))
        ok = same_ctype(ST, tm.scalar[K])
        res.ob("mpt_data_converter:case %s" % idname(K), ok, dc, line or 0,
               "" if ok else "source id %s (%s) is handed to %s which reads a %s" % (idname(K), tm.scalar[K].get("s"), f.qn, ST.get("s")))
    for K in tm.scalar:
        if tm.scalar[K].get("k") in ("int", "float"):
            ok = any(k == K for k, f, l in convs)
            res.ob("mpt_data_converter:has %s" % idname(K), ok, dc, dc.line, "" if ok else "scalar id %s has no converter" % idname(K))

    # T4 mpt_convert_number: id -> parser whose destination pointee is the id's C type
    cn = prog.func("mpt_convert_number")
    if cn is None:
        raise Broken("anchor missing: mpt_convert_number")
    n4 = 0
    for K, blk, swb in switch_cases(cn):
        for e in first_case_elements(cn, blk):
            if e.get("k") == "ret" and e.get("e") is not None:
                c = strip(e["e"], all_casts=True)
                if c.get("k") == "call":
                    cs = prog.resolve_call(cn, c)
                    if cs and cs[0].params:
                        PT = cs[0].T(cs[0].pointee(cs[0].params[0]["t"]))
                        if K in tm.scalar:
                            n4 += 1
                            ok = same_ctype(PT, tm.scalar[K])
                            res.ob("mpt_convert_number:case %s" % idname(K), ok, cn, e.get("l", 0),
                                   "" if ok else "numeral for id %s (%s) is parsed by %s into a %s" % (idname(K), tm.scalar[K].get("s"), cs[0].qn, PT.get("s")))
                        else:
                            # an id that no table knows, or one that was rewritten before the switch
                            res.notes.append("mpt_convert_number: case %s has no registry row" % idname(K))
    if n4 < 8:
        raise Broken("mpt_convert_number: %d typed cases found" % n4)

    # T5 mpt_type_int / mpt_type_uint: width -> id
    for name, signed in (("mpt_type_int", True), ("mpt_type_uint", False)):
        f = prog.func(name)
        if f is None:
            raise Broken("anchor missing: " + name)
        for W, blk, swb in switch_cases(f):
            for e in first_case_elements(f, blk):
                if e.get("k") == "ret" and e.get("e") is not None:
                    K = cval(e["e"])
                    T = tm.scalar.get(K)
                    ok = T is not None and T.get("k") == "int" and T.get("sz") == W and bool(T.get("signed")) == signed
                    res.ob("%s:case %d" % (name, W), ok, f, e.get("l", 0),
                           "" if ok else "width %d maps to id %s (%s)" % (W, idname(K), T.get("s") if T else "unregistered"))

    # T7 mpt_iterator_consume and T6 mpt_msgvalfmt_code: id -> sizeof(T)
    for name in ("mpt_iterator_consume", "mpt_msgvalfmt_code"):
        f = prog.func(name)
        if f is None:
            raise Broken("anchor missing: " + name)
        n = 0
        if not any(True for _ in switch_cases(f)):
            # the id -> size switch was moved into a file-local helper the function calls
            for b_, i_, e_ in f.elements():
                if e_.get("k") == "call" and e_.get("fn"):
                    for g in prog.resolve_call(f, e_):
                        if g.static and g.file == f.file and not g.nocfg and any(True for _ in switch_cases(g)):
                            f = g
                            break
        for K, blk, swb in switch_cases(f):
            szs = []
            for e in first_case_elements(f, blk):
                for nd in walk(e):
                    if nd.get("k") == "sizeof":
                        szs.append(nd)
            if not szs or K not in tm.scalar:
                if szs and K not in tm.scalar:
                    res.notes.append("%s: case %s has no registry row" % (name, idname(K)))
                continue
            n += 1
            T = f.T(szs[0]["at"])
            ok = same_ctype(T, tm.scalar[K])
            res.ob("%s:case %s" % (name, idname(K)), ok, f, szs[0].get("l", 0),
                   "" if ok else "id %s (%s) is sized as %s" % (idname(K), tm.scalar[K].get("s"), T.get("s")))
        if n < 8:
            raise Broken("%s: %d typed cases found" % (name, n))

    # T6b wire format code and its inverse agree: typeid(code(K)) == K (abstract evaluation with constant arguments)
    code = prog.func("mpt_msgvalfmt_code")
    tid = prog.func("mpt_msgvalfmt_typeid")
    if tid is None:
        raise Broken("anchor missing: mpt_msgvalfmt_typeid")
    sm = Summaries(prog)
    for K, blk, swb in switch_cases(code):
        cv = None
        for e in first_case_elements(code, blk):
            if e.get("k") == "ret" and e.get("e") is not None:
                cv = cval(e["e"])
        if cv is None:
            continue
        an = Analysis(prog, tid, summaries=sm)
        st = an.entry_state()
        st[("v", tid.params[0]["id"])] = AV(cv & 0xff, cv & 0xff)
        an.run(state=st)
        r = None
        for (bid, idx), pre in an.pre.items():
            el = tid.blocks[bid].el[idx]
            if el.get("k") == "ret" and el.get("e") is not None:
                r = join(r, an.ev(el["e"], dict(pre), True))
        ok = r is not None and r.is_const() and r.lo == K
        res.ob("msgvalfmt:roundtrip %s" % idname(K), ok, tid, tid.line,
               "" if ok else "mpt_msgvalfmt_typeid(mpt_msgvalfmt_code(%s)=%s) evaluates to %s" % (idname(K), hex(cv), r))

    # T10 mpt_type_traits dispatch: ids with a row reach the return that reads their table
    tt = prog.func("mpt_type_traits")
    if tt is None:
        raise Broken("anchor missing: mpt_type_traits")

    def table_reached(K):
        an = Analysis(prog, tt)
        st = an.entry_state()
        st[("v", tt.params[0]["id"])] = AV(K, K)
        an.run(state=st)
        tabs = set()
        for (bid, idx), pre in an.pre.items():
            el = tt.blocks[bid].el[idx]
            # the table the id is looked up in: read in the return expression or in an assignment that feeds it
            # (with a constant id only the branch of its kind is reachable)
            if (el.get("k") == "ret" and el.get("e") is not None) or (el.get("k") == "bin" and el.get("op") == "=") or el.get("k") == "decl":
                for nd in walk(el):
                    if nd.get("k") == "ref" and nd["d"].get("dk") == "global":
                        tabs.add(nd["d"]["n"])
            if el.get("k") == "call" and callee_name(el):
                tabs.add(callee_name(el) + "()")
        return tabs

    for K in sorted(tm.scalar):
        t = table_reached(K)
        ok = "scalar_types" in t
        res.ob("mpt_type_traits:scalar %s" % idname(K), ok, tt, tt.line, "" if ok else "id %s resolves through %s, not the scalar table" % (idname(K), sorted(t)))
        V = K - tm.scalar_base + tm.vector_base
        t = table_reached(V)
        ok = "iovec_types" in t
        res.ob("mpt_type_traits:vector %s" % idname(V), ok, tt, tt.line, "" if ok else "vector id %s resolves through %s, not the vector table" % (idname(V), sorted(t)))
    for K in sorted(core_ids):
        t = table_reached(K)
        ok = "core_types" in t
        res.ob("mpt_type_traits:core %s" % hex(K), ok, tt, tt.line, "" if ok else "core id %s resolves through %s" % (hex(K), sorted(t)))
    for c in types_enum["consts"]:
        n = c["n"].replace("MPT_", "", 1)
        if n in ("TypeIdentifier", "TypeArray", "TypeMetaRef", "TypeCommand"):
            t = table_reached(c["v"])
            ok = any(x.endswith("_traits()") for x in t) and "mpt_metatype_traits()" not in t
            res.ob("mpt_type_traits:managed %s" % n, ok, tt, tt.line, "" if ok else "%s resolves through %s" % (n, sorted(t)))
        if n in ("TypeConvertablePtr", "TypeLoggerPtr", "TypeIteratorPtr", "TypeSolverPtr"):
            t = table_reached(c["v"])
            ok = "mpt_interface_traits()" in t
            res.ob("mpt_type_traits:interface %s" % n, ok, tt, tt.line, "" if ok else "%s resolves through %s" % (n, sorted(t)))
    return res


def run_regrange(prog, ctx=None):
    """REGRANGE: ids handed out by the registration functions lie in the range of their kind"""
    res = Result("REGRANGE")
    ec = prog.enum_consts
    E = lambda n: ec.get("MPT_" + n, ec.get(n))
    prog.monotone = monotone_counters(prog)
    spec = [("mpt_type_add", "ret", "_TypeValueAdd", "_TypeValueMax"),
            ("mpt_type_basic_add", "ret", "_TypeDynamicBase", "_TypeDynamicMax"),
            ("mpt_type_metatype_add", "field", "_TypeMetaPtrBase", "_TypeMetaPtrMax"),
            ("mpt_type_interface_add", "field", "_TypeInterfaceBase", "_TypeInterfaceMax")]
    # capacity constants
    for name, lo, hi in (("TypeInterfaceSize", "_TypeInterfaceBase", "_TypeInterfaceMax"), ("TypeDynamicSize", "_TypeDynamicBase", "_TypeDynamicMax")):
        g = prog.global_var(name, "mptcore/types/type_traits.c")
        if g is None:
            raise Broken("anchor missing: " + name)
        v = cval(g[1]["init"])
        want = E(hi) - E(lo) + 1
        ok = v == want
        res.ob("capacity:%s" % name, ok, None, g[1]["line"], "" if ok else "%s = %s, range [%s,%s] holds %d ids" % (name, v, lo, hi, want), file=g[1]["file"])
    for fname, kind, lo, hi in spec:
        f = prog.func(fname, "mptcore/types/type_traits.c")
        if f is None:
            raise Broken("anchor missing: " + fname)
        LO, HI = E(lo), E(hi)
        an = Analysis(prog, f).run()
        n = 0
        for (bid, idx), pre in sorted(an.pre.items()):
            el = f.blocks[bid].el[idx]
            if kind == "ret" and el.get("k") == "ret" and el.get("e") is not None:
                v = an.val(bid, idx, el["e"])
                if v.hi < 0:
                    continue      # error code
                n += 1
                ok = v.within(LO, HI)
                res.ob("%s:return %s" % (fname, norm(show(el["e"], f))), ok, f, el.get("l", 0),
                       "" if ok else "returned id %s may leave [%s,%s]" % (v, hex(LO), hex(HI)), {"interval": v.tojson()})
            if kind == "field":
                for nd in walk(el):
                    if nd.get("k") == "bin" and nd.get("op") == "=":
                        l = strip(nd["a"], lvalue_to_rvalue=False)
                        # *((type *) &elem->type) = id
                        tgt = None
                        for x in walk(l):
                            if x.get("k") == "mem" and x.get("f") == "type":
                                tgt = x
                        if tgt is None:
                            continue
                        from .rules_conv import raw_rhs
                        v = an.val(bid, idx, raw_rhs(nd["b"]))
                        n += 1
                        ok = v.within(LO, HI)
                        res.ob("%s:store %s" % (fname, norm(show(nd, f))), ok, f, nd.get("l", 0),
                               "" if ok else "registered id %s may leave [%s,%s]" % (v, hex(LO), hex(HI)), {"interval": v.tojson()})
        if n == 0:
            raise Broken("%s: no id-producing site found" % fname)
    return res


def run_memcpysize(prog, ctx=None):
    """MEMCPYSIZE: memcpy(dst, &obj, sizeof X) — X is obj or its type"""
    res = Result("MEMCPYSIZE")
    files = set(ctx.get("files", [])) if ctx else set()
    for f in prog.functions.values():
        if files and f.file not in files:
            continue
        if f.nocfg:
            continue
        for b, i, e in f.elements():
            if e.get("k") != "call" or callee_name(e) not in ("memcpy", "memmove") or len(e.get("args", [])) != 3:
                continue
            src = strip(e["args"][1], all_casts=True)
            n = strip(e["args"][2], all_casts=True)
            if src.get("k") == "un" and src.get("op") == "&" and n.get("k") == "sizeof":
                obj = src["e"]
                OT = f.T(obj.get("t"))
                ST = f.T(n.get("at"))
                if OT.get("k") == "array":
                    continue
                ok = OT.get("sz") == ST.get("sz")
                res.ob("%s:%s" % (f.qn, norm(show(e, f))), ok, f, e.get("l", 0),
                       "" if ok else "copies sizeof(%s)=%s bytes of an object of type %s (%s bytes)" % (ST.get("s"), ST.get("sz"), OT.get("s"), OT.get("sz")))
    return res


def run_inlinecap(prog, ctx=None):
    """INLINECAP: mpt_meta_new() keeps text shorter than its threshold K in the inline store; for every length 0..K-1 the inline
    store's size function, abstractly evaluated with that constant, must accept it (result in [0,255])"""
    res = Result("INLINECAP")
    f = prog.func("mpt_meta_new", "mptcore/meta/meta_new.c")
    g = prog.func("_mpt_geninfo_size")
    if f is None or g is None:
        raise Broken("anchor missing: mpt_meta_new / _mpt_geninfo_size")
    # the branch that sends long text to the buffer store:  len >= K
    K = None
    lenvar = None
    for bid, b in f.blocks.items():
        if b.term and b.term.get("cond") is not None and b.term.get("cls") == "IfStmt":
            c = strip(b.term["cond"], all_casts=True)
            while c.get("k") == "bin" and c.get("op") in ("||", "&&"):
                c = strip(c["a"], all_casts=True)
            if c.get("k") == "bin" and c.get("op") in (">=", ">") and cval(c["b"]) is not None and strip(c["a"], all_casts=True).get("k") == "ref":
                K = cval(c["b"]) + (1 if c["op"] == ">" else 0)
                lenvar = strip(c["a"], all_casts=True)["d"]["n"]
                extra = strip(b.term["cond"], all_casts=True)
                break
    if K is None or K > 4096:
        raise Broken("mpt_meta_new: length threshold of the inline store not found")
    # does the condition also consult the size function? then lengths it refuses go to the buffer store
    consults = any(n.get("k") == "call" and callee_name(n) == "_mpt_geninfo_size" for n in walk(extra))
    bad = []
    for L in range(0, K):
        an = Analysis(prog, g)
        st = an.entry_state()
        st[("v", g.params[0]["id"])] = AV(L + 1, L + 1)
        an.run(state=st)
        r = None
        for (bid, idx), pre in an.pre.items():
            el = g.blocks[bid].el[idx]
            if el.get("k") == "ret" and el.get("e") is not None:
                r = join(r, an.val(bid, idx, el["e"]))
        if r is None or r.lo < 0 or r.hi > 255:
            bad.append((L, r))
    ok = not bad or consults
    res.ob("mpt_meta_new:inline store accepts lengths below %d" % K, ok, f, f.line,
           "" if ok else "text of %d..%d bytes is kept inline (%s < %d) but _mpt_geninfo_size(%s + 1) refuses it (%s): such values cannot be stored at all" % (
               bad[0][0], bad[-1][0], lenvar, K, lenvar, bad[0][1]), {"threshold": K, "refused": [b[0] for b in bad][:8]})
    return res


def run_countfail(prog, ctx=None):
    """COUNTFAIL: a registration that is refused leaves the registry as it was.  In the type registry every raise of an
    entry counter (`<chunk>->used++`, a static count `++n` / `n += ..`) publishes an entry; no path from such a raise
    reaches a `return <negative constant>`."""
    res = Result("COUNTFAIL")
    files = sorted(x for x in prog.by_file if x.startswith("mptcore/types/") and x.endswith(".c"))
    for f in sorted(prog.funcs_in(files), key=lambda f: (f.file, f.line)):
        if f.nocfg:
            continue
        sites = []
        for b, i, e in f.elements():
            for n in walk(e):
                tgt = None
                if n.get("k") == "un" and n.get("op") == "++":
                    tgt = strip(n["e"], lvalue_to_rvalue=False)
                elif n.get("k") == "bin" and n.get("op") == "+=":
                    tgt = strip(n["a"], lvalue_to_rvalue=False)
                elif n.get("k") == "bin" and n.get("op") == "=":
                    # the same raise written out: `count = pos + 1`
                    r = strip(n["b"], all_casts=True)
                    if r.get("k") == "bin" and r.get("op") == "+" and (cval(r["a"]) is not None or cval(r["b"]) is not None) and cval(r) is None:
                        tgt = strip(n["a"], lvalue_to_rvalue=False)
                if tgt is None:
                    continue
                if tgt.get("k") == "mem" and tgt.get("f") in ("used", "_used", "count", "len"):
                    sites.append((b, i, n, show(tgt, f)))
                elif tgt.get("k") == "ref" and tgt["d"].get("dk") == "global":
                    sites.append((b, i, n, show(tgt, f)))
        for b, i, n, what in sites:
            bad = None
            reach = {b.id} | set(f.reachable_from(b.id))
            for x in sorted(reach):
                for k, e in enumerate(f.blocks[x].el):
                    if x == b.id and k <= i:
                        continue
                    if e.get("k") == "ret" and e.get("e") is not None:
                        cv = cval(e["e"])
                        if cv is not None and cv < 0:
                            bad = e
            ok = bad is None
            res.ob("%s:%s" % (f.qn, norm(show(n, f))[:50]), ok, f, n.get("l", f.line),
                   "" if ok else "%s: after raising %s the function can still return %s (line %s): the refused registration stays counted" % (
                       f.qn, what, cval(bad["e"]), bad.get("l")))
            res.count("sites")
    if res.counters.get("sites", 0) < 3:
        raise Broken("COUNTFAIL: only %d counter raises found in the type registry" % res.counters.get("sites", 0))
    return res


def run_sparsezero(prog, ctx=None):
    """SPARSEZERO: a table that is addressed by a computed index (`G[id - base]`, G a file-level pointer) is only partly
    written by its initialiser: the slots of ids that are not registered, and the members the initialiser does not set, are
    read as "nothing here" (null / size 0).  That reading needs zero-filled memory: every allocation assigned to such a table
    is calloc(), or malloc() followed by a memset(G, 0, ..) in the same function."""
    res = Result("SPARSEZERO")
    files = set(ctx.get("files", [])) if ctx else None
    from .rules_path import funcs_of
    fs = funcs_of(prog, files)
    indexed = {}
    for f in fs:
        for b, i, n in f.walk_all():
            if n.get("k") == "idx" and cval(n["i"]) is None:
                a = strip(n["a"], all_casts=True)
                if a.get("k") == "ref" and a["d"].get("dk") == "global" and f.T(a.get("t")).get("k") == "ptr":
                    indexed.setdefault(a["d"]["n"], 0)
                    indexed[a["d"]["n"]] += 1
            if n.get("k") == "bin" and n.get("op") == "+" and cval(n) is None:
                a = strip(n["a"], all_casts=True)
                if a.get("k") == "ref" and a["d"].get("dk") == "global" and f.T(a.get("t")).get("k") == "ptr" and cval(n["b"]) is None:
                    indexed.setdefault(a["d"]["n"], 0)
                    indexed[a["d"]["n"]] += 1
    for f in fs:
        for b, i, n in f.walk_all():
            if not (n.get("k") == "bin" and n.get("op") == "="):
                continue
            l = strip(n["a"], lvalue_to_rvalue=False)
            if not (l.get("k") == "ref" and l["d"].get("dk") == "global" and l["d"]["n"] in indexed):
                continue
            r = strip(n["b"], all_casts=True)
            if not (r.get("k") == "call" and callee_name(r) in ("malloc", "calloc", "realloc")):
                continue
            ok = callee_name(r) == "calloc"
            if not ok:
                for b2, i2, m in f.walk_all():
                    if m.get("k") == "call" and callee_name(m) == "memset" and len(m.get("args", [])) == 3 and cval(m["args"][1]) == 0:
                        a0 = strip(m["args"][0], all_casts=True)
                        if a0.get("k") == "ref" and a0["d"].get("n") == l["d"]["n"]:
                            ok = True
            res.ob("%s:%s = %s()" % (f.qn, l["d"]["n"], callee_name(r)), ok, f, n.get("l", f.line) or f.line,
                   "" if ok else "table %s is addressed by computed index (%d places) and only partly written by its initialiser, but its memory comes from %s() without being cleared: unregistered slots and unset members hold whatever the heap block held" % (
                       l["d"]["n"], indexed[l["d"]["n"]], callee_name(r)))
    return res


def run_stabletable(prog, ctx=None):
    """STABLETABLE: a table whose entries are handed out by address (`return T + i`, `return &T[i]`, T a file-level pointer)
    stays where it is: no realloc() of T anywhere in the file.  Callers keep the addresses (buffers store their traits
    pointer and compare descriptions by address); a table that moves when it grows leaves them pointing into freed memory
    and makes one id resolve to different description objects over time."""
    res = Result("STABLETABLE")
    files = set(ctx.get("files", [])) if ctx else None
    from .rules_path import funcs_of
    fs = funcs_of(prog, files)
    handed = {}
    for f in fs:
        for b, i, e in f.elements():
            if e.get("k") != "ret" or e.get("e") is None:
                continue
            for m in walk(e["e"]):
                g = None
                if m.get("k") == "idx":
                    a = strip(m["a"], all_casts=True)
                    if a.get("k") == "ref" and a["d"].get("dk") == "global":
                        g = a
                elif m.get("k") == "bin" and m.get("op") == "+":
                    a = strip(m["a"], all_casts=True)
                    if a.get("k") == "ref" and a["d"].get("dk") == "global" and f.T(a.get("t")).get("k") == "ptr":
                        g = a
                if g is not None and f.T(e["e"].get("t")).get("k") == "ptr":
                    handed.setdefault(g["d"]["n"], (f, e))
    for name, (hf, he) in sorted(handed.items()):
        bad = None
        for f in fs:
            for b, i, e in f.elements():
                if e.get("k") == "call" and callee_name(e) == "realloc" and e.get("args"):
                    a0 = strip(e["args"][0], all_casts=True)
                    if a0.get("k") == "ref" and a0["d"].get("n") == name:
                        bad = (f, e)
        res.ob("%s:entries of %s handed out by address" % (hf.file, name), bad is None, bad[0] if bad else hf, (bad[1].get("l") if bad else he.get("l")) or hf.line,
               "" if bad is None else "%s() returns addresses of entries of %s (`%s`), and %s() moves the table with `%s`: addresses kept by callers dangle once the table grows" % (
                   hf.name, name, norm(show(he, hf))[:50], bad[0].name, norm(show(bad[1], bad[0]))[:50]))
    return res
