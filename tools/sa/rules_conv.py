"""CONV — scalar converters: exact or refused (property C07), NULLDEST, CTYPEARG, ERANGE.

For every converter reachable through mpt_data_converter() and for the two
numeral back ends (_mpt_convert_int/_uint) every `case K` of the selector switch
is analysed twice with IVAL: destination null (query mode) and non-null.
Obligations per (converter, K):
  O1 positive return == sizeof(ctype(K))
  O2 exactly one store through dest on a successful path with dest non-null; the
     lvalue written has sizeof == sizeof(ctype(K)); the mathematical value of the
     right-hand side (before the implicit conversion of the assignment) lies in
     range(ctype(K)); for floating ctype(K) the source type must be exactly
     representable (else FLOAT-INEXACT)
  O3 no dereference of dest while dest may be null
  O4 every <ctype.h> table index lies in [-128, 255]
  O5 no store through dest on a path that returns an error
  O6 query mode and store mode reach returns of the same sign
"""
from .facts import walk_own, strip, cval, walk, walk_own, show, callee_name, children
from .ival import Analysis, AV, type_range, ctype_test, join, INF
from .core import Result, Broken, norm
from .typemap import TypeMap, idname

STORES = ("p", "stores")


def find_converters(prog):
    """(source id K, converter Func) pairs out of mpt_data_converter's return statements"""
    dc = prog.func("mpt_data_converter")
    if dc is None:
        raise Broken("anchor missing: mpt_data_converter")
    out = []
    for bid, b in dc.blocks.items():
        for e in b.el:
            if e.get("k") != "ret" or e.get("e") is None:
                continue
            r = strip(e["e"], all_casts=True)
            if r.get("k") == "ref" and r["d"].get("dk") == "fn":
                # label of the block (case K) or the guarding if (type == K)
                K = None
                if b.label and b.label.get("k") == "case":
                    K = b.label.get("lo")
                else:
                    for p in b.preds:
                        pb = dc.blocks[p]
                        if pb.term and pb.term.get("cond") is not None and pb.succ and pb.succ[0] == bid:
                            c = pb.term["cond"]
                            if c.get("k") == "bin" and c.get("op") == "==":
                                K = cval(c["b"])
                                if K is None:
                                    K = cval(c["a"])
                fs = prog.by_qn.get(r["d"].get("qn") or r["d"]["n"], [])
                if fs:
                    out.append((K, fs[0], e.get("l")))
    return dc, out


class DestTracker:
    """finds stores / dereferences through the destination pointer and its aliases"""

    def __init__(self, f, dest_id):
        self.f = f
        self.ids = {dest_id}
        changed = True
        while changed:
            changed = False
            for b, i, n in f.walk_all():
                if n.get("k") == "decl":
                    for v in n["vars"]:
                        if v.get("init") is not None and self._is_dest(v["init"]) and v["id"] not in self.ids:
                            self.ids.add(v["id"]); changed = True
                elif n.get("k") == "bin" and n.get("op") == "=":
                    l = strip(n["a"], lvalue_to_rvalue=False)
                    if l.get("k") == "ref" and "id" in l["d"] and self._is_dest(n["b"]) and l["d"]["id"] not in self.ids:
                        self.ids.add(l["d"]["id"]); changed = True

    def _is_dest(self, e):
        e = strip(e, all_casts=True)
        return isinstance(e, dict) and e.get("k") == "ref" and e["d"].get("id") in self.ids

    def deref_base(self, lv):
        """if lvalue lv is *D, D->f, D[i] (D = dest or alias) return the pointer expression D"""
        lv = strip(lv, lvalue_to_rvalue=False)
        if not isinstance(lv, dict):
            return None
        k = lv.get("k")
        if k == "un" and lv.get("op") == "*":
            return lv["e"] if self._is_dest(lv["e"]) else None
        if k == "mem":
            if lv.get("arrow"):
                return lv["b"] if self._is_dest(lv["b"]) else None
            return self.deref_base(lv["b"])
        if k == "idx":
            return lv["a"] if self._is_dest(lv["a"]) else None
        return None

    def derefs(self, e):
        """all (node, pointer expr) dereferencing dest inside tree e"""
        out = []
        for n in walk_own(e):
            k = n.get("k")
            if k == "un" and n.get("op") == "*" and self._is_dest(n["e"]):
                out.append((n, n["e"]))
            elif k == "mem" and n.get("arrow") and self._is_dest(n["b"]):
                out.append((n, n["b"]))
            elif k == "idx" and self._is_dest(n["a"]):
                out.append((n, n["a"]))
        return out

    def stores(self, e):
        out = []
        for n in walk_own(e):
            if n.get("k") == "bin" and n["op"].endswith("=") and n["op"] not in ("==", "!=", "<=", ">="):
                p = self.deref_base(n["a"])
                if p is not None:
                    out.append((n, p))
            elif n.get("k") == "un" and n.get("op") in ("++", "--"):
                p = self.deref_base(n["e"])
                if p is not None:
                    out.append((n, p))
        return out


def raw_rhs(e):
    """right-hand side before the implicit conversion the assignment applies"""
    while isinstance(e, dict) and e.get("k") == "cast" and not e.get("explicit") and e.get("ck") in (
            "IntegralCast", "FloatingToIntegral", "IntegralToFloating", "FloatingCast", "NoOp"):
        e = e["e"]
    return e


def exact_in_float(ST, FT, av):
    """every value of source type ST (restricted to interval av) exactly representable in floating type FT"""
    mant = FT.get("mant", 24)
    if ST.get("k") == "float":
        return ST.get("mant", 64) <= mant
    if ST.get("k") in ("int", "bool", "enum"):
        lim = 1 << mant
        return av.within(-lim, lim)
    return False


def analyse_switch(prog, res, f, sel_idx, dest_idx, src_desc, ctype_of, sizeof_of, tm, family):
    """the per-case obligations for one converter; ctype_of(K) -> C type dict / ('vector', elem) / None"""
    sel_id = f.params[sel_idx]["id"]
    dest_id = f.params[dest_idx]["id"]
    tracker = DestTracker(f, dest_id)
    # the switch on the selector parameter
    sw = None
    for bid, b in f.blocks.items():
        if b.term and b.term.get("cls") == "SwitchStmt":
            c = strip(b.term.get("cond"), all_casts=True)
            if isinstance(c, dict) and c.get("k") == "ref" and c["d"].get("id") == sel_id:
                sw = b
    if sw is None:
        raise Broken("converter %s has no switch over its type selector" % f.qn)
    base = Analysis(prog, f).run()
    cases = []
    for si, s in enumerate(sw.succ):
        if s is None:
            continue
        lab = f.blocks[s].label
        if lab and lab.get("k") == "case" and "lo" in lab:
            cases.append((lab["lo"], s, si))
    res.count("converters")
    seen_cases = set()
    for K, start, si in sorted(cases):
        if K in seen_cases:
            continue
        seen_cases.add(K)
        res.count("cases")
        T = ctype_of(K)
        kname = "%s:case %s" % (f.qn, idname(K) if family == "data" else str(K))
        st0 = base.edge_out.get((sw.id, si))
        if st0 is None:
            continue   # case unreachable
        signs = {}
        for mode in ("query", "store"):
            st = dict(st0)
            dkey = ("v", dest_id)
            st[dkey] = AV(0, 0) if mode == "query" else AV(1, (1 << 64) - 1)
            st[STORES] = AV(0, 0)
            store_sites = []
            deref_bad = []

            def hook(an, b, i, el, state, store_sites=store_sites):
                ss = tracker.stores(el)
                if ss:
                    old = state.get(STORES, AV(0, 0))
                    n_new = len(ss)
                    state[STORES] = AV(old.lo + n_new, old.hi + n_new)

            an = Analysis(prog, f, hook=hook)
            # composite (record) stores: count once per analysis path via block-level marker
            an.run(start=start, state=st)
            sset = set()
            for (bid, idx), pre in sorted(an.pre.items()):
                el = f.blocks[bid].el[idx]
                # O3: dereference with dest possibly null
                for node, p in tracker.derefs(el):
                    pv = an.ev(p, dict(pre), True)
                    if pv.contains(0):
                        deref_bad.append((el, node, pv))
                # O4 ctype arguments
                if mode == "store":
                    for n in walk_own(el):
                        ct = ctype_test(n)
                        if ct is not None:
                            arg, mask = ct
                            av = an.ev(arg, dict(pre), True)
                            ok = av.within(-128, 255)
                            res.ob("%s:ctype-arg:%s" % (kname, norm(show(arg, f))), ok, f, n.get("l", 0),
                                   "" if ok else "<ctype.h> classification table indexed with %s (domain [-128,255])" % av,
                                   {"interval": av.tojson()})
                # stores
                if mode == "store":
                    for node, p in tracker.stores(el):
                        store_sites.append((bid, idx, node, dict(pre)))
                # returns
                if el.get("k") == "ret" and el.get("e") is not None:
                    rv = an.val(bid, idx, el["e"])
                    nst = pre.get(STORES, AV(0, 0))
                    # a return that is not a constant (consumed length `end - src`) is a success return
                    sgn = "pos" if (rv.lo > 0 or not rv.is_const()) else ("neg" if rv.hi < 0 else "zero")
                    sset.add(sgn)
                    rkey = "%s:return %s" % (kname, norm(show(el["e"], f)))
                    if mode == "store":
                        if sgn == "pos" and sizeof_of is not None and T is not None:
                            want = sizeof_of(K, T)
                            if want is not None:
                                ok = rv.is_const() and rv.lo == want
                                res.ob(rkey + ":size", ok, f, el.get("l", 0),
                                       "" if ok else "success reports size %s, target type %s has size %d" % (rv, tdesc(T), want),
                                       {"returned": rv.tojson(), "expected": want})
                        if sgn == "pos":
                            # record stores (iovec) are counted through the field checks below
                            composite = T is not None and isinstance(T, tuple)
                            want = 2 if composite else 1     # struct iovec: base and length
                            ok = nst.lo == want and nst.hi == want
                            res.ob(rkey + ":one-store", ok, f, el.get("l", 0),
                                   "" if ok else "successful conversion with destination stores %s time(s) through it (expected %d)" % (nst, want),
                                   {"stores": nst.tojson()})
                        if sgn == "neg":
                            ok = nst.hi == 0
                            res.ob(rkey + ":no-store-on-error", ok, f, el.get("l", 0),
                                   "" if ok else "error return after %s store(s) through the destination" % nst,
                                   {"stores": nst.tojson()})
            signs[mode] = sset
            if mode == "query":
                seen = set()
                for el, node, pv in deref_bad:
                    key = "%s:nulldest:%s" % (kname, norm(show(node, f)))
                    if key in seen:
                        continue
                    seen.add(key)
                    res.ob(key, False, f, node.get("l", 0),
                           "destination dereferenced in query mode (dest == NULL): %s" % norm(show(el, f)), {"dest": pv.tojson()})
                if not deref_bad:
                    res.ob("%s:nulldest" % kname, True, f, f.blocks[start].el[0].get("l", 0) if f.blocks[start].el else f.line)
            else:
                check_stores(prog, res, f, an, K, T, kname, store_sites, tm, src_desc)
        # O6 verdict agreement
        a, b = signs.get("query", set()), signs.get("store", set())
        ok = (("pos" in a) == ("pos" in b)) and (("neg" in a) == ("neg" in b))
        # identical only matters when value-dependent refusals exist in both; compare reachable sign sets
        res.ob("%s:same-verdict" % kname, ok, f, f.blocks[start].el[0].get("l", 0) if f.blocks[start].el else f.line,
               "" if ok else "query mode reaches %s, store mode reaches %s" % (sorted(a), sorted(b)),
               {"query": sorted(a), "store": sorted(b)})


def tdesc(T):
    if T is None:
        return "?"
    if isinstance(T, tuple):
        return "vector of " + T[1].get("s", "?")
    return T.get("s", "?")


def check_stores(prog, res, f, an, K, T, kname, store_sites, tm, src_desc):
    for bid, idx, node, pre in store_sites:
        if node.get("k") != "bin":
            res.ob("%s:store:%s" % (kname, norm(show(node, f))), False, f, node.get("l", 0), "increment through destination")
            continue
        lv = strip(node["a"], lvalue_to_rvalue=False)
        X = f.T(lv.get("t"))
        key = "%s:store:%s" % (kname, norm(show(node, f)))
        if isinstance(T, tuple):
            # vector: fields of struct iovec
            if lv.get("k") == "mem" and lv.get("rec") == "iovec":
                if lv["f"] == "iov_len":
                    v = an.ev(node["b"], dict(pre), True)
                    want = T[1].get("sz")
                    ok = v.is_const() and v.lo == want
                    res.ob(key, ok, f, node.get("l", 0), "" if ok else "vector length %s for element type %s (size %s)" % (v, T[1].get("s"), want))
                else:
                    src = strip(node["b"], all_casts=True)
                    ok = src.get("k") == "ref" and src["d"].get("dk") == "param"
                    res.ob(key, ok, f, node.get("l", 0), "" if ok else "vector base is not the source pointer")
            else:
                res.ob(key, False, f, node.get("l", 0), "vector case stores through %s, not struct iovec" % X.get("s"))
            continue
        if T is None:
            # id without a registered C type ('h' in the uint16 converter): not a built-in scalar, nothing to compare with
            res.notes.append("%s: case id has no C type in the registry tables; store %s not judged" % (kname, norm(show(node, f))))
            continue
        if X.get("sz") != T.get("sz"):
            res.ob(key, False, f, node.get("l", 0), "stores %d bytes (%s) for target type %s of %d bytes" % (X.get("sz", 0), X.get("s"), T.get("s"), T.get("sz", 0)),
                   {"lvalue": X.get("s"), "target": T.get("s")})
            continue
        if (X.get("k") == "float") != (T.get("k") == "float"):
            res.ob(key, False, f, node.get("l", 0), "stores as %s for target type %s" % (X.get("s"), T.get("s")))
            continue
        rhs = raw_rhs(node["b"])
        v = an.ev(rhs, dict(pre), True)
        RT = f.T(rhs.get("t"))
        if T.get("k") == "float":
            ok = exact_in_float(RT, T, v)
            res.ob(key.replace(":store:", ":float-exact:"), ok, f, node.get("l", 0),
                   "" if ok else "FLOAT-INEXACT: %s value %s stored as %s (%d mantissa bits) without exactness test" % (RT.get("s"), v, T.get("s"), T.get("mant", 0)),
                   {"value": v.tojson(), "source": RT.get("s"), "target": T.get("s")})
        else:
            r = type_range(T)
            ok = v.within(r.lo, r.hi)
            res.ob(key, ok, f, node.get("l", 0),
                   "" if ok else "value %s may leave range %s of %s" % (v, r, T.get("s")),
                   {"value": v.tojson(), "range": r.tojson(), "target": T.get("s")})


def run(prog, ctx=None):
    res = Result("CONV")
    tm = TypeMap(prog)
    dc, convs = find_converters(prog)
    done = set()
    for K, f, line in convs:
        if f.key() in done or len(f.params) != 3:
            continue
        ST = f.T(f.pointee(f.params[0]["t"]))
        if ST.get("k") not in ("int", "float"):
            continue     # interface / array wrappers are handled by REFREPLACE / CONVTYPE
        done.add(f.key())

        def ctype_of(k):
            t = tm.ctype(k)
            if t is not None:
                return t
            ve = tm.vector_elem(k)
            if ve is not None:
                return ("vector", ve)
            return None

        def sizeof_of(k, T):
            if T is None:
                return None
            if isinstance(T, tuple):
                return tm.iovec_size
            return T.get("sz")

        analyse_switch(prog, res, f, 1, 2, ST, ctype_of, sizeof_of, tm, "data")
    if res.counters.get("converters", 0) < 1:
        raise Broken("no scalar converter found behind mpt_data_converter")

    # numeral back ends: selector = byte width, target type from the callers' destination objects
    for name in ("_mpt_convert_int", "_mpt_convert_uint"):
        f = prog.func(name)
        if f is None:
            raise Broken("anchor missing: " + name)
        width_types = {}
        for g in prog.functions.values():
            for b, i, n in g.walk_all():
                if n.get("k") == "call" and callee_name(n) == name and len(n.get("args", [])) >= 2:
                    w = cval(n["args"][1])
                    a0 = strip(n["args"][0], all_casts=True)
                    if a0.get("k") == "un" and a0.get("op") == "&":
                        t = g.T(a0["e"].get("t"))
                        if w is not None and t.get("k") == "int":
                            width_types.setdefault(w, []).append((t, g))
        if not width_types:
            raise Broken("no caller of %s found" % name)

        def ctype_of(k, width_types=width_types):
            ts = width_types.get(k)
            if not ts:
                return None
            # all callers of one width must agree on signedness
            sg = {t.get("signed") for t, _ in ts}
            if len(sg) != 1:
                return None
            return ts[0][0]

        analyse_switch(prog, res, f, 1, 0, None, ctype_of, None, tm, "numeral")
    return res


def run_erange(prog, ctx=None):
    """ERANGE: after strto*() a success return is reachable only through a test of errno"""
    res = Result("ERANGE")
    names = {"strtoimax", "strtoumax", "strtod", "strtof", "strtold", "strtol", "strtoul", "strtoll", "strtoull"}
    files = ctx["scope_files"] if ctx and ctx.get("scope_files") else None
    for f in prog.functions.values():
        if f.nocfg:
            continue
        calls = []
        for b, i, e in f.elements():
            if e.get("k") == "call" and callee_name(e) in names:
                calls.append((b, i, e))
        if not calls:
            continue
        # blocks whose branch condition reads errno
        tests = set()
        for bid, b in f.blocks.items():
            if b.term and b.term.get("cond") is not None:
                for n in walk(b.term["cond"]):
                    if n.get("k") == "call" and callee_name(n) == "__errno_location":
                        tests.add(bid)
        # typestate with trace partitioning: "0" no conversion yet, "C" converted and errno not looked at, "T" errno was looked at
        # and did not say ERANGE (or was tested in another way), "R" the edge on which errno == ERANGE holds
        from .ival import Summaries
        PK = Analysis.PK
        call_sids = {e.get("sid") for b, i, e in calls}

        def hook(an, blk, idx, el, st, call_sids=call_sids):
            if el.get("k") == "call" and el.get("sid") in call_sids:
                st[PK] = "C"

        def edge_hook(an, blk, cond, truth, st):
            if not any(n.get("k") == "call" and callee_name(n) == "__errno_location" for n in walk(cond)):
                return
            c = strip(cond, all_casts=True)
            neg = False
            while c.get("k") == "un" and c.get("op") == "!":
                neg = not neg
                c = strip(c["e"], all_casts=True)
            if c.get("k") == "bin" and c.get("op") in ("==", "!=") and (cval(c["a"]) == 34 or cval(c["b"]) == 34):
                is_range = truth != neg if c["op"] == "==" else truth == neg
                st[PK] = "R" if is_range else "T"
            else:
                st[PK] = "T"

        try:
            sm = Summaries(prog)
        except Exception:
            sm = None
        an = Analysis(prog, f, hook=hook, edge_hook=edge_hook, summaries=sm)
        st0 = an.entry_state()
        st0[PK] = "0"
        an.run(state=st0)
        bad_c = bad_r = None
        for (bid, idx), parts in an.pre_parts.items():
            el = f.blocks[bid].el[idx]
            if el.get("k") != "ret" or el.get("e") is None:
                continue
            for pk, stp in parts.items():
                if pk not in ("C", "R"):
                    continue
                rv = an.ev(el["e"], dict(stp), True, el)
                if rv is not None and rv.hi > 0:
                    if pk == "C":
                        bad_c = el
                    else:
                        bad_r = el
        for b, i, e in calls:
            ok = bad_c is None
            res.ob("%s:%s" % (f.qn, callee_name(e)), ok, f, e.get("l", 0),
                   "" if ok else "result of %s() reaches a success return (line %s) without any test of errno: out-of-range numerals saturate silently" % (callee_name(e), bad_c.get("l")),
                   {"call": norm(show(e, f))})
            res.count("strto_calls")
        # the test reads what the conversion left in errno: errno is set to zero before the call (the C library only ever
        # sets it), and nothing stores to errno on the way from the call to the test
        estores = []
        for b2, i2, e2 in f.elements():
            for n2 in walk_own(e2):
                if n2.get("k") == "bin" and n2.get("op", "").endswith("=") and n2["op"] not in ("==", "!=", "<=", ">="):
                    l2 = strip(n2["a"], lvalue_to_rvalue=False)
                    if l2.get("k") == "un" and l2.get("op") == "*" and any(m.get("k") == "call" and callee_name(m) == "__errno_location" for m in walk(l2["e"])):
                        estores.append((b2, i2, n2))
        dom = f.dominators()
        for b, i, e in calls:
            if not tests:
                continue
            zero = [(sb, si, sn) for sb, si, sn in estores if cval(sn["b"]) == 0 and sn["op"] == "=" and ((sb.id == b.id and si < i) or (sb.id != b.id and sb.id in dom[b.id]))]
            ok = bool(zero)
            res.ob("%s:%s:errno cleared" % (f.qn, callee_name(e)), ok, f, e.get("l", 0),
                   "" if ok else "errno is not set to zero before %s(): a range error left over from earlier calls is taken for one of this conversion" % callee_name(e))
            bad = None
            after = f.reachable_from(b.id, avoid=tests)
            for sb, si, sn in estores:
                if (sb.id == b.id and si > i) or (sb.id != b.id and sb.id in after):
                    # a store on the way to a test (not one on the error exit behind it)
                    if any(t == sb.id or t in f.reachable_from(sb.id) for t in tests):
                        bad = sn
            ok = bad is None
            res.ob("%s:%s:errno kept until tested" % (f.qn, callee_name(e)), ok, f, (bad.get("l") if bad else e.get("l", 0)) or f.line,
                   "" if ok else "`%s` overwrites errno between %s() and the test that reads it: the test no longer sees the range error of the conversion" % (norm(show(bad, f)), callee_name(e)))
        # the range error alone decides: on the edge on which errno equals ERANGE no return answers success (a second condition
        # joined to the test - only overflow, only some values - lets part of the unrepresentable numerals through)
        if any(True for bid in tests):
            for bid in sorted(tests):
                blk = f.blocks[bid]
                c = strip(blk.term["cond"], all_casts=True)
                if not (c.get("k") == "bin" and c.get("op") in ("==", "!=") and (cval(c["a"]) == 34 or cval(c["b"]) == 34)):
                    continue
                ok = bad_r is None
                res.ob("%s:errno-test-decides" % f.qn, ok, f, blk.term.get("l", f.line),
                       "" if ok else "after `%s` held, a success return (line %s) is still reached: the range error of the C library is not refused on its own" % (
                           norm(show(c, f))[:40], bad_r.get("l")))
    return res


CONVERTERS = ("mpt_value_convert", "mpt_data_convert", "mpt_convert_number", "mpt_convert_string", "mpt_cdouble", "mpt_cfloat", "mpt_cldouble")


def run_convboth(prog, ctx=None):
    """CONVBOTH: asking whether a conversion is possible (no destination) gives the verdict of performing it.  In a function
    that takes the caller's destination D (a pointer it tests for null) and delegates to a converter, the converter also
    runs on the paths where D is null: if every converter call is reached with D non-null only, while a path with D null
    reaches a return that is not an error constant, the no-destination query answers without converting."""
    from .rules_path import null_partitioned, tested_pointers, funcs_of
    res = Result("CONVBOTH")
    files = set(ctx.get("files", [])) if ctx else None
    for f in funcs_of(prog, files):
        calls = []
        for b, i, e in f.elements():
            if e.get("k") == "call":
                nm = callee_name(e) or ""
                ce = strip(e["callee"], all_casts=True) if e.get("callee") is not None else {}
                if nm in CONVERTERS or (ce.get("k") == "mem" and ce.get("f") == "convert"):
                    calls.append((b, i, e))
        if not calls:
            continue
        tv = sorted(tested_pointers(f))
        pids = {p["id"]: p["n"] for p in f.params if f.T(p["t"]).get("k") == "ptr" and f.T(f.T(p["t"]).get("to")).get("k") in ("void", "int") and not f.T(f.T(p["t"]).get("to")).get("const")}
        cand = [(k, vid) for k, vid in enumerate(tv) if vid in pids]
        if not cand:
            continue
        an = null_partitioned(prog, f)
        PK = an.PK
        for k, vid in cand:
            at_calls = set()
            for b, i, e in calls:
                for key in an.pre_parts.get((b.id, i), {}):
                    at_calls.add(key[k] if isinstance(key, str) and len(key) > k else "?")
            if not at_calls or at_calls != {"P"}:
                res.ob("%s:%s" % (f.qn, pids[vid]), True, f, f.line)
                continue
            # is there a return that is not an error constant with D null?
            quiet = None
            for b, i, e in f.elements():
                if e.get("k") == "ret" and e.get("e") is not None:
                    cv = cval(e["e"])
                    if cv is not None and cv < 0:
                        continue
                    for key in an.pre_parts.get((b.id, i), {}):
                        if isinstance(key, str) and len(key) > k and key[k] == "N":
                            quiet = e
            ok = quiet is None
            res.ob("%s:%s" % (f.qn, pids[vid]), ok, f, (quiet or {}).get("l", f.line),
                   "" if ok else "%s: every converter call runs only when `%s` is non-null, but with `%s` null the function reaches `%s` (line %s): the query without destination is answered without converting" % (
                       f.qn, pids[vid], pids[vid], norm(show(quiet, f))[:40], quiet.get("l")))
    return res


UNSIGNED_PARSERS = ("strtoul", "strtoull", "strtoumax", "strtouq")


def run_unsignedtext(prog, ctx=None):
    """UNSIGNEDTEXT: the C library's unsigned parsers (strtoul, strtoull, strtoumax) accept a minus sign and return the negated
    value in unsigned arithmetic without any error ("-1" gives UINTMAX_MAX).  A function that delivers their result as the
    number the text denotes looks at the text for a '-' itself: a comparison of a character with '-' or a search for it
    (strchr/memchr with '-') in the function that makes the call."""
    res = Result("UNSIGNEDTEXT")
    n = 0
    for f in sorted(prog.functions.values(), key=lambda f: (f.file, f.line, f.qn)):
        if f.nocfg or f.file.startswith("examples/"):
            continue
        calls = [e for b, i, e in f.elements() if e.get("k") == "call" and (callee_name(e) or "") in UNSIGNED_PARSERS]
        if not calls:
            continue
        looks = False
        for b, i, nn in f.walk_all():
            if nn.get("k") == "bin" and nn.get("op") in ("==", "!=") and (cval(nn["a"]) == 45 or cval(nn["b"]) == 45):
                looks = True
            if nn.get("k") == "call" and (callee_name(nn) or "") in ("strchr", "memchr", "strrchr", "index") and len(nn.get("args", [])) > 1 and cval(nn["args"][1]) == 45:
                looks = True
        for bid, blk in f.blocks.items():
            lab = blk.label
            if lab and lab.get("k") == "case" and lab.get("lo") == 45:
                looks = True
        # the character that is looked at is the one the parser starts with: a pointer tested as `*p == '-'` is not moved
        # between that test and the call (a test in front of the skipping of blanks looks at the wrong character)
        tests = []
        for bid, blk in f.blocks.items():
            conds = []
            if blk.term and blk.term.get("cond") is not None:
                conds.append((len(blk.el), blk.term["cond"]))
            for nn_i, el in enumerate(blk.el):
                conds.append((nn_i, el))
            for pos, root in conds:
                for nn in walk(root):
                    if nn.get("k") == "bin" and nn.get("op") in ("==", "!=") and (cval(nn["a"]) == 45 or cval(nn["b"]) == 45):
                        side = nn["b"] if cval(nn["a"]) == 45 else nn["a"]
                        d = strip(side, all_casts=True)
                        if d.get("k") == "un" and d.get("op") == "*":
                            pv = strip(d["e"], all_casts=True)
                            if pv.get("k") == "ref" and "id" in pv["d"]:
                                tests.append((bid, pos, pv["d"]["id"], pv["d"]["n"], nn))
        moved = None
        for tb, tpos, vid, vn, tn in tests:
            mods = []
            for b2, i2, e2 in f.elements():
                for m in walk_own(e2):
                    tgt = None
                    if m.get("k") == "un" and m.get("op") in ("++", "--"):
                        tgt = m["e"]
                    elif m.get("k") == "bin" and m.get("op") in ("+=", "-=", "="):
                        tgt = m["a"]
                    if tgt is not None:
                        t2 = strip(tgt, lvalue_to_rvalue=False)
                        if t2.get("k") == "ref" and t2["d"].get("id") == vid:
                            mods.append((b2.id, i2, m))
            for cb, ci, ce in [(b3.id, i3, e3) for b3, i3, e3 in f.elements() if e3 in calls]:
                for mb, mi, m in mods:
                    after_test = (mb == tb and mi > tpos and not (cb == tb and ci < mi)) or (mb != tb and mb in f.reachable_from(tb))
                    before_call = (mb == cb and mi < ci) or (mb != cb and cb in f.reachable_from(mb))
                    if after_test and before_call and not (mb == tb and mi <= tpos):
                        moved = (vn, m, tn)
        for c in calls:
            n += 1
            if looks and moved is not None:
                res.ob("%s:%s" % (f.qn, norm(show(c, f))[:50]), False, f, moved[1].get("l", f.line) or f.line,
                       "%s: `%s` looks for the minus sign, but `%s` moves %s between that test and %s(): the character tested is not the one the parser starts with (blanks in front of a '-' get past the test)" % (
                           f.qn, norm(show(moved[2], f)), norm(show(moved[1], f)), moved[0], callee_name(c)))
                continue
            res.ob("%s:%s" % (f.qn, norm(show(c, f))[:50]), looks, f, c.get("l", f.line),
                   "" if looks else "%s: %s() parses the text as unsigned: it accepts a leading '-' and returns the negated value modulo 2^N without an error, "
                                    "and nothing in this function looks for a '-': negative text is delivered as a large positive number" % (f.qn, callee_name(c)))
    if not n:
        raise Broken("UNSIGNEDTEXT: no call of an unsigned text parser found")
    return res
