"""Obligations, rule results and the shared analysis context."""
import re
from .facts import show


class Ob:
    """one obligation a rule enumerated; ok=False makes it a finding"""
    __slots__ = ("rule", "key", "ok", "file", "line", "func", "msg", "detail")

    def __init__(self, rule, key, ok, file="", line=0, func="", msg="", detail=None):
        self.rule = rule
        self.key = key
        self.ok = ok
        self.file = file
        self.line = line
        self.func = func
        self.msg = msg
        self.detail = detail or {}

    def tojson(self):
        d = {"rule": self.rule, "key": self.key, "verdict": "discharged" if self.ok else "VIOLATED",
             "at": "%s:%s" % (self.file, self.line), "function": self.func}
        if self.msg:
            d["what"] = self.msg
        if self.detail:
            d["detail"] = self.detail
        return d


class Broken(Exception):
    """anchor vanished / rule matched nothing: the analysis cannot give a verdict"""


class Result:
    def __init__(self, rule):
        self.rule = rule
        self.obs = []
        self.notes = []
        self.counters = {}

    def ob(self, key, ok, f=None, line=0, msg="", detail=None, file=None):
        o = Ob(self.rule, "%s:%s" % (self.rule, key), ok,
               file=(file if file is not None else (f.file if f is not None else "")), line=line,
               func=(f.qn if f is not None else ""), msg=msg, detail=detail)
        self.obs.append(o)
        return o

    def count(self, name, n=1):
        self.counters[name] = self.counters.get(name, 0) + n


def norm(s):
    """normalised expression text for construct keys"""
    return re.sub(r"\s+", " ", s).strip()


def need(x, what):
    if x is None or x == [] or x == {}:
        raise Broken("anchor missing: " + what)
    return x
