"""ERRFX — refusals leave the object unchanged.

On every path of a listed API function that ends in an *error return* no store
into the protected object happened — unless the failure was only discovered
after the store (a call made after the store decides the error: allocation,
element constructor, transport).  Paths are kept apart by trace partitioning on
(set of store sites passed, calls made since the first store), so the verdict
is per path class, not per join.
"""
from .facts import strip, cval, walk, show, callee_name, children
from .ival import Analysis, AV, Summaries, join
from .core import Result, Broken, norm

PURE_CALLS = {"strlen", "strcmp", "strncmp", "strcasecmp", "strncasecmp", "memcmp", "strchr", "strrchr", "memchr", "isspace", "isdigit",
              "isalpha", "isalnum", "isupper", "islower", "isgraph", "isprint", "tolower", "toupper", "strspn", "strcspn", "strstr"}
ALLOC_CALLS = {"malloc", "calloc", "realloc", "strdup", "strndup", "mpt_array_reserve", "mpt_array_append", "mpt_array_slice", "mpt_array_insert"}
MEMWRITE = {"memcpy": 0, "memmove": 0, "memset": 0, "strcpy": 0, "strncpy": 0}


def root_of(e):
    """variable id / 'this' at the root of an lvalue or pointer expression (through ->, ., *, [], casts, +)"""
    cur = e
    for _ in range(40):
        cur = strip(cur, all_casts=True)
        if not isinstance(cur, dict):
            return None
        k = cur.get("k")
        if k == "ref":
            return cur["d"].get("id")
        if k == "this":
            return 0
        if k == "mem":
            cur = cur["b"]
        elif k == "un" and cur.get("op") in ("*", "&"):
            cur = cur["e"]
        elif k == "idx":
            cur = cur["a"]
        elif k == "bin" and cur.get("op") in ("+", "-"):
            cur = cur["a"]
        elif k == "cast":
            cur = cur["e"]
        else:
            return None
    return None


def is_deref_store(lv):
    """lvalue writes memory reachable from a pointer (not just a local variable)"""
    l = strip(lv, lvalue_to_rvalue=False)
    if not isinstance(l, dict):
        return False
    k = l.get("k")
    if k == "mem":
        return True if l.get("arrow") else is_deref_store(l["b"])
    if k == "un" and l.get("op") == "*":
        return True
    if k == "idx":
        return True
    if k == "cast":
        return is_deref_store(l["e"])
    return False


def param_writers(prog):
    """{function key: set of parameter positions} through which the function stores (itself or through callees); cached"""
    wr = getattr(prog, "_param_writers", None)
    if wr is not None:
        return wr
    fs = [f for f in prog.functions.values() if not f.nocfg]
    wr = {}
    for f in fs:
        pos = {p["id"]: j for j, p in enumerate(f.params)}
        for b, i, n in f.walk_all():
            tgt = None
            if n.get("k") == "bin" and n.get("op", "").endswith("=") and n["op"] not in ("==", "!=", "<=", ">="):
                tgt = n["a"]
            elif n.get("k") == "un" and n.get("op") in ("++", "--"):
                tgt = n["e"]
            if tgt is not None and is_deref_store(tgt):
                r = root_of(tgt)
                if r in pos:
                    wr.setdefault(f.key(), set()).add(pos[r])
            if n.get("k") == "call" and callee_name(n) in MEMWRITE and n.get("args"):
                r = root_of(n["args"][MEMWRITE[callee_name(n)]])
                if r in pos:
                    wr.setdefault(f.key(), set()).add(pos[r])
    changed = True
    while changed:
        changed = False
        for f in fs:
            pos = {p["id"]: j for j, p in enumerate(f.params)}
            if not pos:
                continue
            for b, i, e in f.elements():
                if e.get("k") != "call":
                    continue
                for g in prog.resolve_call(f, e):
                    for j in wr.get(g.key(), ()):
                        if j < len(e.get("args", [])):
                            r = root_of(e["args"][j])
                            if r in pos and f.T(strip(e["args"][j], all_casts=True).get("t")).get("k") == "ptr" and pos[r] not in wr.get(f.key(), set()):
                                wr.setdefault(f.key(), set()).add(pos[r])
                                changed = True
    prog._param_writers = wr
    return wr


class Protected:
    """which variables point into the protected object: the object parameters and locals derived from them"""

    def __init__(self, f, obj_ids, by_value_ok=False, prog=None):
        self.f = f
        self.prog = prog
        self.ids = set(obj_ids)
        changed = True
        while changed:
            changed = False
            for b, i, n in f.walk_all():
                if n.get("k") == "decl":
                    for v in n["vars"]:
                        if v.get("init") is not None and v["id"] not in self.ids and self._ptr_into(v["init"], f.T(v["t"])):
                            self.ids.add(v["id"]); changed = True
                elif n.get("k") == "bin" and n.get("op") == "=":
                    l = strip(n["a"], lvalue_to_rvalue=False)
                    if l.get("k") == "ref" and "id" in l["d"] and l["d"]["id"] not in self.ids and l["d"].get("dk") in ("local", "param") \
                            and self._ptr_into(n["b"], f.T(l.get("t"))):
                        self.ids.add(l["d"]["id"]); changed = True

    def _ptr_into(self, e, T):
        if T.get("k") not in ("ptr",):
            return False
        if cval(e) is not None:
            return False
        r = root_of(e)
        if r is None or r not in self.ids:
            return False
        # a value *loaded* from the object that is a call result is not the object (x = f(obj))
        s = strip(e, all_casts=True)
        if s.get("k") == "call":
            return False
        return True

    def _restore_vars(self):
        """locals that only ever receive the value of one field (or 0): writing them back to that field restores it"""
        rv = getattr(self, "_rv", None)
        if rv is not None:
            return rv
        rv, bad = {}, set()
        for b, i, n in self.f.walk_all():
            pairs = []
            if n.get("k") == "bin" and n["op"].endswith("=") and n["op"] not in ("==", "!=", "<=", ">="):
                l = strip(n["a"], lvalue_to_rvalue=False)
                if l.get("k") == "ref" and "id" in l["d"]:
                    pairs.append((l["d"]["id"], n["b"], n["op"]))
            elif n.get("k") == "decl":
                for v in n["vars"]:
                    if v.get("init") is not None:
                        pairs.append((v["id"], v["init"], "="))
            elif n.get("k") == "un" and n.get("op") in ("++", "--"):
                l = strip(n["e"], lvalue_to_rvalue=False)
                if l.get("k") == "ref" and "id" in l["d"]:
                    bad.add(l["d"]["id"])
            for vid, rhs, op in pairs:
                r = strip(rhs, all_casts=True)
                arms = [strip(r["a"], all_casts=True), strip(r["b"], all_casts=True)] if r.get("k") == "cond" else [r]
                flds = {a.get("f") for a in arms if a.get("k") == "mem"}
                if op == "=" and len(flds) <= 1 and all(a.get("k") == "mem" or cval(a) == 0 for a in arms):
                    if flds and rv.setdefault(vid, list(flds)[0]) != list(flds)[0]:
                        bad.add(vid)
                    elif not flds:
                        rv.setdefault(vid, None)
                else:
                    bad.add(vid)
        self._rv = {k: v for k, v in rv.items() if k not in bad and v is not None}
        return self._rv

    def _used_calls(self):
        """sids of calls whose result is looked at (they occur inside another element or a branch condition)"""
        u = getattr(self, "_uc", None)
        if u is None:
            u = set()
            for b in self.f.blocks.values():
                roots = list(b.el)
                if b.term and b.term.get("cond") is not None:
                    roots.append({"k": "cond-root", "e": b.term["cond"]})
                    for m in walk(b.term["cond"]):
                        if m.get("k") == "call" and "sid" in m:
                            u.add(m["sid"])
                for e in b.el:
                    for m in walk(e):
                        if m is not e and m.get("k") == "call" and "sid" in m:
                            u.add(m["sid"])
            self._uc = u
        return u

    def store_sites(self, el):
        """(node, description) for stores into the protected object inside element el"""
        out = []
        for n in walk(el):
            k = n.get("k")
            if k == "bin" and n["op"].endswith("=") and n["op"] not in ("==", "!=", "<=", ">="):
                if is_deref_store(n["a"]) and root_of(n["a"]) in self.ids:
                    l = strip(n["a"], lvalue_to_rvalue=False)
                    v = strip(n["b"], all_casts=True)
                    if n["op"] == "=" and l.get("k") == "mem" and v.get("k") == "ref" and self._restore_vars().get(v["d"].get("id")) == l.get("f"):
                        continue      # restore idiom: puts back the value read from this field before the failed step
                    out.append(n)
            elif k == "un" and n.get("op") in ("++", "--"):
                if is_deref_store(n["e"]) and root_of(n["e"]) in self.ids:
                    out.append(n)
            elif k == "call" and callee_name(n) in MEMWRITE and n.get("args"):
                if root_of(n["args"][MEMWRITE[callee_name(n)]]) in self.ids:
                    out.append(n)
            elif k == "call" and self.prog is not None and n.get("fn") and n.get("args"):
                # a callee that writes through the pointer it is handed and has no way to refuse: an unconditional store
                wr = param_writers(self.prog)
                for g in self.prog.resolve_call(self.f, n):
                    if g.nocfg or (_can_fail(g) and n.get("sid") in self._used_calls()):
                        continue          # a refusal of the callee that the function looks at is a failure discovered later
                    for j in wr.get(g.key(), ()):
                        if j < len(n["args"]) and root_of(n["args"][j]) in self.ids and self.f.T(strip(n["args"][j], all_casts=True).get("t")).get("k") == "ptr":
                            out.append(n)
                            break
                    else:
                        continue
                    break
        return out


def return_cases(an, f):
    """(return element, value expr, [(pk, state)]) — conditional returns are split into their arms"""
    out = []
    sid_pos = {}
    for (bid, idx) in an.pre_parts:
        el = f.blocks[bid].el[idx]
        if "sid" in el:
            sid_pos[el["sid"]] = (bid, idx)
    for (bid, idx), parts in an.pre_parts.items():
        el = f.blocks[bid].el[idx]
        if el.get("k") != "ret":
            continue
        e = el.get("e")
        if e is None:
            continue
        c = strip(e, all_casts=True)
        if c.get("k") == "cond" and all("sid" in strip(c[x], all_casts=True) or "sid" in c[x] for x in ("a", "b")):
            for arm in ("a", "b"):
                a = c[arm]
                sid = a.get("sid", strip(a, all_casts=True).get("sid"))
                pos = sid_pos.get(sid)
                if pos is None:
                    continue
                out.append((el, a, pos, list(an.pre_parts[pos].items())))
        elif c.get("k") == "cond" and cval(c) is None and any(cval(c[x]) is not None for x in ("a", "b")):
            # `return test ? CONSTANT : other`: each arm is a return of its own (an error constant behind a store is a refusal
            # behind a store, whatever the other arm answers); the states are those of the return element
            for arm in ("a", "b"):
                out.append((el, c[arm], (bid, idx), list(parts.items())))
        else:
            out.append((el, e, (bid, idx), list(parts.items())))
    return out


def call_assigned_vars(f):
    """variable id -> sids of calls whose result is assigned to it"""
    m = {}
    for b, i, n in f.walk_all():
        tgt = None
        rhs = None
        if n.get("k") == "bin" and n.get("op") == "=":
            l = strip(n["a"], lvalue_to_rvalue=False)
            if l.get("k") == "ref" and "id" in l["d"]:
                tgt, rhs = l["d"]["id"], n["b"]
        elif n.get("k") == "decl":
            for v in n["vars"]:
                if v.get("init") is not None:
                    for c in walk(v["init"]):
                        if c.get("k") == "call" and "sid" in c:
                            m.setdefault(v["id"], set()).add(c["sid"])
        if tgt is not None:
            for c in walk(rhs):
                if c.get("k") == "call" and "sid" in c:
                    m.setdefault(tgt, set()).add(c["sid"])
    return m


def deciding_conditions(f, bid):
    """conditions of the branches that lead to block bid (walk up through single-predecessor chains, two levels)"""
    conds = []
    seen = set()
    cur = [bid]
    depth = 0
    while cur and depth < 6:
        nxt = []
        for b in cur:
            for p in f.blocks[b].preds:
                if p in seen:
                    continue
                seen.add(p)
                pb = f.blocks[p]
                if pb.term and pb.term.get("cond") is not None and len([s for s in pb.succ if s is not None]) > 1:
                    conds.append(pb.term["cond"])
                    # also the conditions this one depends on lexically (a && b chains)
                    nxt.append(p)
                else:
                    nxt.append(p)
        cur = nxt
        depth += 1
        if len(conds) >= 3:
            break
    return conds


def check_function(prog, res, f, obj_ids, is_error, label=None, summaries=None, ignore_fields=(), strict_later=False):
    prot = Protected(f, obj_ids, prog=prog)
    prot.strict_later = strict_later
    PK = Analysis.PK
    cav = call_assigned_vars(f)

    def hook(an, b, i, el, st):
        stores, calls = st.get(PK) or (frozenset(), frozenset())
        ss = prot.store_sites(el)
        ss = [n for n in ss if not (ignore_fields and any(m.get("k") == "mem" and m.get("f") in ignore_fields for m in walk(n.get("a") or n.get("e") or {})))]
        if stores:
            cs = {n["sid"] for n in walk(el) if n.get("k") == "call" and "sid" in n and n is not None}
            if cs:
                calls = frozenset(list(calls | cs)[:6])
        if ss and len(stores) < 3:
            stores = stores | {(b.id, i)}
        st[PK] = (stores, calls)

    an = Analysis(prog, f, hook=hook, summaries=summaries)
    st0 = an.entry_state()
    st0[PK] = (frozenset(), frozenset())
    an.run(state=st0)
    name = label or f.qn
    nret = 0
    for el, vexpr, pos, parts in return_cases(an, f):
        for pk, st in parts:
            if pk == "*" or pk is None:
                continue
            stores, calls = pk
            rv = an.ev(vexpr, dict(st), True, f.blocks[pos[0]].el[pos[1]])
            if not is_error(rv, vexpr, f):
                continue
            nret += 1
            if not stores:
                continue
            # failure discovered after the store? (a call made since the first store decides the error)
            later = False
            conds = deciding_conditions(f, pos[0]) + [vexpr]
            # error handling of an operation that had already begun: the store serves error paths only (every return reachable
            # from it is an error return) and the deciding condition tests a call that was handed a pointer into the object
            touched_calls = set()
            for bb, ii, m in f.walk_all():
                if m.get("k") == "call" and "sid" in m and any(root_of(a) in prot.ids for a in m.get("args", [])):
                    touched_calls.add(m["sid"])
            cav_t = {vid for vid, sids in cav.items() if sids & touched_calls}
            decided_by_touch = False
            for c in conds:
                for nn in walk(c):
                    if nn.get("k") == "call" and nn.get("sid") in touched_calls:
                        decided_by_touch = True
                    if nn.get("k") == "ref" and nn["d"].get("id") in cav_t:
                        decided_by_touch = True
            # calls that only look at their arguments could have been made before the store: they do not excuse it
            pure_sids = {m["sid"] for bb, ii, m in f.walk_all() if m.get("k") == "call" and "sid" in m and callee_name(m) in PURE_CALLS}
            # ... and so could a call that has nothing to do with the object (a conversion of the source value): only a call
            # that was handed a pointer into the object, or that allocates, can need the store to have happened first
            alloc_sids = {m["sid"] for bb, ii, m in f.walk_all() if m.get("k") == "call" and "sid" in m and callee_name(m) in ALLOC_CALLS}
            strict = getattr(prot, "strict_later", False)
            for c in conds:
                for n in walk(c):
                    if n.get("k") == "call" and n.get("sid") in calls and n.get("sid") not in pure_sids:
                        if not strict or n.get("sid") in touched_calls or n.get("sid") in alloc_sids:
                            later = True
                    if n.get("k") == "ref" and n["d"].get("id") in cav:
                        sids = (cav[n["d"]["id"]] & calls) - pure_sids
                        if sids and (not strict or sids & (touched_calls | alloc_sids)):
                            later = True
            for (sb, si) in sorted(stores):
                sel = f.blocks[sb].el[si]
                sn = prot.store_sites(sel)
                stxt = norm(show(sn[0], f)) if sn else norm(show(sel, f))
                key = "%s:%s -> %s" % (name, stxt, norm(show(el, f)))
                err_only = decided_by_touch and error_only_block(an, f, sb, is_error)
                if later or err_only:
                    res.ob(key, True, f, sel.get("l", 0), detail={"note": "failure discovered after the store (later call decides)" if later else
                                                                  "error handling of an operation already begun (store serves error paths only, a call on the object decides)"})
                else:
                    res.ob(key, False, f, sel.get("l", 0),
                           "object modified (%s, line %s) on a path that then refuses with %s (line %s)" % (stxt, sel.get("l"), norm(show(el, f)), el.get("l")),
                           {"store_line": sel.get("l"), "return_line": el.get("l")})
    # one obligation per function stating that its error paths were enumerated
    res.ob("%s:error-paths" % name, True, f, f.line, detail={"error_return_path_classes": nret})
    return nret


def error_only_block(an, f, bid, is_error):
    """every return reachable from block bid is an error return"""
    reach = f.reachable_from(bid)
    seen_ret = False
    for x in reach:
        for idx, el in enumerate(f.blocks[x].el):
            if el.get("k") == "ret":
                if el.get("e") is None:
                    return False
                seen_ret = True
                rv = an.val(x, idx, el["e"])
                if rv is None:
                    continue
                c = strip(el["e"], all_casts=True)
                if c.get("k") == "cond":
                    # both arms must be errors
                    va = an.val(x, idx, c["a"])
                    vb = an.val(x, idx, c["b"])
                    if not (is_error(va, c["a"], f) and is_error(vb, c["b"], f)):
                        return False
                elif not is_error(rv, el["e"], f):
                    return False
    return seen_ret


def neg_error(rv, e, f):
    return rv.hi < 0


def null_or_neg(rv, e, f):
    """negative status, or a null pointer returned right after errno was set (the repo's refusal idiom for pointer results)"""
    T = f.T(e.get("t")) if isinstance(e, dict) else {}
    if T.get("k") == "ptr":
        if not (rv.lo == 0 and rv.hi == 0):
            return False
        return errno_set_before(f, e)
    if T.get("k") in ("int", "enum"):
        return rv.hi < 0
    return False


def errno_set_before(f, e):
    """the block holding return-value expression e (or its straight-line predecessor) assigns errno"""
    for bid, b in f.blocks.items():
        if any(x is e or x.get("e") is e for x in b.el):
            blocks = [b]
            if len(b.preds) == 1 and not b.el[:-2]:
                blocks.append(f.blocks[b.preds[0]])
            for bb in blocks:
                for x in bb.el:
                    for n in walk(x):
                        if n.get("k") == "bin" and n.get("op") == "=" and any(c.get("k") == "call" and callee_name(c) == "__errno_location" for c in walk(n["a"])):
                            return True
    return False


def run_layout(prog, ctx=None):
    res = Result("ERRFX")
    work = []
    for kind in ("axis", "line", "text", "graph", "world"):
        f = prog.func("mpt_%s_set" % kind)
        if f is None:
            raise Broken("anchor missing: mpt_%s_set" % kind)
        work.append((f, 0))
    # the helpers a setter hands a pointer into its object to (colour / attribute / string parsers) are held to the same rule:
    # a failing helper call is "failure discovered after the store" for the setter, so the helper itself must refuse cleanly
    seen = set()
    while work:
        f, idx = work.pop(0)
        if (f.key(), idx) in seen or len(f.params) <= idx:
            continue
        seen.add((f.key(), idx))
        check_function(prog, res, f, [f.params[idx]["id"]], neg_error, label=None if idx == 0 else "%s[arg %d]" % (f.qn, idx), strict_later=True)
        prot = Protected(f, [f.params[idx]["id"]])
        for b, i, e in f.elements():
            if e.get("k") != "call":
                continue
            for j, a in enumerate(e.get("args", [])):
                if root_of(a) in prot.ids and f.T(strip(a, all_casts=True).get("t")).get("k") == "ptr":
                    for g in prog.resolve_call(f, e):
                        if not g.nocfg and g.file.startswith("mptplot/") and any(x.get("k") == "ret" and x.get("e") is not None and
                                                                                   any((cval(m) or 0) < 0 for m in walk(x["e"]) if m.get("k") in ("lit", "ref", "un", "cast", "cond")) for bb, ii, x in g.elements()):
                            work.append((g, j))
    return res


def run_objects(prog, ctx=None):
    """ERRFX over every function in ctx['files'] that takes a pointer to one of ctx['records'] (or is a method of such a class)"""
    res = Result("ERRFX")
    files = set(ctx["files"])
    recs = tuple(ctx["records"])
    n = 0
    for f in sorted(prog.functions.values(), key=lambda f: (f.file, f.line)):
        if f.nocfg or f.file not in files:
            continue
        ps = []
        for q in f.params:
            pt = f.pointee(q["t"])
            if pt is None:
                continue
            PT = f.T(pt)
            if PT.get("k") == "record" and PT.get("name", "").split("::")[-1].replace("struct ", "") in recs and not PT.get("const"):
                ps.append(q["id"])
        if f.d.get("method") and f.d.get("cls", "").split("::")[-1] in recs and not f.d.get("const"):
            ps.append(0)
        if not ps:
            continue
        n += 1
        check_function(prog, res, f, ps, null_or_neg)
    if n < ctx.get("min_functions", 1):
        raise Broken("ERRFX: only %d functions over %s found" % (n, recs))
    return res


def run_named(prog, ctx=None):
    """ERRFX on named functions: ctx['functions'] = [(name, index of the protected pointer parameter)]"""
    res = Result("ERRFX")
    for name, idx in ctx["functions"]:
        f = prog.func(name)
        if f is None:
            raise Broken("anchor missing: " + name)
        check_function(prog, res, f, [f.params[idx]["id"]], null_or_neg)
    return res


def _can_fail(g):
    """the function has a return of a negative constant, or of a null pointer constant"""
    if g.nocfg:
        return False
    isptr = g.T(g.d.get("ret")).get("k") == "ptr" if g.d.get("ret") is not None else False
    retvars = set()
    for b, i, e in g.elements():
        if e.get("k") == "ret" and e.get("e") is not None:
            # the arms of a conditional return count each
            arms = [strip(e["e"], all_casts=True)]
            while arms:
                x = arms.pop()
                if x.get("k") == "cond" and cval(x) is None:
                    arms += [strip(x["a"], all_casts=True), strip(x["b"], all_casts=True)]
                    continue
                cv = cval(x)
                if cv is not None and (cv < 0 or (cv == 0 and isptr)):
                    return True
                if x.get("k") == "ref" and "id" in x["d"]:
                    retvars.add(x["d"]["id"])
    if retvars:
        # single exit: `ret = CODE; goto out; .. return ret` - a failure constant assigned to the returned local
        for b, i, n in g.walk_all():
            pairs = []
            if n.get("k") == "bin" and n.get("op") == "=":
                l = strip(n["a"], lvalue_to_rvalue=False)
                if l.get("k") == "ref" and l["d"].get("id") in retvars:
                    pairs.append(n["b"])
            elif n.get("k") == "decl":
                pairs += [v["init"] for v in n["vars"] if v["id"] in retvars and v.get("init") is not None]
            for rhs in pairs:
                cv = cval(rhs)
                if cv is not None and (cv < 0 or (cv == 0 and isptr)):
                    return True
    return False


def call_sites(prog, only=None, any_callee=False, extra=None):
    """(function, call, callee key, result ignored) for every call of a repository function that can fail, and of every
    function-pointer member (keyed `->name`): the result is ignored when the call is a statement of its own or cast to void"""
    from .facts import callee_name as _cn
    for f in ([only] if only is not None else sorted(prog.functions.values(), key=lambda f: (f.file, f.line, f.qn))):
        if f.nocfg or f.file.startswith("examples/"):
            continue
        els = [e for b, i, e in f.elements()]
        nested, voided = set(), set()
        for e in els:
            first = True
            for n in walk(e):
                if first:
                    first = False
                    continue
                if "sid" in n:
                    nested.add(n["sid"])
                if n.get("k") == "cast" and n.get("ck") == "ToVoid":
                    c = strip(n["e"], all_casts=True)
                    if c.get("k") == "call" and "sid" in c:
                        voided.add(c["sid"])
            if e.get("k") == "cast" and e.get("ck") == "ToVoid":
                c = strip(e["e"], all_casts=True)
                if c.get("k") == "call" and "sid" in c:
                    voided.add(c["sid"])
        # a call that is itself the operand a branch decides on (`if (f(x))`, `a && f(x)`) is used
        for blk in f.blocks.values():
            if blk.term and isinstance(blk.term.get("cond"), dict):
                for n in walk(blk.term["cond"]):
                    if "sid" in n:
                        nested.add(n["sid"])
        for e in els:
            if e.get("k") != "call" or f.T(e.get("t")).get("k") == "void":
                continue
            nm = None
            if e.get("fn"):
                gs = prog.resolve_call(f, e)
                if gs and not gs[0].qn.startswith(("mpt::", "std::")) and (any_callee or _can_fail(gs[0]) or (extra and gs[0].qn in extra)):
                    nm = gs[0].qn
            elif e.get("callee") is not None:
                ce = strip(e["callee"], all_casts=True)
                if ce.get("k") == "mem":
                    nm = "->" + ce.get("f")
            if not nm:
                continue
            ign = (e.get("sid") not in nested) or (e.get("sid") in voided)
            yield f, e, nm, ign


def result_tests(prog, f):
    """callee key -> sorted list of the partitions its single tests make: each test of a result as the tuple of its
    boundaries (`r < 0` -> (-1,), `!r` / `r == 0` / `r != 0` -> (-1, 1), `r > 0` -> (1,); boundaries as 2*x+1 integers)"""
    per = {}
    result_boundaries(prog, f, per_test=per)
    return {k: sorted({tuple(sorted(t)) for t in v}) for k, v in per.items()}


def result_boundaries(prog, f, per_test=None):
    """callee key -> sorted list of boundaries (x.5 values, as 2*x+1 integers) at which this function tests the results of its
    calls of that callee: `r < c` / `r >= c` cut below c, `r <= c` / `r > c` cut above c, `r == c`, `r != c`, `!r`, `if (r)` both"""
    from .facts import callee_name as _cn
    calls = {}       # sid -> callee key
    for f2, e, nm, ign in call_sites_of(prog, f):
        if "sid" in e:
            calls[e["sid"]] = nm
    if not calls:
        return {}
    var_of = {}      # local id -> set of callee keys whose result it received
    out = {}

    def callee_in(x):
        x = strip(x, all_casts=True)
        if x.get("k") == "bin" and x.get("op") == "=":
            r = callee_in(x["b"])
            l = strip(x["a"], lvalue_to_rvalue=False)
            if r and l.get("k") == "ref" and "id" in l["d"]:
                var_of.setdefault(l["d"]["id"], set()).add(r)
            return r
        if x.get("k") == "call" and x.get("sid") in calls:
            return calls[x["sid"]]
        return None
    trees = []
    for bid, blk in f.blocks.items():
        trees.extend(blk.el)
        if blk.term and isinstance(blk.term.get("cond"), dict):
            trees.append(blk.term["cond"])
    for t in trees:
        for n in walk(t):
            if n.get("k") == "bin" and n.get("op") == "=":
                callee_in(n)
            elif n.get("k") == "decl":
                for v in n.get("vars", []):
                    if v.get("init") is not None:
                        r = callee_in(v["init"])
                        if r:
                            var_of.setdefault(v["id"], set()).add(r)

    def keys_of(x):
        r = callee_in(x)
        if r:
            return {r}
        xs = strip(x, all_casts=True)
        if xs.get("k") == "ref" and xs["d"].get("id") in var_of:
            return var_of[xs["d"]["id"]]
        return set()

    def add(keys, bs):
        for k in keys:
            out.setdefault(k, set()).update(bs)
            if per_test is not None:
                per_test.setdefault(k, []).append(frozenset(bs))
    for t in trees:
        for n in walk(t):
            if n.get("k") == "bin" and n.get("op") in ("<", "<=", ">", ">=", "==", "!="):
                for x, y, flip in ((n["a"], n["b"], False), (n["b"], n["a"], True)):
                    c = cval(y)
                    ks = keys_of(x) if c is not None else set()
                    if not ks:
                        continue
                    op = n["op"]
                    if flip:
                        op = {"<": ">", "<=": ">=", ">": "<", ">=": "<="}.get(op, op)
                    if op in ("<", ">="):
                        add(ks, {2 * c - 1})
                    elif op in ("<=", ">"):
                        add(ks, {2 * c + 1})
                    else:
                        add(ks, {2 * c - 1, 2 * c + 1})
            elif n.get("k") == "un" and n.get("op") == "!":
                add(keys_of(n["e"]), {-1, 1})
    for bid, blk in f.blocks.items():
        if blk.term and isinstance(blk.term.get("cond"), dict):
            c = blk.term["cond"]
            cs = strip(c, all_casts=True)
            if cs.get("k") in ("call", "ref") or (cs.get("k") == "bin" and cs.get("op") == "="):
                add(keys_of(c), {-1, 1})
    return {k: sorted(v) for k, v in out.items()}


def call_sites_of(prog, f):
    # for the boundaries every repository callee counts (a reader that passes on what its source returned has no failing
    # return of its own, yet its callers distinguish `< 0` from `<= 0`)
    for x in call_sites(prog, only=f, any_callee=True):
        yield x


def run_resultclass(prog, ctx=None):
    """RESULTCLASS: mustcheck.json also records at which boundaries each function tests the results of the calls it makes
    (`< 0` cuts below zero, `<= 0` above, `!r` / `== 0` on both sides).  Every boundary of the reference is still a boundary now:
    a function may distinguish more cases than it did, but a test that moved (`<= 0` to `< 0`, `!r` to `r <= 0`) treats a class
    of results - typically the zero or the error class - like its neighbour."""
    import json as _json, os as _os
    res = Result("RESULTCLASS")
    _tab = _json.load(open(_os.path.join(_os.path.dirname(_os.path.abspath(__file__)), "mustcheck.json")))
    ref = _tab.get("tests", {})
    refp = _tab.get("parts", {})
    curparts = {}
    byname = {}
    for f in prog.functions.values():
        byname[f.file + ":" + f.qn] = f
    matched = 0
    for k, callees in sorted(ref.items()):
        f = byname.get(k)
        if f is None or f.nocfg:
            continue
        matched += 1
        cur = result_boundaries(prog, f)
        for nm, bs in sorted(callees.items()):
            if nm not in cur:
                continue        # the call, or every test of its result, is gone: MUSTCHECK's business
            lost = [b for b in bs if b not in cur[nm]]
            ok = not lost
            res.ob("%s:%s" % (k.split(":", 1)[1], nm), ok, f, f.line,
                   "" if ok else "%s tested the result of %s at the boundaries %s in the reference tree and tests it at %s now: results on the two sides of %s are no longer told apart" % (
                       f.qn, nm.lstrip("->"), [b / 2 for b in bs], [b / 2 for b in cur[nm]], [b / 2 for b in lost]))
            # every single test of the reference still exists as a test that separates the same two sets of results: a test that
            # was widened (`< 0` to `!= 0`) keeps all boundaries but sends a class of results (the positive answers) the other way
            rp = refp.get(k, {}).get(nm)
            if rp and ok:
                curp = curparts.get(k)
                if curp is None:
                    curp = curparts[k] = result_tests(prog, f)
                have = {tuple(t) for t in curp.get(nm, [])}
                gone = [tuple(t) for t in rp if tuple(t) not in have]
                ok2 = not gone
                res.ob("%s:%s:tests" % (k.split(":", 1)[1], nm), ok2, f, f.line,
                       "" if ok2 else "%s had a test of the result of %s that separated it at %s; no test does that now (tests cut at %s): a class of results changed sides" % (
                           f.qn, nm.lstrip("->"), " and at ".join(str([b / 2 for b in t]) for t in gone), [[b / 2 for b in t] for t in sorted(have)]))
    if ref and matched < len(ref) * 3 // 4:
        raise Broken("RESULTCLASS: only %d of the %d functions of the reference table still exist" % (matched, len(ref)))
    return res


def run_mustcheck(prog, ctx=None):
    """MUSTCHECK: mustcheck.json records, for the unchanged tree, how many calls of functions that can report failure (negative or
    null result) and of function-pointer members each function makes with the result used and with the result ignored (as a
    statement of its own or cast to void).  A function that ignores more results of one callee than the reference does has
    dropped a check the code used to make.  New functions and calls moved elsewhere are not judged."""
    import json as _json, os as _os
    res = Result("MUSTCHECK")
    _tab = _json.load(open(_os.path.join(_os.path.dirname(_os.path.abspath(__file__)), "mustcheck.json")))
    ref = _tab["sites"]
    now = {}
    where = {}
    for f, e, nm, ign in call_sites(prog, extra=set(_tab.get("fallible", []))):
        k = f.file + ":" + f.qn
        ent = now.setdefault(k, {}).setdefault(nm, [0, 0])
        ent[1 if ign else 0] += 1
        if ign:
            where.setdefault((k, nm), []).append((f, e))
        else:
            where.setdefault((k, nm, "f"), (f, e))
    matched = 0
    for k, callees in sorted(ref.items()):
        cur = now.get(k)
        if cur is None:
            continue
        matched += 1
        for nm, (u0, i0) in sorted(callees.items()):
            u1, i1 = cur.get(nm, [0, 0])
            if not (u1 or i1):
                continue
            # a check was dropped where a call site that used the result ignores it now; a statement that is duplicated into two
            # branches ignores the result twice without any check having gone
            ok = i1 <= i0 or u1 >= u0
            f, e = (where.get((k, nm)) or [where.get((k, nm, "f"))])[-1]
            res.ob("%s:%s" % (k.split(":", 1)[1], nm), ok, f, e.get("l", f.line),
                   "" if ok else "%s ignores the result of %s at %d call site(s) (`%s`); the reference tree used it at %d of its %d call sites here: a check was dropped" % (
                       f.qn, nm.lstrip("->"), i1, norm(show(e, f))[:50], u0, u0 + i0))
    if matched < len(ref) * 3 // 4:
        raise Broken("MUSTCHECK: only %d of the %d calling functions of the reference table still exist" % (matched, len(ref)))
    return res



def _store_triples(f):
    """constant stores into objects reached through a pointer: set of (record, member path, constant);
    ("*" as path: the whole object; "any" as constant: a value that is not a compile-time constant covers every constant)"""
    out = set()
    for b, i, n in f.walk_all():
        if n.get("k") == "bin" and n.get("op") == "=":
            l = strip(n["a"], lvalue_to_rvalue=False)
            path = []
            cur = l
            rec = None
            while isinstance(cur, dict) and cur.get("k") == "mem":
                path.append(cur["f"])
                if cur.get("arrow"):
                    rec = cur.get("rec")
                    break
                cur = strip(cur["b"], all_casts=True)
            if rec is None and isinstance(cur, dict) and cur.get("k") == "un" and cur.get("op") == "*" and not path:
                # *p = value: the whole object
                PT = f.T(f.pointee(strip(cur["e"], all_casts=True).get("t")) if f.pointee(strip(cur["e"], all_casts=True).get("t")) is not None else -1)
                if PT.get("k") == "record":
                    out.add((PT.get("name"), "*", "any"))
                continue
            if rec is None or not path:
                continue
            v = cval(n["b"])
            out.add((rec.split("::")[-1], ".".join(reversed(path)), v if v is not None else "any"))
        elif n.get("k") == "call" and callee_name(n) == "memset" and len(n.get("args", [])) == 3 and cval(n["args"][1]) == 0:
            a0 = n["args"][0]
            while isinstance(a0, dict) and a0.get("k") == "cast":
                PT = f.T(f.pointee(a0.get("t")) if f.pointee(a0.get("t")) is not None else -1)
                if PT.get("k") == "record":
                    break
                a0 = a0["e"]
            PT = f.T(f.pointee(a0.get("t")) if isinstance(a0, dict) and f.pointee(a0.get("t")) is not None else -1)
            if PT.get("k") == "record":
                out.add((PT.get("name", "").split("::")[-1], "*", 0))
    return out


def const_stores(prog):
    """{file:function -> sorted list of [record, member path, constant]} including what the functions it calls store
    (fixpoint over the resolved call graph, repository functions only)"""
    fs = [f for f in prog.functions.values() if not f.nocfg and not f.file.startswith("examples/")]
    direct = {f.key(): _store_triples(f) for f in fs}
    callees = {}
    for f in fs:
        cs = set()
        for b, i, e in f.elements():
            if e.get("k") == "call":
                for g in prog.resolve_call(f, e):
                    if not g.nocfg and g.key() in direct:
                        cs.add(g.key())
        callees[f.key()] = cs
    total = {k: set(v) for k, v in direct.items()}
    changed = True
    rounds = 0
    while changed and rounds < 30:
        changed = False
        rounds += 1
        for k, cs in callees.items():
            for c in cs:
                add = total[c] - total[k]
                if add:
                    total[k] |= add
                    changed = True
    return {f.file + ":" + f.qn: (direct[f.key()], total[f.key()]) for f in fs}


def _covered(t, cur):
    rec, path, c = t
    if t in cur or (rec, path, "any") in cur:
        return True
    if (rec, "*", "any") in cur or (c == 0 and (rec, "*", 0) in cur):
        return True
    parts = path.split(".")
    for k in range(1, len(parts)):
        pre = ".".join(parts[:k])
        if (rec, pre, "any") in cur or (c == 0 and (rec, pre, 0) in cur):
            return True
    return False


def run_conststate(prog, ctx=None):
    """CONSTSTATE (reference table): mustcheck.json records, per function of the unchanged tree, the constants it stores into
    members of objects it reaches through pointers (`dec->data.msg = -1`, `parse->prev = Section`, `c->base.off = 0`) — the
    resets and state marks of the code.  A function that still exists keeps each of them: stored by itself, by a function it
    calls, by a memset / whole-object assignment that covers the member, or replaced by a computed value for the same member.
    A reset that is gone leaves the member with whatever the previous call, frame or owner put there."""
    import json as _json, os as _os
    res = Result("CONSTSTATE")
    ref = _json.load(open(_os.path.join(_os.path.dirname(_os.path.abspath(__file__)), "mustcheck.json"))).get("consts")
    if not ref:
        raise Broken("CONSTSTATE: the reference table has no constant stores")
    now = const_stores(prog)
    matched = 0
    byname = {}
    for f in prog.functions.values():
        byname.setdefault(f.file + ":" + f.qn, f)
    for k, triples in sorted(ref.items()):
        if k not in now:
            continue
        matched += 1
        direct, total = now[k]
        f = byname[k]
        for t in triples:
            t = (t[0], t[1], t[2])
            ok = _covered(t, total)
            res.ob("%s:%s.%s = %s" % (k.split(":", 1)[1], t[0], t[1], t[2]), ok, f, f.line,
                   "" if ok else "%s no longer stores %s into %s.%s (neither itself nor through a function it calls, and nothing it does covers the member): the reference tree set it here; the member keeps the value of an earlier call or owner" % (
                       f.qn, t[2], t[0], t[1]))
    if matched < len(ref) * 3 // 4:
        raise Broken("CONSTSTATE: only %d of the %d functions of the reference table still exist" % (matched, len(ref)))
    return res


def forward_target(prog, f, qn, depth=0):
    """name of the function a file-local forwarder stands for: a static function of the same file whose body is one
    `return g(<its own parameters, in part>)`; anything else is itself"""
    cands = [g for g in prog.by_qn.get(qn, []) if g.static and g.file == f.file and not g.nocfg]
    if len(cands) != 1 or depth > 3:
        return qn
    g = cands[0]
    pids = {p.get("id") for p in g.params}
    target = None
    for b, i, e in g.elements():
        if e.get("k") == "ret" and e.get("e") is not None:
            x = strip(e["e"], all_casts=True)
            if x.get("k") == "call" and callee_name(x) and all(
                    strip(a, all_casts=True).get("k") == "ref" and strip(a, all_casts=True)["d"].get("id") in pids for a in x.get("args", [])):
                if target is not None:
                    return qn
                target = callee_name(x)
            else:
                return qn
        elif e.get("k") == "call":
            continue          # the call element of the return expression itself
        elif e.get("k") in ("cast", "ref", "decl") or (e.get("k") == "cast" and f.T(e.get("t")).get("k") == "void"):
            continue          # `(void) unused;`
        else:
            # any other statement makes it more than a forwarder
            if e.get("k") not in ("cast",):
                return qn
    if target is None:
        return qn
    return forward_target(prog, g, target, depth + 1)


def param_tests(prog, f):
    """parameter position (or `position.member` for an integer member reached through a pointer parameter) -> sorted boundaries
    (as 2*x+1 integers) at which the function compares that value with a constant (`p < c` cuts below c, `p <= c` above,
    `p == c` / `p != c` / `!p` / `if (p)` on both sides); for unsigned values the cut below zero is no cut"""
    pos = {}
    ptr = {}
    for j, p in enumerate(f.params):
        T = f.T(p.get("t"))
        if T.get("k") in ("int", "enum", "bool") and "id" in p:
            pos[p["id"]] = (str(j), T)
        elif T.get("k") == "ptr" and "id" in p:
            ptr[p["id"]] = j
    if not pos and not ptr:
        return {}
    out = {}

    def par(x):
        x = strip(x, all_casts=True)
        if x.get("k") == "ref" and x["d"].get("id") in pos:
            return pos[x["d"]["id"]]
        if x.get("k") == "mem" and f.T(x.get("t")).get("k") in ("int", "enum", "bool"):
            path = []
            cur = x
            while isinstance(cur, dict) and cur.get("k") == "mem":
                path.append(cur["f"])
                nxt = strip(cur["b"], all_casts=True)
                if cur.get("arrow"):
                    if nxt.get("k") == "ref" and nxt["d"].get("id") in ptr:
                        return ("%d.%s" % (ptr[nxt["d"]["id"]], ".".join(reversed(path))), f.T(x.get("t")))
                    return None
                cur = nxt
        return None

    def add(pj, bs):
        if not pj[1].get("signed", True):
            bs = {b for b in bs if b > 0}
        if bs:
            out.setdefault(pj[0], set()).update(bs)
    trees = []
    conds = []
    for bid, blk in f.blocks.items():
        trees.extend(blk.el)
        if blk.term and isinstance(blk.term.get("cond"), dict):
            trees.append(blk.term["cond"])
            conds.append((blk, blk.term["cond"]))
    seen = set()
    for t in trees:
        for n in walk(t):
            if id(n) in seen:
                continue
            seen.add(id(n))
            if n.get("k") == "bin" and n.get("op") in ("<", "<=", ">", ">=", "==", "!="):
                for x, y, flip in ((n["a"], n["b"], False), (n["b"], n["a"], True)):
                    c = cval(y)
                    pj = par(x) if c is not None else None
                    if pj is None:
                        continue
                    op = n["op"]
                    if flip:
                        op = {"<": ">", "<=": ">=", ">": "<", ">=": "<="}.get(op, op)
                    c = int(c)
                    if op in ("<", ">="):
                        bs = {2 * c - 1}
                    elif op in ("<=", ">"):
                        bs = {2 * c + 1}
                    else:
                        bs = {2 * c - 1, 2 * c + 1}
                    add(pj, bs)
            elif n.get("k") == "un" and n.get("op") == "!":
                pj = par(n["e"])
                if pj is not None:
                    add(pj, {-1, 1})
    # the value itself as the operand a branch decides on: `if (p)`, `a && p->len`
    for blk, c in conds:
        c = strip(c, all_casts=True)
        ops = []
        if blk.term.get("cls") == "BinaryOperator":
            if c.get("k") == "bin" and c.get("op") in ("&&", "||"):
                ops = [c["a"]]
        else:
            while c.get("k") == "bin" and c.get("op") in ("&&", "||"):
                c = strip(c["b"], all_casts=True)
            ops = [c]
        for o in ops:
            pj = par(o)
            if pj is not None:
                add(pj, {-1, 1})
    return {str(k): sorted(v) for k, v in out.items() if v}


def run_paramclass(prog, ctx=None):
    """PARAMCLASS (reference table): the boundaries at which a function compares an integer parameter with constants (`points <
    1`: a cut between 0 and 1) are part of what it does for which arguments.  mustcheck.json records them per function and
    parameter position for the unchanged tree; a function that still has that parameter but no longer cuts where it did
    *and* cuts somewhere new has moved a case limit (`< 1` to `< 2`, `<= max` to `< max`): the arguments between the two cuts
    are handled as their neighbours were.  Cuts that only vanished (a test moved into a helper) or were added are not judged."""
    import json as _json, os as _os
    res = Result("PARAMCLASS")
    ref = _json.load(open(_os.path.join(_os.path.dirname(_os.path.abspath(__file__)), "mustcheck.json"))).get("ptests")
    if not ref:
        raise Broken("PARAMCLASS: the reference table has no parameter tests")
    byname = {}
    for f in prog.functions.values():
        byname.setdefault(f.file + ":" + f.qn, f)
    matched = 0
    for k, ent in sorted(ref.items()):
        f = byname.get(k)
        if f is None or f.nocfg:
            continue
        matched += 1
        cur = param_tests(prog, f)
        for j, bs in sorted(ent.items()):
            jn = int(j.split(".")[0])
            if jn >= len(f.params):
                continue
            want = ("ptr",) if "." in j else ("int", "enum", "bool")
            if f.T(f.params[jn].get("t")).get("k") not in want:
                continue
            now = set(cur.get(j, []))
            gone = sorted(set(bs) - now)
            new = sorted(now - set(bs))
            ok = not (gone and new)
            what = f.params[jn].get("n", "?") + ("->" + j.split(".", 1)[1] if "." in j else "")
            res.ob("%s:parameter %s (%s)" % (k.split(":", 1)[1], j, what), ok, f, f.line,
                   "" if ok else "%s compared %s with constants at the cuts %s in the reference tree and does so at %s now: the cut at %s moved to %s, values between them are handled like their neighbours" % (
                       f.qn, what, [b / 2 for b in bs], [b / 2 for b in sorted(now)], [b / 2 for b in gone], [b / 2 for b in new]))
    if matched < len(ref) * 3 // 4:
        raise Broken("PARAMCLASS: only %d of the %d functions of the reference table still exist" % (matched, len(ref)))
    return res


def const_interface(prog):
    """{file:function -> {"ret": sorted constants the function can return (interval analysis: returns whose value is one number),
                          "args": {"callee#position": sorted constants passed there; "~" when a computed value is passed}}}"""
    out = {}
    for f in sorted((g for g in prog.functions.values() if not g.nocfg and not g.file.startswith("examples/")), key=lambda g: (g.file, g.line, g.qn)):
        rets = set()
        args = {}
        has_ret = False
        for b, i, e in f.elements():
            if e.get("k") == "ret" and e.get("e") is not None and f.T(f.ret).get("k") in ("int", "bool", "enum"):
                has_ret = True
        an = None
        for b, i, e in f.elements():
            if e.get("k") == "ret" and e.get("e") is not None and f.T(f.ret).get("k") in ("int", "bool", "enum"):
                v = cval(e["e"])
                # `return c ? A : B`: the arms
                arms = [strip(e["e"], all_casts=True)]
                consts = []
                while arms:
                    x = arms.pop()
                    if x.get("k") == "cond" and cval(x) is None:
                        arms += [strip(x["a"], all_casts=True), strip(x["b"], all_casts=True)]
                    elif cval(x) is not None:
                        consts.append(int(cval(x)))
                if v is None and consts:
                    rets.update(consts)
                    continue
                if v is None:
                    if an is None:
                        try:
                            an = Analysis(prog, f).run()
                        except Exception:
                            an = False
                    if an:
                        r = an.value_at(b.id, i, e["e"])
                        if r is not None and r.is_const():
                            v = r.lo
                if v is not None:
                    rets.add(int(v))
            if e.get("k") == "call":
                nm = callee_name(e)
                if not nm:
                    continue
                for j, a in enumerate(e.get("args", [])):
                    sa_ = strip(a, all_casts=True)
                    if sa_.get("k") == "un" and sa_.get("op") == "&":
                        sa_ = strip(sa_["e"], all_casts=True)
                    if sa_.get("k") == "ref" and sa_["d"].get("dk") == "fn":
                        # a function handed on as callback: which one it is, file-local forwarders looked through
                        args.setdefault("%s#%d" % (nm, j), set()).add("&" + forward_target(prog, f, sa_["d"].get("qn") or sa_["d"]["n"]))
                        continue
                    if f.T(strip(a, all_casts=True).get("t")).get("k") not in ("int", "bool", "enum") and cval(a) is None:
                        continue
                    v = cval(a)
                    if v is None:
                        # a computed argument that the interval analysis pins to one number is that number (a loop counter after
                        # its loop, a length assigned a constant on every path)
                        if an is None:
                            try:
                                an = Analysis(prog, f).run()
                            except Exception:
                                an = False
                        if an:
                            r = an.value_at(b.id, i, a)
                            if r is not None and r.is_const():
                                v = r.lo
                    args.setdefault("%s#%d" % (nm, j), set()).add(int(v) if v is not None else "~")
        # results handed on: `return g(..)`, `ret = g(..); .. return ret`
        fwd = set()
        retvars = set()
        for b, i, e in f.elements():
            if e.get("k") == "ret" and e.get("e") is not None:
                x = strip(e["e"], all_casts=True)
                if x.get("k") == "ref" and "id" in x["d"]:
                    retvars.add(x["d"]["id"])
                for m in ([x] if x.get("k") != "cond" else [strip(x["a"], all_casts=True), strip(x["b"], all_casts=True)]):
                    if m.get("k") == "call":
                        for g in prog.resolve_call(f, m):
                            if g.static and g.file == f.file:      # a block moved into a file-local helper
                                fwd.add(g.file + ":" + g.qn)
                    if m.get("k") == "ref" and "id" in m["d"]:
                        retvars.add(m["d"]["id"])
        if retvars:
            for b, i, n in f.walk_all():
                if n.get("k") == "bin" and n.get("op") == "=":
                    l = strip(n["a"], lvalue_to_rvalue=False)
                    r = strip(n["b"], all_casts=True)
                    if l.get("k") == "ref" and l["d"].get("id") in retvars and r.get("k") == "call":
                        for g in prog.resolve_call(f, r):
                            if g.static and g.file == f.file:
                                fwd.add(g.file + ":" + g.qn)
        ent = {}
        if rets:
            ent["ret"] = sorted(rets)
            ent["own"] = sorted(rets)
        if args:
            ent["args"] = {k: sorted(v, key=str) for k, v in args.items()}
        if fwd:
            ent["fwd"] = sorted(fwd)
        if ent:
            out[f.file + ":" + f.qn] = ent
    # what a function hands on from its callees it returns itself
    changed = True
    rounds = 0
    while changed and rounds < 10:
        changed = False
        rounds += 1
        for k, ent in out.items():
            cur = set(ent.get("ret", []))
            for g in ent.get("fwd", []):
                add = set(out.get(g, {}).get("ret", [])) - cur
                if add:
                    cur |= add
                    changed = True
            if cur != set(ent.get("ret", [])):
                ent["ret"] = sorted(cur)
    for ent in out.values():
        ent.pop("fwd", None)
    return out


def run_constiface(prog, ctx=None):
    """CONSTIFACE (reference table): what a function tells its callers and callees in constants stays told.  Per function of
    the unchanged tree mustcheck.json records the numbers it can return (interval analysis of every `return`) and, per callee
    and argument position, the constants it passes.  RET: an error constant (negative) the function returned is still
    returned by it - a refusal that turned into success or into another code is a different interface; a positive constant
    that was the only way to say something (`return 2`: the step was read) is kept as long as the function has no computed
    return.  ARG: where the reference passed only constants at a position and the function still calls that callee there,
    the values passed now are the same set (a `sizeof` of another member, a flag word replaced by 0)."""
    import json as _json, os as _os
    res = Result("CONSTIFACE")
    ref = _json.load(open(_os.path.join(_os.path.dirname(_os.path.abspath(__file__)), "mustcheck.json"))).get("iface")
    if not ref:
        raise Broken("CONSTIFACE: the reference table has no interface constants")
    now = const_interface(prog)
    byname = {}
    for f in prog.functions.values():
        byname.setdefault(f.file + ":" + f.qn, f)
    matched = 0
    for k, ent in sorted(ref.items()):
        cur = now.get(k)
        f = byname.get(k)
        if cur is None or f is None:
            if f is not None:
                matched += 1
            continue
        matched += 1
        r0, r1 = set(ent.get("own", [])), set(cur.get("ret", []))
        for c in sorted(r0):
            if c >= 0 and not (c > 0 and len([x for x in r0 if x > 0]) <= 2):
                continue
            # the constant may be handed on from a file-local helper the block was moved into
            ok = c in r1
            if not ok:
                # a computed return may still deliver the value: `ret = CODE; goto out; .. return ret` - the constant is
                # assigned to a local that a return hands back
                retvars = set()
                for b, i, e in f.elements():
                    if e.get("k") == "ret" and e.get("e") is not None and cval(e["e"]) is None:
                        for m in walk(e["e"]):
                            if m.get("k") == "ref" and "id" in m["d"]:
                                retvars.add(m["d"]["id"])
                for b, i, m in f.walk_all():
                    if m.get("k") == "bin" and m.get("op") == "=" and cval(m["b"]) == c:
                        l = strip(m["a"], lvalue_to_rvalue=False)
                        if l.get("k") == "ref" and l["d"].get("id") in retvars:
                            ok = True
                    elif m.get("k") == "decl":
                        for v in m["vars"]:
                            if v["id"] in retvars and v.get("init") is not None and cval(v["init"]) == c:
                                ok = True
            res.ob("%s:returns %d" % (k.split(":", 1)[1], c), ok, f, f.line,
                   "" if ok else "%s no longer returns %d; it returns %s now: callers that tell this answer apart get another one (a refusal reported as success, a result code the caller acts on)" % (
                       f.qn, c, sorted(r1)))
        for key, vals in sorted(ent.get("args", {}).items()):
            cv = cur.get("args", {}).get(key)
            if cv is None:
                continue
            if "~" in vals:
                # computed everywhere in the reference, a constant everywhere now: what the callee was told about the state is gone
                if vals == ["~"] and "~" not in cv:
                    res.ob("%s:%s" % (k.split(":", 1)[1], key), False, f, f.line,
                           "%s passed a computed value as argument %s of %s in the reference tree and passes the constant %s now" % (f.qn, key.split("#")[1], key.split("#")[0], cv))
                continue
            # calls that moved into a helper leave a subset, new call sites a superset: a *changed* constant shows as one value
            # gone and another one new
            a, bset = set(map(str, cv)), set(map(str, vals))
            ok = not ((a - bset) and (bset - a))
            res.ob("%s:%s" % (k.split(":", 1)[1], key), ok, f, f.line,
                   "" if ok else "%s passed %s as argument %s of %s in the reference tree and passes %s now" % (
                       f.qn, vals, key.split("#")[1], key.split("#")[0], cv))
    if matched < len(ref) * 3 // 4:
        raise Broken("CONSTIFACE: only %d of the %d functions of the reference table still exist" % (matched, len(ref)))
    return res
