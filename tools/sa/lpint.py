"""Exact feasibility of a system of linear inequalities over the rationals: phase-1 simplex with an integer tableau
(rows are scaled by positive integers and divided by their gcd, so no fractions are built) and Bland's rule."""
from math import gcd


def _normrow(r):
    g = 0
    for x in r:
        if x:
            g = gcd(g, x)
            if g == 1:
                return r
    if g > 1:
        return [x // g for x in r]
    return r


def lp_infeasible(rows, maxit=20000):
    """rows: {((sym, coef), ...): c}  meaning  sum coef*sym + c >= 0, symbols free.
    True = no rational solution; False = there is one (or the iteration bound was hit)."""
    cons = list(rows.items())
    # symbols with a row  x >= 0 (or stronger) are sign-restricted: no negative part, and that row is implied
    nonneg = set()
    for k, c in cons:
        if len(k) == 1 and k[0][1] > 0 and c <= 0:
            nonneg.add(k[0][0])
    keep = []
    for k, c in cons:
        if len(k) == 1 and k[0][1] > 0 and c == 0 and k[0][0] in nonneg:
            continue
        keep.append((k, c))
    cons = keep
    if not cons:
        return False
    syms = sorted({s for k, c in cons for s, v in k})
    col = {}
    ncol = 0
    for s in syms:
        col[s] = ncol
        ncol += 1
    neg = {}
    for s in syms:
        if s not in nonneg:
            neg[s] = ncol
            ncol += 1
    m = len(cons)
    slack0 = ncol
    ncol += m
    T = []
    basis = []
    arts = []
    for i, (k, c) in enumerate(cons):
        r = [0] * (ncol + 1)
        for s, v in k:
            r[col[s]] = v
            if s in neg:
                r[neg[s]] = -v
        r[slack0 + i] = -1
        r[ncol] = -c
        if r[ncol] <= 0:
            r = [-x for x in r]
            basis.append(slack0 + i)
        else:
            basis.append(None)
            arts.append(i)
        T.append(r)
    if not arts:
        return False
    na = len(arts)
    for r in T:
        rhs = r.pop()
        r.extend([0] * na)
        r.append(rhs)
    for j, i in enumerate(arts):
        T[i][ncol + j] = 1
        basis[i] = ncol + j
    tot = ncol + na
    z = [0] * (tot + 1)
    for i in arts:
        Ti = T[i]
        for j in range(tot + 1):
            z[j] -= Ti[j]
    for j in range(ncol, tot):
        z[j] = 0
    it = 0
    while True:
        it += 1
        if it > maxit:
            return False
        ent = -1
        for j in range(tot):
            if z[j] < 0:
                ent = j
                break
        if ent < 0:
            break
        lv = -1
        bn = bd = 0
        for i in range(m):
            a = T[i][ent]
            if a > 0:
                b = T[i][tot]
                if lv < 0:
                    lv, bn, bd = i, b, a
                else:
                    # b/a < bn/bd ?
                    d = b * bd - bn * a
                    if d < 0 or (d == 0 and basis[i] < basis[lv]):
                        lv, bn, bd = i, b, a
        if lv < 0:
            return False
        Tl = T[lv]
        a = Tl[ent]
        for i in range(m):
            if i != lv:
                f = T[i][ent]
                if f:
                    Ti = T[i]
                    T[i] = _normrow([a * x - f * y for x, y in zip(Ti, Tl)])
        f = z[ent]
        if f:
            z = _normrow([a * x - f * y for x, y in zip(z, Tl)])
        basis[lv] = ent
    return -z[tot] > 0
