"""IVAL — forward interval analysis with guard refinement on the clang CFG.

Abstract value: interval of mathematical numbers (python ints, +-inf) plus a
NaN flag for floating values; pointers are unsigned integers (0 = null), so
"dominated by a non-null test" is the interval fact `0 not in [lo,hi]`.
Tracked lvalues: scalar locals/parameters whose address is never taken, and
member paths rooted at such a variable (killed by calls and stores through
pointers).  Over-approximating: a fact `value ⊆ R` read off the result holds on
every execution; anything the engine cannot follow becomes the full range of
the C type.
"""
import math
from .facts import strip, cval, walk, children, show, callee_name

INF = math.inf


class AV:
    __slots__ = ("lo", "hi", "nan")

    def __init__(self, lo, hi, nan=False):
        self.lo = lo
        self.hi = hi
        self.nan = nan

    def __repr__(self):
        def s(x):
            if x == INF: return "+inf"
            if x == -INF: return "-inf"
            return str(x)
        return "[%s, %s]%s" % (s(self.lo), s(self.hi), "+NaN" if self.nan else "")

    def __eq__(self, o):
        return isinstance(o, AV) and self.lo == o.lo and self.hi == o.hi and self.nan == o.nan

    def __hash__(self):
        return hash((self.lo, self.hi, self.nan))

    def empty(self):
        return self.lo > self.hi and not self.nan

    def within(self, lo, hi):
        return (not self.nan) and self.lo >= lo and self.hi <= hi

    def contains(self, v):
        return self.lo <= v <= self.hi

    def is_const(self):
        return self.lo == self.hi and not self.nan

    def tojson(self):
        def s(x):
            if x == INF: return "+inf"
            if x == -INF: return "-inf"
            return x
        r = [s(self.lo), s(self.hi)]
        if self.nan:
            r.append("NaN")
        return r


def join(a, b):
    if a is None: return b
    if b is None: return a
    return AV(min(a.lo, b.lo), max(a.hi, b.hi), a.nan or b.nan)


def type_range(T):
    k = T.get("k")
    if k == "bool":
        return AV(0, 1)
    if k == "int":
        bits = T["bits"]
        if T.get("signed"):
            return AV(-(1 << (bits - 1)), (1 << (bits - 1)) - 1)
        return AV(0, (1 << bits) - 1)
    if k == "enum":
        sz = T.get("sz", 4) * 8
        if T.get("signed"):
            return AV(-(1 << (sz - 1)), (1 << (sz - 1)) - 1)
        return AV(0, (1 << sz) - 1)
    if k in ("ptr", "nullptr", "array", "func"):
        return AV(0, (1 << 64) - 1)
    if k == "float":
        return AV(-INF, INF, True)
    return AV(-INF, INF, False)


def is_scalar(T):
    return T.get("k") in ("bool", "int", "enum", "ptr", "float")


def is_intlike(T):
    return T.get("k") in ("bool", "int", "enum")


# glibc <ctype.h> class masks (little endian _ISbit values), with the hull of the
# single-byte ASCII members of the class in the C/POSIX locale
CTYPE_MASKS = {
    256: ("upper", 65, 90), 512: ("lower", 97, 122), 1024: ("alpha", 65, 122), 2048: ("digit", 48, 57),
    4096: ("xdigit", 48, 102), 8192: ("space", 9, 32), 16384: ("print", 32, 126), 32768: ("graph", 33, 126),
    1: ("blank", 9, 32), 2: ("cntrl", 0, 127), 4: ("punct", 33, 126), 8: ("alnum", 48, 122),
}


def ctype_test(e):
    """recognise glibc's  (*__ctype_b_loc())[(int)(x)] & _ISxxx ; returns (arg expr, mask value)"""
    e = strip(e, all_casts=True)
    if not isinstance(e, dict) or e.get("k") != "bin" or e.get("op") != "&":
        return None
    a = strip(e["a"], all_casts=True)
    m = cval(e["b"])
    if m is None or a.get("k") != "idx":
        return None
    base = strip(a["a"], all_casts=True)
    if base.get("k") == "un" and base.get("op") == "*":
        c = strip(base["e"], all_casts=True)
        if c.get("k") == "call" and callee_name(c) == "__ctype_b_loc":
            return a["i"], m
    return None


class Analysis:
    """one run over (part of) a function"""

    def __init__(self, prog, func, summaries=None, hook=None, max_iter=40, edge_hook=None):
        self.prog = prog
        self.f = func
        self.hook = hook          # hook(analysis, block, idx, elem, state) after the transfer of a root element
        self.edge_hook = edge_hook  # edge_hook(analysis, block, decisive condition, truth, state) on branch edges (ghost facts)
        self.summaries = summaries
        self.events = []          # (kind, block id, idx, expr, detail)
        self.pre = {}             # (bid, idx) -> state before that element
        self.block_in = {}        # bid -> state
        self.edge_out = {}        # (bid, succ index) -> state
        self.max_iter = max_iter
        self._tracked = None
        self._taken = None
        self.quiet = False
        self._compute_tracked()

    # ---- which variables are tracked ---------------------------------
    def _compute_tracked(self):
        f = self.f
        taken = set()
        vars_ = {}
        self._globals = {}
        for p in f.params:
            vars_[p["id"]] = p["t"]
        for b, i, n in f.walk_all():
            k = n.get("k")
            if k == "decl":
                for v in n["vars"]:
                    if not v.get("static"):
                        vars_[v["id"]] = v["t"]
                    else:
                        taken.add(v["id"])
                    # C++ reference bound to a variable
                    if f.T(v["t"]).get("k") == "ref" and v.get("init") is not None:
                        r = strip(v["init"])
                        if r.get("k") == "ref" and "id" in r["d"]:
                            taken.add(r["d"]["id"])
            elif k == "un" and n.get("op") == "&":
                base = n["e"]
                # &x, &x.f, &x[i]: x escapes
                while isinstance(base, dict):
                    bb = strip(base)
                    if bb.get("k") == "ref":
                        if "id" in bb["d"]:
                            taken.add(bb["d"]["id"])
                        break
                    if bb.get("k") == "mem" and not bb.get("arrow"):
                        base = bb["b"]
                    elif bb.get("k") == "idx":
                        base = bb["a"]
                    else:
                        break
            elif k in ("call", "construct"):
                for a in n.get("args", []):
                    if isinstance(a, dict) and a.get("k") == "ref" and "id" in a["d"] and a.get("lv"):
                        # passed as lvalue: bound to a reference parameter
                        taken.add(a["d"]["id"])
            elif k == "lambda":
                taken.update(vars_.keys())
            elif k == "ref" and n["d"].get("dk") in ("global", "slocal") and "id" in n["d"]:
                self._globals[n["d"]["id"]] = (n["d"].get("n"), n.get("t"))
        self._vars = vars_
        self._taken = taken
        self._tracked = {i for i, t in vars_.items() if i not in taken and is_scalar(f.T(t))}
        self._gtracked = {i for i, (n, t) in self._globals.items() if i not in taken and is_scalar(f.T(t))}
        # local counters that start at a constant and are only increased: lower bound = that constant
        # (assumption: such counters do not overflow)
        lows = {}
        bad = set()
        for b, i, n in f.walk_all():
            k = n.get("k")
            if k == "decl":
                for v in n["vars"]:
                    if v["id"] in self._tracked and f.T(v["t"]).get("k") == "int":
                        c = cval(v.get("init")) if v.get("init") is not None else None
                        if c is None:
                            bad.add(v["id"])
                        else:
                            lows[v["id"]] = min(lows.get(v["id"], c), c)
            elif k == "bin" and n["op"].endswith("=") and n["op"] not in ("==", "!=", "<=", ">="):
                l = strip(n["a"], lvalue_to_rvalue=False)
                if l.get("k") == "ref" and l["d"].get("id") in self._tracked:
                    vid = l["d"]["id"]
                    c = cval(n["b"])
                    if n["op"] == "=" and c is not None:
                        lows[vid] = min(lows.get(vid, c), c)
                    elif n["op"] == "=" and self._self_plus_nonneg(f, vid, n["b"]):
                        pass        # `x = x + e` with e >= 0: the written-out form of `x += e`
                    elif n["op"] == "+=":
                        RT = f.T(strip(n["b"]).get("t"))
                        rb = strip(n["b"], all_casts=True)
                        nonneg = (c is not None and c >= 0) or (f.T(rb.get("t")).get("k") in ("int", "bool") and not f.T(rb.get("t")).get("signed"))
                        if not nonneg:
                            bad.add(vid)
                    else:
                        bad.add(vid)
            elif k == "un" and n.get("op") in ("--",):
                l = strip(n["e"], lvalue_to_rvalue=False)
                if l.get("k") == "ref" and "id" in l["d"]:
                    bad.add(l["d"]["id"])
        for p in f.params:
            bad.add(p["id"])
        self._mono_lo = {i: c for i, c in lows.items() if i not in bad}
        # struct/pointer roots for member paths: any non-escaped variable
        self._roots = {i for i in vars_ if i not in taken}

    @staticmethod
    def _self_plus_nonneg(f, vid, rhs):
        r = strip(rhs, all_casts=True)
        if not (r.get("k") == "bin" and r.get("op") == "+"):
            return False
        for x, y in ((r["a"], r["b"]), (r["b"], r["a"])):
            xs = strip(x, all_casts=True)
            if xs.get("k") == "ref" and xs["d"].get("id") == vid:
                c = cval(y)
                ys = strip(y, all_casts=True)
                YT = f.T(ys.get("t"))
                if (c is not None and c >= 0) or (YT.get("k") in ("int", "bool") and not YT.get("signed")):
                    return True
        return False

    def entry_state(self):
        st = {}
        for p in self.f.params:
            if p["id"] in self._tracked:
                st[("v", p["id"])] = type_range(self.f.T(p["t"]))
        mono = getattr(self.prog, "monotone", None)
        for gid in self._gtracked:
            n, t = self._globals[gid]
            r = type_range(self.f.T(t))
            if mono and (self.f.file, n) in mono and r.lo < 0:
                r = AV(0, r.hi)
            st[("g", gid)] = r
        return st

    # ---- lvalue keys -----------------------------------------------------
    def lkey(self, e, st=None):
        e = strip(e, lvalue_to_rvalue=False)
        if not isinstance(e, dict):
            return None
        k = e.get("k")
        if st is not None and k in ("idx", "un"):
            # element of the array a tracked local pointer refers to, at a constant index:  p[3], *p
            base = idx = None
            if k == "idx":
                base, idx = strip(e["a"], all_casts=False), e["i"]
            elif e.get("op") == "*":
                base, idx = strip(e["e"], all_casts=False), None
            if isinstance(base, dict) and base.get("k") == "ref" and base["d"].get("id") in self._tracked \
                    and self.f.T(base.get("t")).get("k") == "ptr" and is_scalar(self.f.T(e.get("t"))):
                if idx is None:
                    return ("m", base["d"]["id"], "[0]")
                iv = self.ev(idx, st, True)
                if iv.is_const() and isinstance(iv.lo, int):
                    return ("m", base["d"]["id"], "[%d]" % iv.lo)
            return None
        if k == "ref":
            d = e["d"]
            if d.get("id") in self._tracked:
                return ("v", d["id"])
            if d.get("id") in self._gtracked:
                return ("g", d["id"])
            return None
        if k == "mem":
            path = []
            cur = e
            while isinstance(cur, dict) and cur.get("k") == "mem":
                path.append(("->" if cur.get("arrow") else ".") + cur["f"])
                cur = strip(cur["b"])
            if isinstance(cur, dict) and cur.get("k") == "ref" and cur["d"].get("id") in self._roots:
                if not is_scalar(self.f.T(e["t"])):
                    return None
                return ("m", cur["d"]["id"], "".join(reversed(path)))
            if isinstance(cur, dict) and cur.get("k") == "this":
                if not is_scalar(self.f.T(e["t"])):
                    return None
                return ("m", 0, "".join(reversed(path)))
        return None

    def rng(self, tid):
        return type_range(self.f.T(tid))

    def kill_members(self, st, field=None, root=None):
        for k in list(st):
            if k[0] == "g" and field is None and root is None:
                # unknown store / call: globals whose address never escapes their file are handled by ev_call
                n, t = self._globals[k[1]]
                if (self.f.file, n) in static_globals(self.prog):
                    continue
                st[k] = type_range(self.f.T(t))
                continue
            if k[0] == "m":
                if field is not None and not k[2].endswith(field):
                    continue
                if root is not None and k[1] != root:
                    continue
                del st[k]

    # ---- evaluation ------------------------------------------------------
    def convert(self, v, T, e=None, st=None):
        """C conversion of abstract value v to type T"""
        r = type_range(T)
        k = T.get("k")
        if k == "float":
            return AV(v.lo, v.hi, v.nan)
        if k == "bool":
            if v.nan:
                return AV(0, 1)
            if v.lo > 0 or v.hi < 0:
                return AV(1, 1)
            if v.lo == 0 and v.hi == 0:
                return AV(0, 0)
            return AV(0, 1)
        if k in ("int", "enum", "ptr"):
            if v.nan or v.lo == -INF or v.hi == INF:
                return r
            lo, hi = v.lo, v.hi
            if isinstance(lo, float):
                lo = math.trunc(lo)
            if isinstance(hi, float):
                hi = math.trunc(hi)
            if lo >= r.lo and hi <= r.hi:
                return AV(lo, hi)
            return r
        return v

    def ev(self, e, st, pure=False, root=None):
        """abstract value of e in state st; applies side effects unless pure"""
        if not isinstance(e, dict):
            return AV(-INF, INF)
        f = self.f
        k = e.get("k")
        T = f.T(e.get("t")) if "t" in e else {"k": "none"}
        c = cval(e)
        if c is not None and k not in ("bin", "un", "call", "cast") :
            return AV(c, c)
        if c is not None and k in ("bin", "un", "cast"):
            # constant-folded: no side effects possible
            return AV(c, c)
        if root is not None and e is not root and "sid" in e:
            pure = True
            cached = st.get(("s", e["sid"]))
            if cached is not None:
                return cached
        if k == "lit":
            return self.rng(e["t"])
        if k == "flit":
            v = e.get("fv")
            return AV(v, v)
        if k == "str":
            return AV(1, (1 << 64) - 1)
        if k == "ref":
            key = self.lkey(e)
            if key is not None and key in st:
                return st[key]
            d = e["d"]
            if d.get("dk") == "fn":
                return AV(1, (1 << 64) - 1)
            if T.get("k") == "array":
                return AV(1, (1 << 64) - 1)
            if d.get("dk") == "global" and T.get("const"):
                cg = const_globals(self.prog).get((self.f.file, d["n"]))
                if cg is not None:
                    return AV(cg, cg)
            return type_range(T)
        if k == "mem":
            if not pure:
                self.ev(e["b"], st, pure, root)
            key = self.lkey(e)
            if key is not None and key in st:
                return st[key]
            if T.get("k") == "array":
                return AV(1, (1 << 64) - 1)
            caps = getattr(self, "member_caps", None)
            if caps and e.get("f") in caps and T.get("k") == "int":
                r = type_range(T)
                return AV(max(r.lo, 0), min(r.hi, caps[e["f"]]))
            return type_range(T)
        if k == "cast":
            ck = e.get("ck")
            v = self.ev(e["e"], st, pure, root)
            if ck in ("LValueToRValue", "NoOp", "ArrayToPointerDecay", "FunctionToPointerDecay", "BitCast", "NullToPointer",
                      "ConstructorConversion", "UserDefinedConversion", "DerivedToBase", "UncheckedDerivedToBase", "BaseToDerived"):
                if ck in ("ArrayToPointerDecay", "FunctionToPointerDecay"):
                    return AV(1, (1 << 64) - 1)
                if ck == "NullToPointer":
                    return AV(0, 0)
                if ck in ("ConstructorConversion", "UserDefinedConversion"):
                    return type_range(T)
                if ck in ("DerivedToBase", "UncheckedDerivedToBase", "BaseToDerived"):
                    # offset adjustments keep null/non-null
                    if v.lo > 0:
                        return AV(1, (1 << 64) - 1)
                    if v.hi == 0:
                        return AV(0, 0)
                    return type_range(T)
                return v
            if ck in ("IntegralCast", "IntegralToBoolean", "PointerToBoolean", "FloatingToBoolean", "IntegralToPointer", "PointerToIntegral",
                      "FloatingToIntegral", "IntegralToFloating", "FloatingCast", "BooleanToSignedIntegral"):
                if ck == "FloatingToIntegral":
                    r = type_range(T)
                    if v.nan or v.lo <= r.lo - 1 or v.hi >= r.hi + 1:
                        if not pure:
                            self.events.append(("fp2int-unbounded", e, v))
                        return r
                    return AV(math.trunc(v.lo), math.trunc(v.hi))
                if ck == "IntegralToFloating":
                    return AV(v.lo, v.hi, False)
                if ck == "FloatingCast":
                    return AV(v.lo, v.hi, v.nan)
                return self.convert(v, T)
            if ck == "ToVoid":
                return AV(-INF, INF)
            return type_range(T)
        if k == "un":
            op = e["op"]
            if op in ("++", "--"):
                key = self.lkey(e["e"])
                old = self.ev(e["e"], st, True, root)
                ST = f.T(e["e"].get("t"))
                delta = 1 if op == "++" else -1
                if ST.get("k") == "ptr":
                    new = AV(1, (1 << 64) - 1) if old.lo > 0 else type_range(ST)
                else:
                    new = AV(old.lo + delta, old.hi + delta, old.nan)
                    r = type_range(ST)
                    if ST.get("k") in ("int", "enum", "bool") and not new.within(r.lo, r.hi):
                        if not pure:
                            self.events.append(("wrap", e, old))
                        new = r
                if not pure:
                    self.store(e["e"], key, new, st)
                return old if e.get("post") else new
            v = self.ev(e["e"], st, pure, root)
            if op == "-":
                r = AV(-v.hi, -v.lo, v.nan)
                return self.fit(r, T)
            if op == "+":
                return v
            if op == "!":
                if v.nan:
                    return AV(0, 1)
                if v.lo > 0 or v.hi < 0:
                    return AV(0, 0)
                if v.lo == 0 and v.hi == 0:
                    return AV(1, 1)
                return AV(0, 1)
            if op == "~":
                if is_intlike(T) and v.lo != -INF and v.hi != INF:
                    return self.fit(AV(-v.hi - 1, -v.lo - 1), T)
                return type_range(T)
            if op == "*":
                key = self.lkey(e, st)
                if key is not None and key in st:
                    return st[key]
                return type_range(T)
            if op == "&":
                return AV(1, (1 << 64) - 1)
            return type_range(T)
        if k == "bin":
            return self.ev_bin(e, st, pure, root, T)
        if k == "cond":
            cv = self.ev(e["c"], st, True, root)
            a = b = None
            if cv.lo > 0 or cv.hi < 0 or cv.hi > 0 or cv.lo < 0 or cv.nan:
                sa = self.refine(dict(st), e["c"], True)
                if sa is not None:
                    a = self.ev(e["a"], sa, True, root)
            if cv.contains(0):
                sb = self.refine(dict(st), e["c"], False)
                if sb is not None:
                    b = self.ev(e["b"], sb, True, root)
            r = join(a, b)
            return r if r is not None else type_range(T)
        if k == "call":
            return self.ev_call(e, st, pure, root, T)
        if k == "idx":
            if not pure:
                self.ev(e["a"], st, pure, root)
                self.ev(e["i"], st, pure, root)
            key = self.lkey(e, st)
            if key is not None and key in st:
                return st[key]
            return type_range(T)
        if k == "sizeof":
            return type_range(T)
        if k == "decl":
            for v in e["vars"]:
                if v.get("static"):
                    continue
                key = ("v", v["id"]) if v["id"] in self._tracked else None
                if v.get("init") is not None:
                    val = self.ev(v["init"], st, pure, root)
                    if key and not pure:
                        st[key] = self.convert(val, f.T(v["t"]))
                        self.note_copy(key, v["init"], st)
                elif key and not pure:
                    st[key] = type_range(f.T(v["t"]))   # uninitialised: any value
                if not pure:
                    self.kill_members(st, root=v["id"])
            return AV(-INF, INF)
        if k == "ret":
            if e.get("e") is not None:
                return self.ev(e["e"], st, pure, root)
            return AV(-INF, INF)
        if k in ("construct", "new", "init", "complit", "other", "delete", "ctorinit", "vaarg", "stmtexpr"):
            if not pure:
                for ch in children(e):
                    self.ev(ch, st, pure, root)
                if k in ("construct", "new", "delete", "other", "stmtexpr"):
                    self.kill_members(st)
            if k == "new":
                return AV(1, (1 << 64) - 1) if not e.get("placement") else type_range(T)
            if k == "ctorinit" and not pure and e.get("f"):
                pass
            return type_range(T)
        if k == "this":
            return AV(1, (1 << 64) - 1)
        if k == "zero":
            return AV(0, 0)
        return type_range(T)

    def fit(self, v, T):
        """result of an arithmetic operation computed in type T"""
        k = T.get("k")
        if k == "float":
            return v
        r = type_range(T)
        if k in ("int", "enum", "bool", "ptr"):
            if v.nan or v.lo < r.lo or v.hi > r.hi:
                if k == "int" and T.get("signed") and not v.nan and v.lo <= r.hi and v.hi >= r.lo:
                    # signed overflow is undefined: defined executions stay inside the type
                    return AV(max(v.lo, r.lo), min(v.hi, r.hi))
                return r
        return v

    def ev_bin(self, e, st, pure, root, T):
        op = e["op"]
        f = self.f
        if op == "=":
            v = self.ev(e["b"], st, pure, root)
            LT = f.T(e["a"].get("t"))
            v = self.convert(v, LT) if is_scalar(LT) else v
            if not pure:
                # evaluate lhs sub-expressions for their effects (a[i++] = ..)
                la = strip(e["a"], lvalue_to_rvalue=False)
                if la.get("k") not in ("ref",):
                    for ch in children(la):
                        self.ev(ch, st, pure, root)
                self.store(e["a"], self.lkey(e["a"], st), v, st)
                self.note_copy(self.lkey(e["a"]), e["b"], st)
            return v
        if op == ",":
            self.ev(e["a"], st, pure, root)
            return self.ev(e["b"], st, pure, root)
        if op in ("&&", "||"):
            a = self.ev(e["a"], st, True, root)
            b = self.ev(e["b"], st, True, root)
            ta = None if (a.contains(0) and (a.lo != 0 or a.hi != 0 or a.nan)) else (0 if (a.lo == 0 and a.hi == 0 and not a.nan) else 1)
            tb = None if (b.contains(0) and (b.lo != 0 or b.hi != 0 or b.nan)) else (0 if (b.lo == 0 and b.hi == 0 and not b.nan) else 1)
            if op == "&&":
                if ta == 0 or tb == 0: return AV(0, 0)
                if ta == 1 and tb == 1: return AV(1, 1)
            else:
                if ta == 1 or tb == 1: return AV(1, 1)
                if ta == 0 and tb == 0: return AV(0, 0)
            return AV(0, 1)
        compound = op.endswith("=") and op not in ("==", "!=", "<=", ">=")
        bop = op[:-1] if compound else op
        a = self.ev(e["a"], st, True if compound else pure, root)
        b = self.ev(e["b"], st, pure, root)
        if bop in ("<", ">", "<=", ">=", "==", "!="):
            return self.compare(bop, a, b)
        AT = f.T(e["a"].get("t"))
        CT = f.T(e["ct"]) if compound and "ct" in e else T
        if compound and is_scalar(AT) and CT.get("k") != "ptr":
            a = self.convert(a, CT) if is_scalar(CT) else a
        r = self.arith(bop, a, b, CT, e)
        if compound:
            r = self.convert(r, AT) if is_scalar(AT) else r
            if not pure:
                self.store(e["a"], self.lkey(e["a"]), r, st)
        return r

    def compare(self, op, a, b):
        if a.nan or b.nan:
            maybe_t = True if op == "!=" else None
        if op == "<":
            t, fl = a.hi < b.lo, a.lo >= b.hi
        elif op == "<=":
            t, fl = a.hi <= b.lo, a.lo > b.hi
        elif op == ">":
            t, fl = a.lo > b.hi, a.hi <= b.lo
        elif op == ">=":
            t, fl = a.lo >= b.hi, a.hi < b.lo
        elif op == "==":
            t, fl = (a.lo == a.hi == b.lo == b.hi), (a.hi < b.lo or a.lo > b.hi)
        else:
            t, fl = (a.hi < b.lo or a.lo > b.hi), (a.lo == a.hi == b.lo == b.hi)
        if a.nan or b.nan:
            # comparisons with NaN are false (true for !=)
            if op == "!=":
                fl = False
            else:
                t = False
        if t: return AV(1, 1)
        if fl: return AV(0, 0)
        return AV(0, 1)

    def arith(self, op, a, b, T, e=None):
        k = T.get("k")
        nan = a.nan or b.nan
        if (k in ("int", "enum", "bool") and a.is_const() and b.is_const() and isinstance(a.lo, int) and isinstance(b.lo, int)
                and op in ("&", "|", "^", "<<", ">>")):
            x, y = a.lo, b.lo
            try:
                if op == "&": r = x & y
                elif op == "|": r = x | y
                elif op == "^": r = x ^ y
                elif op == "<<" and 0 <= y < 128: r = x << y
                elif op == ">>" and 0 <= y < 128: r = x >> y
                else: r = None
            except (ValueError, OverflowError):
                r = None
            if r is not None:
                tr = type_range(T)
                if r < tr.lo or r > tr.hi:
                    bits = T.get("bits", (T.get("sz", 4)) * 8)
                    r &= (1 << bits) - 1
                    if T.get("signed") and r >= (1 << (bits - 1)):
                        r -= 1 << bits
                return AV(r, r)
        if k == "ptr":
            # pointer arithmetic: non-null stays non-null
            if a.lo > 0 or (op == "+" and b.lo > 0 and self.f.T(e["b"].get("t")).get("k") == "ptr"):
                return AV(1, (1 << 64) - 1)
            return type_range(T)
        try:
            if op == "+":
                r = AV(a.lo + b.lo, a.hi + b.hi, nan)
            elif op == "-":
                r = AV(a.lo - b.hi, a.hi - b.lo, nan)
            elif op == "*":
                if INF in (abs(a.lo), abs(a.hi), abs(b.lo), abs(b.hi)):
                    return type_range(T) if k != "float" else AV(-INF, INF, True)
                ps = [a.lo * b.lo, a.lo * b.hi, a.hi * b.lo, a.hi * b.hi]
                r = AV(min(ps), max(ps), nan)
            elif op == "/":
                if b.contains(0):
                    self.events.append(("divzero", e, b))
                    return type_range(T) if k != "float" else AV(-INF, INF, True)
                if k == "float":
                    return AV(-INF, INF, nan)
                if INF in (abs(a.lo), abs(a.hi), abs(b.lo), abs(b.hi)):
                    return type_range(T)
                ps = [int(a.lo / b.lo) if False else _cdiv(a.lo, b.lo), _cdiv(a.lo, b.hi), _cdiv(a.hi, b.lo), _cdiv(a.hi, b.hi)]
                r = AV(min(ps), max(ps))
            elif op == "%":
                if b.contains(0):
                    self.events.append(("divzero", e, b))
                    return type_range(T)
                if b.hi == INF or b.lo == -INF:
                    return type_range(T)
                m = max(abs(b.lo), abs(b.hi)) - 1
                if a.lo >= 0:
                    r = AV(0, min(m, a.hi) if a.hi != INF else m)
                else:
                    r = AV(-m, m)
            elif op == "<<":
                if a.lo >= 0 and b.lo >= 0 and b.hi < 64 and a.hi != INF:
                    r = AV(a.lo << b.lo, a.hi << b.hi)
                else:
                    return type_range(T)
            elif op == ">>":
                if a.lo >= 0 and b.lo >= 0 and b.hi != INF and a.hi != INF:
                    r = AV(a.lo >> min(b.hi, 200), a.hi >> b.lo)
                else:
                    return type_range(T)
            elif op == "&":
                m = None
                if b.is_const() and isinstance(b.lo, int) and b.lo > 0 and a.lo >= 0 and a.hi != INF:
                    m, x = b.lo, a
                elif a.is_const() and isinstance(a.lo, int) and a.lo > 0 and b.lo >= 0 and b.hi != INF:
                    m, x = a.lo, b
                if m is not None and x.hi < (m & -m):
                    r = AV(0, 0)                      # every set bit of the mask lies above the value
                elif m is not None and (m & (m + 1)) == 0 and x.hi <= m:
                    r = AV(x.lo, x.hi)                # low-bits mask covering the value: identity
                elif m is not None and (m & (m - 1)) == 0 and x.lo >= m and x.hi < 2 * m:
                    r = AV(m, m)                      # single bit that is set in every value of the range
                elif a.lo >= 0 and b.lo >= 0:
                    r = AV(0, min(a.hi, b.hi))
                elif b.lo >= 0:
                    r = AV(0, b.hi)
                elif a.lo >= 0:
                    r = AV(0, a.hi)
                else:
                    return type_range(T)
            elif op in ("|", "^"):
                if a.lo >= 0 and b.lo >= 0 and a.hi != INF and b.hi != INF:
                    n = max(int(a.hi).bit_length(), int(b.hi).bit_length())
                    r = AV(0 if op == "^" else max(a.lo, b.lo), (1 << n) - 1)
                else:
                    return type_range(T)
            else:
                return type_range(T)
        except (OverflowError, ValueError, ZeroDivisionError):
            return type_range(T)
        if r.lo != r.lo or r.hi != r.hi:   # nan from inf-inf
            return type_range(T) if k != "float" else AV(-INF, INF, True)
        if k == "float":
            return r
        return self.fit(r, T)

    PURE_CALLS = {"strlen", "strcmp", "strncmp", "memcmp", "strchr", "strrchr", "__ctype_b_loc", "__ctype_tolower_loc", "__ctype_toupper_loc",
                  "isspace", "isgraph", "isdigit", "isalpha", "isalnum", "isupper", "islower", "isprint", "ispunct", "isxdigit",
                  "tolower", "toupper", "abs", "labs", "fabs", "mpt_type_int", "mpt_type_uint", "__errno_location", "isnan", "isinf", "memchr",
                  "strtol", "strtoul", "strtoll", "strtoull", "strtoimax", "strtoumax", "strtod", "strtof", "strtold", "floor", "ceil", "sqrt"}
    NONNULL_CALLS = {"__ctype_b_loc", "__errno_location", "__ctype_tolower_loc", "__ctype_toupper_loc"}

    # callback contracts (assumptions stated in the evidence): parser_input.getc behaves like fgetc()
    FIELD_CONTRACTS = {"getc": (-(1 << 31), 255)}

    def ev_call(self, e, st, pure, root, T):
        name = callee_name(e)
        args = e.get("args", [])
        if name is None and e.get("callee") is not None:
            cal = strip(e["callee"], all_casts=True)
            if cal.get("k") == "mem" and cal.get("f") in self.FIELD_CONTRACTS and "parser_input" in cal.get("rec", ""):
                for a in args:
                    self.ev(a, st, pure, root)
                if not pure:
                    self.kill_members(st)
                lo, hi = self.FIELD_CONTRACTS[cal["f"]]
                return AV(lo, hi)
        vals = []
        if e.get("obj") is not None:
            self.ev(e["obj"], st, pure, root)
        elif e.get("callee") is not None:
            self.ev(e["callee"], st, pure, root)
        for a in args:
            vals.append(self.ev(a, st, pure, root))
        if not pure and name not in self.PURE_CALLS:
            self.kill_members(st)
            gk = [k for k in st if k[0] == "g"]
            if gk:
                statics = static_globals(self.prog)
                cs = self.prog.resolve_call(self.f, e) if e.get("fn") else None
                if cs:
                    ce = global_effects(self.prog).get(cs[0].key(), {})
                elif e.get("fn") and not e["fn"].get("inroot"):
                    ce = {}          # library function: cannot name a file-static object
                else:
                    ce = None        # indirect call: may run any function of this file
                mono = getattr(self.prog, "monotone", None) or set()
                for k in gk:
                    gname, t = self._globals[k[1]]
                    if (self.f.file, gname) not in statics:
                        continue
                    if ce is not None and (self.f.file, gname) not in ce:
                        continue
                    w = ce.get((self.f.file, gname)) if ce is not None else None
                    if w is not None:
                        st[k] = join(st[k], w)
                    else:
                        r = type_range(self.f.T(t))
                        if (self.f.file, gname) in mono and r.lo < 0:
                            r = AV(0, r.hi)
                        st[k] = r
        if name in self.NONNULL_CALLS:
            return AV(1, (1 << 64) - 1)
        if self.summaries is not None and name is not None:
            s = self.summaries(self.f, e, vals)
            if s is not None:
                return s
        return type_range(T)

    def note_copy(self, key, rhs, st):
        """remember  x == y + c  for local integer variables (a one-step relational fact: refinements of y reach x and back)"""
        if key is None or key[0] != "v":
            return
        r = rhs
        while isinstance(r, dict) and r.get("k") == "cast" and r.get("ck") in ("LValueToRValue", "NoOp", "IntegralCast"):
            if r.get("ck") == "IntegralCast":
                # only value preserving on the current range
                iv = self.ev(r["e"], st, True)
                tr = type_range(self.f.T(r.get("t")))
                if not iv.within(tr.lo, tr.hi):
                    return
            r = r["e"]
        c = 0
        if isinstance(r, dict) and r.get("k") == "bin" and r.get("op") in ("+", "-") and cval(r["b"]) is not None and cval(r) is None:
            c = cval(r["b"]) if r["op"] == "+" else -cval(r["b"])
            r = r["a"]
            while isinstance(r, dict) and r.get("k") == "cast" and r.get("ck") in ("LValueToRValue", "NoOp", "IntegralCast"):
                r = r["e"]
        yk = self.lkey(r) if isinstance(r, dict) else None
        if yk is not None and yk[0] == "v" and yk != key:
            st[("r", key[1])] = (yk[1], c)

    def propagate(self, st):
        """apply the copy relations x == y + c in both directions"""
        if st is None:
            return st
        for k in [k for k in st if k[0] == "r"]:
            y, c = st[k]
            xk, yk = ("v", k[1]), ("v", y)
            vx, vy = st.get(xk), st.get(yk)
            if vx is None or vy is None or vx.nan or vy.nan:
                continue
            lo = max(vx.lo, vy.lo + c)
            hi = min(vx.hi, vy.hi + c)
            if lo > hi:
                return None
            st[xk] = AV(lo, hi)
            st[yk] = AV(max(vy.lo, lo - c), min(vy.hi, hi - c))
        return st

    def store(self, lhs, key, v, st):
        if key is not None and key[0] == "v":
            # relations that mention the overwritten variable die
            st.pop(("r", key[1]), None)
            for k in [k for k in st if k[0] == "r" and st[k][0] == key[1]]:
                del st[k]
        if key is not None:
            if key[0] == "g":
                st[key] = v
            elif key[0] == "v":
                lb = self._mono_lo.get(key[1])
                if lb is not None and v.lo < lb:
                    v = AV(lb, max(v.hi, lb), v.nan)
                st[key] = v
                self.kill_members(st, root=key[1])
            else:
                fld = key[2].rsplit(">", 1)[-1].rsplit(".", 1)[-1]
                self.kill_members(st, field=fld)
                st[key] = v
            return
        l = strip(lhs, lvalue_to_rvalue=False)
        k = l.get("k") if isinstance(l, dict) else None
        if k == "ref":
            # untracked variable (address taken / aggregate)
            if "id" in l["d"]:
                self.kill_members(st, root=l["d"]["id"])
            return
        if k == "mem":
            self.kill_members(st, field=l["f"])
            return
        # store through pointer / index: may hit any member
        self.kill_members(st)

    # ---- refinement ------------------------------------------------------
    def refine(self, st, c, truth, _depth=0):
        """state st (mutated, returned) under the assumption that condition c is truth; None if infeasible"""
        if st is None or not isinstance(c, dict):
            return st
        k = c.get("k")
        cv = cval(c)
        if cv is not None:
            return st if bool(cv) == truth else None
        if _depth == 0 and self.f.T(c.get("t")).get("k") != "float":
            # the condition was just evaluated as a CFG element: use that value (side effects like n-- are already applied)
            v0 = st.get(("s", c.get("sid"))) if "sid" in c else None
            if v0 is None and not any(n.get("k") == "un" and n.get("op") in ("++", "--") or (n.get("k") == "bin" and n.get("op", "").endswith("=") and n["op"] not in ("==", "!=", "<=", ">=")) for n in walk(c)):
                v0 = self.ev(c, st, True)
            if v0 is None:
                v0 = AV(-INF, INF)
            if truth and v0.lo == 0 and v0.hi == 0 and not v0.nan:
                return None
            if not truth and not v0.contains(0) and not v0.nan:
                return None
        if k == "un" and c.get("op") in ("++", "--") and c.get("post"):
            return st      # value before the (already applied) side effect: nothing to learn from the current state
        if k == "cast":
            ck = c.get("ck")
            if ck in ("IntegralToBoolean", "PointerToBoolean", "LValueToRValue", "NoOp", "FloatingToBoolean"):
                if ck == "LValueToRValue":
                    return self.refine_lv(st, c["e"], truth)
                return self.refine(st, c["e"], truth, _depth + 1)
            if ck == "IntegralCast":
                # zero-ness is preserved by widening / same-width casts
                ST = self.f.T(c["e"].get("t"))
                TT = self.f.T(c.get("t"))
                if ST.get("sz", 0) <= TT.get("sz", 0) or self.ev(c["e"], st, True).within(type_range(TT).lo, type_range(TT).hi):
                    return self.refine(st, c["e"], truth, _depth + 1)
            return st
        if k == "un" and c.get("op") == "!":
            return self.refine(st, c["e"], not truth, _depth + 1)
        if k == "un" and c.get("op") in ("++", "--") and not c.get("post"):
            # value of ++x is the new x (already stored by the transfer)
            return self.refine_lv(st, c["e"], truth)
        if k == "bin":
            op = c["op"]
            if op == "&&":
                if truth:
                    st = self.refine(st, c["a"], True, _depth + 1)
                    return self.refine(st, c["b"], True, _depth + 1)
                return st
            if op == "||":
                if not truth:
                    st = self.refine(st, c["a"], False, _depth + 1)
                    return self.refine(st, c["b"], False, _depth + 1)
                return st
            if op == "=":
                # value of the assignment is the stored value (already applied by transfer)
                return self.refine_lv(st, c["a"], truth)
            if op == ",":
                return self.refine(st, c["b"], truth, _depth + 1)
            if op in ("<", ">", "<=", ">=", "==", "!="):
                return self.refine_cmp(st, op, c["a"], c["b"], truth)
            if op == "&":
                ct = ctype_test(c)
                if ct is not None and truth:
                    arg, mask = ct
                    cls = CTYPE_MASKS.get(mask)
                    if cls:
                        return self.narrow_expr(st, arg, cls[1], cls[2])
                return st
            return st
        if k in ("ref", "mem"):
            return self.refine_lv(st, c, truth)
        if k == "call":
            return st
        return st

    def refine_lv(self, st, lv, truth):
        key = self.lkey(lv)
        v = self.ev(lv, st, True)
        if truth:
            lo, hi = v.lo, v.hi
            if lo == 0 and hi == 0 and not v.nan:
                return None
            if lo == 0: lo = 1 if not isinstance(lo, float) or self.f.T(lv.get("t")).get("k") != "float" else lo
            if hi == 0: hi = -1 if self.f.T(lv.get("t")).get("k") != "float" else hi
            nv = AV(lo, hi, v.nan)
        else:
            if not v.contains(0):
                return None
            nv = AV(0, 0)
        if key is not None:
            st[key] = nv
        return st

    def narrow_expr(self, st, e, lo, hi):
        """assume lo <= e <= hi; pushes the fact through value-preserving casts to a tracked lvalue"""
        v = self.ev(e, st, True)
        nlo, nhi = max(v.lo, lo), min(v.hi, hi)
        if nlo > nhi:
            return None
        cur = e
        while isinstance(cur, dict):
            key = self.lkey(cur)
            if key is not None:
                old = self.ev(cur, st, True)
                st[key] = AV(max(old.lo, nlo), min(old.hi, nhi), False)
                if st[key].lo > st[key].hi:
                    return None
                return st
            if cur.get("k") == "cast":
                ck = cur.get("ck")
                inner = cur["e"]
                if ck in ("LValueToRValue", "NoOp"):
                    cur = inner
                    continue
                if ck in ("IntegralCast", "IntegralToFloating", "FloatingCast"):
                    iv = self.ev(inner, st, True)
                    TT = type_range(self.f.T(cur.get("t")))
                    # value preserving on the current range of the operand?
                    if ck == "IntegralCast" and not iv.within(TT.lo, TT.hi):
                        return st
                    if ck == "IntegralToFloating":
                        IT = self.f.T(inner.get("t"))
                        FT = self.f.T(cur.get("t"))
                        bits = IT.get("bits", 64) - (1 if IT.get("signed") else 0)
                        if bits > FT.get("mant", 24):
                            # rounding may move values across the bound by at most the ulp: stay sound by widening
                            return st
                        nlo, nhi = math.ceil(nlo) if nlo != -INF else nlo, math.floor(nhi) if nhi != INF else nhi
                    cur = inner
                    continue
                return st
            if cur.get("k") == "bin" and cur.get("op") == "=":
                cur = cur["a"]
                continue
            return st
        return st

    @staticmethod
    def _after_effect(e):
        """for an operand whose side effect is already applied (x = .., x op= .., ++x): the lvalue that now holds its value"""
        cur = e
        while isinstance(cur, dict) and cur.get("k") == "cast" and cur.get("ck") in ("LValueToRValue", "NoOp"):
            cur = cur["e"]
        if isinstance(cur, dict):
            if cur.get("k") == "bin" and cur.get("op", "").endswith("=") and cur["op"] not in ("==", "!=", "<=", ">="):
                return cur["a"]
            if cur.get("k") == "un" and cur.get("op") in ("++", "--") and not cur.get("post"):
                return cur["e"]
        return e

    def refine_cmp(self, st, op, a, b, truth):
        a = self._after_effect(a)
        b = self._after_effect(b)
        if not truth:
            op = {"<": ">=", ">": "<=", "<=": ">", ">=": "<", "==": "!=", "!=": "=="}[op]
            nanfalse = True   # negation of a comparison: NaN stays possible
        else:
            nanfalse = False
        va = self.ev(a, st, True)
        vb = self.ev(b, st, True)
        isf = self.f.T(a.get("t")).get("k") == "float" or self.f.T(b.get("t")).get("k") == "float"

        def bounds(op, other, left):
            # constraint interval for the left/right operand given the other's interval
            lo, hi = -INF, INF
            if not left:
                op = {"<": ">", ">": "<", "<=": ">=", ">=": "<=", "==": "==", "!=": "!="}[op]
            if op == "<":
                hi = other.hi if isf else other.hi - 1
            elif op == "<=":
                hi = other.hi
            elif op == ">":
                lo = other.lo if isf else other.lo + 1
            elif op == ">=":
                lo = other.lo
            elif op == "==":
                lo, hi = other.lo, other.hi
            return lo, hi

        for (x, vx, other, left) in ((a, va, vb, True), (b, vb, va, False)):
            if op == "!=":
                if other.is_const() and not other.nan:
                    cst = other.lo
                    nlo, nhi = vx.lo, vx.hi
                    if not isf:
                        if nlo == cst: nlo += 1
                        if nhi == cst: nhi -= 1
                    if nlo > nhi and not vx.nan:
                        return None
                    st2 = self._assign_range(st, x, nlo, nhi, keep_nan=True)
                    if st2 is None:
                        return None
                    st = st2
                continue
            lo, hi = bounds(op, other, left)
            if other.nan and not nanfalse:
                pass
            nlo, nhi = max(vx.lo, lo), min(vx.hi, hi)
            if nlo > nhi:
                if nanfalse and (vx.nan or other.nan):
                    # only NaN can make the negated comparison hold
                    continue
                return None
            st2 = self._assign_range(st, x, nlo, nhi, keep_nan=nanfalse)
            if st2 is None:
                return None
            st = st2
        return st

    def _assign_range(self, st, x, lo, hi, keep_nan):
        cur = x
        # walk through value-preserving casts to a tracked lvalue
        while isinstance(cur, dict):
            key = self.lkey(cur)
            if key is not None:
                old = self.ev(cur, st, True)
                nlo, nhi = max(old.lo, lo), min(old.hi, hi)
                nan = old.nan and keep_nan
                if nlo > nhi:
                    if nan:
                        st[key] = AV(old.lo, old.hi, True)
                        return st
                    return None
                if nan:
                    # NaN still possible: numeric part cannot be narrowed independently (keep hull)
                    st[key] = AV(nlo, nhi, True)
                else:
                    st[key] = AV(nlo, nhi, False)
                return st
            k = cur.get("k")
            if k == "cast":
                ck = cur.get("ck")
                inner = cur["e"]
                if ck in ("LValueToRValue", "NoOp"):
                    cur = inner
                    continue
                if ck == "IntegralCast":
                    iv = self.ev(inner, st, True)
                    TT = type_range(self.f.T(cur.get("t")))
                    if not iv.within(TT.lo, TT.hi):
                        return st
                    cur = inner
                    continue
                if ck == "IntegralToFloating":
                    IT = self.f.T(inner.get("t"))
                    FT = self.f.T(cur.get("t"))
                    bits = IT.get("bits", 64) - (1 if IT.get("signed") else 0)
                    if bits > FT.get("mant", 24):
                        return st
                    lo = math.ceil(lo) if lo != -INF else lo
                    hi = math.floor(hi) if hi != INF else hi
                    cur = inner
                    continue
                if ck == "FloatingCast":
                    ST = self.f.T(inner.get("t"))
                    FT = self.f.T(cur.get("t"))
                    if ST.get("mant", 0) <= FT.get("mant", 0):
                        cur = inner     # widening: exact
                        continue
                    return st
                return st
            if k == "bin" and cur.get("op") == "=":
                cur = cur["a"]
                continue
            return st
        return st

    # ---- fixpoint --------------------------------------------------------
    PK = ("p", "k")     # state entry holding the partition key (trace partitioning on client-chosen facts)

    def run(self, start=None, state=None, max_parts=48):
        """fixpoint; states carrying different values under PK are kept apart (joined only with equal keys)"""
        f = self.f
        if f.nocfg:
            return self
        start = f.entry if start is None else start
        init = self.entry_state() if state is None else state
        PK = self.PK
        parts = {(start, init.get(PK)): init}      # (block, partition key) -> state at block entry
        self.parts = parts
        visits = {}
        work = [(start, init.get(PK))]
        inwork = set(work)
        self.events = []
        self.pre_parts = {}
        pre_src = {}
        limit = 60000
        nparts = {}
        while work and limit > 0:
            limit -= 1
            # process in decreasing block id (approximately reverse post-order in clang CFGs)
            work.sort(key=lambda x: x[0])
            item = work.pop()
            inwork.discard(item)
            bid, pk = item
            b = f.blocks[bid]
            st = dict(parts[item])
            visits[item] = visits.get(item, 0) + 1
            for i, el in enumerate(b.el):
                # one slot per block-entry partition; re-keyed below by the key the state carries *at this element*
                pre_src.setdefault((bid, i), {})[pk] = dict(st)
                v = self.ev(el, st, False, el)
                if "sid" in el and isinstance(v, AV):
                    st[("s", el["sid"])] = v
                if self.hook:
                    self.hook(self, b, i, el, st)
            # successors
            nsucc = len(b.succ)
            for si, s in enumerate(b.succ):
                if s is None:
                    continue
                out = dict(st)
                term = b.term
                if term and term.get("cond") is not None:
                    cls = term["cls"]
                    cond = term["cond"]
                    if cls == "SwitchStmt":
                        sb = f.blocks[s]
                        lab = sb.label
                        cv = self.ev(cond, dict(out), True, cond)
                        if lab and lab.get("k") == "case" and "lo" in lab:
                            if cv.hi < lab["lo"] or cv.lo > lab.get("hi", lab["lo"]):
                                out = None
                            else:
                                out = self.narrow_expr(out, cond, lab["lo"], lab.get("hi", lab["lo"]))
                        elif cv.is_const():
                            # default / fall-out edge: infeasible when a case label matches the constant
                            for s2 in b.succ:
                                l2 = f.blocks[s2].label if s2 is not None else None
                                if l2 and l2.get("k") == "case" and "lo" in l2 and l2["lo"] <= cv.lo <= l2.get("hi", l2["lo"]):
                                    out = None
                                    break
                    elif nsucc == 2 and cls in ("IfStmt", "WhileStmt", "ForStmt", "DoStmt", "ConditionalOperator", "BinaryOperator", "BinaryConditionalOperator"):
                        cs = strip(cond, all_casts=True)
                        if cls != "BinaryOperator" and isinstance(cs, dict) and cs.get("k") == "bin" and cs.get("op") in ("&&", "||") and cval(cs) is None:
                            # this block evaluates the last operand of the chain: the operands before it had the value
                            # that let control get here (true for &&, false for ||)
                            out = self.refine(out, cs["a"], cs["op"] == "&&")
                            out = self.propagate(self.refine(out, cs["b"], si == 0)) if out is not None else None
                        else:
                            out = self.propagate(self.refine(out, cond, si == 0))
                        if out is not None and self.edge_hook:
                            # the operand that decides at *this* block: the rightmost one of a logical chain
                            dc = cond
                            while isinstance(dc, dict) and strip(dc, all_casts=True).get("k") == "bin" and strip(dc, all_casts=True).get("op") in ("&&", "||"):
                                dc = strip(dc, all_casts=True)["b"]
                            self.edge_hook(self, b, dc, si == 0, out)
                eo = self.edge_out.get((bid, si))
                self.edge_out[(bid, si)] = out if eo is None else (eo if out is None else self.join_states(eo, out))
                if out is None:
                    continue
                npk = out.get(PK)
                if (s, npk) not in parts and nparts.get(s, 0) >= max_parts:
                    # too many partitions at this block: fold into the anonymous one
                    npk = "*"
                    out[PK] = npk
                key = (s, npk)
                old = parts.get(key)
                if old is None:
                    new = out
                    nparts[s] = nparts.get(s, 0) + 1
                else:
                    new = self.join_states(old, out, widen=visits.get(key, 0) >= 3, block=s)
                if old is None or new != old:
                    parts[key] = new
                    if key not in inwork:
                        work.append(key)
                        inwork.add(key)
        for k, d in pre_src.items():
            o = self.pre_parts.setdefault(k, {})
            for st in d.values():
                cur = st.get(PK)
                o[cur] = st if cur not in o else self.join_states(o[cur], st)
        # partition-blind views
        self.block_in = {}
        for (bid, pk), st in parts.items():
            o = self.block_in.get(bid)
            self.block_in[bid] = st if o is None else self.join_states(o, st)
        self.pre = {}
        for k, d in self.pre_parts.items():
            o = None
            for st in d.values():
                o = st if o is None else self.join_states(o, st)
            self.pre[k] = o
        self.events_final = list(self.events)
        return self

    def join_states(self, a, b, widen=False, block=None):
        r = {}
        for k in a:
            if k in b:
                va, vb = a[k], b[k]
                if va == vb:
                    r[k] = va
                    continue
                if not isinstance(va, AV) or not isinstance(vb, AV):
                    continue
                j = join(va, vb)
                if widen:
                    th = self.thresholds()
                    lo = va.lo if j.lo >= va.lo else max([t for t in th if t <= j.lo], default=-INF)
                    hi = va.hi if j.hi <= va.hi else min([t for t in th if t >= j.hi], default=INF)
                    # widen to the type bound when known
                    if k[0] in ("v", "g"):
                        tr = type_range(self.f.T(self._vars.get(k[1]) if k[0] == "v" else self._globals[k[1]][1]))
                        lo = max(lo, tr.lo) if lo == -INF else lo
                        hi = min(hi, tr.hi) if hi == INF else hi
                    j = AV(lo, hi, j.nan)
                r[k] = j
        return r

    def thresholds(self):
        """widening thresholds: the integer constants that occur in the function (and their neighbours), 0, +-1"""
        th = getattr(self, "_th", None)
        if th is None:
            th = {0, 1, -1}
            for b, i, n in self.f.walk_all():
                c = cval(n)
                if c is not None and abs(c) < (1 << 62):
                    th.update((c - 1, c, c + 1))
            cg = const_globals(self.prog)
            for gid, (n, t) in self._globals.items():
                v = cg.get((self.f.file, n))
                if v is not None:
                    th.update((v - 1, v, v + 1))
            self._th = th = sorted(th)
        return th

    def val(self, bid, idx, e):
        """value of sub-expression e of CFG element (bid, idx); nested CFG elements use their recorded values"""
        st = self.pre.get((bid, idx))
        if st is None:
            return None
        return self.ev(e, dict(st), True, self.f.blocks[bid].el[idx])

    # ---- queries ---------------------------------------------------------
    def value_at(self, bid, idx, e):
        st = self.pre.get((bid, idx))
        if st is None:
            return None     # unreachable
        return self.ev(e, dict(st), True)

    def reachable(self, bid):
        return bid in self.block_in


def _cdiv(a, b):
    q = abs(a) // abs(b)
    return q if (a >= 0) == (b >= 0) else -q


class Summaries:
    """return-value summaries by abstract evaluation of the callee with the caller's argument intervals"""

    def __init__(self, prog, max_blocks=80, max_depth=3):
        self.prog = prog
        self.memo = {}
        self.depth = 0
        self.max_blocks = max_blocks
        self.max_depth = max_depth

    def __call__(self, f, call, argvals):
        cs = self.prog.resolve_call(f, call)
        if not cs:
            return None
        g = cs[0]
        if g.nocfg or len(g.blocks) > self.max_blocks or len(g.params) != len(argvals):
            return None
        key = (g.key(), tuple((a.lo, a.hi, a.nan) for a in argvals))
        if key in self.memo:
            return self.memo[key]
        if self.depth >= self.max_depth:
            return None
        self.memo[key] = None      # recursion guard
        self.depth += 1
        try:
            an = Analysis(self.prog, g, summaries=self)
            st = an.entry_state()
            for p, v in zip(g.params, argvals):
                if p["id"] in an._tracked:
                    st[("v", p["id"])] = an.convert(v, g.T(p["t"]))
            an.run(state=st)
            r = None
            for (bid, idx), pre in an.pre.items():
                el = g.blocks[bid].el[idx]
                if el.get("k") == "ret" and el.get("e") is not None:
                    r = join(r, an.ev(el["e"], dict(pre), True))
        finally:
            self.depth -= 1
        self.memo[key] = r
        return r


def monotone_counters(prog):
    """file-static integer counters that are only zeroed, incremented or added a non-negative constant"""
    cand = {}
    for u, g in prog.globals:
        T = u.types[g["t"]]
        if g.get("static") and T.get("k") == "int":
            iv = cval(g.get("init"))
            if iv is None or iv >= 0:
                cand[(g["file"], g["n"])] = True
    for f in prog.functions.values():
        if f.nocfg:
            continue
        # locals of this function that are plain copies of a global (one definition: `x = g`)
        copies = {}
        for b, i, n in f.walk_all():
            if n.get("k") == "decl":
                for v in n["vars"]:
                    if v.get("init") is not None:
                        copies.setdefault(v["id"], []).append(v["init"])
            elif n.get("k") == "bin" and n.get("op", "").endswith("=") and n["op"] not in ("==", "!=", "<=", ">="):
                l = strip(n["a"], lvalue_to_rvalue=False)
                if l.get("k") == "ref" and l["d"].get("dk") in ("local", "param") and "id" in l["d"]:
                    copies.setdefault(l["d"]["id"], []).append(n["b"] if n["op"] == "=" else None)
            elif n.get("k") == "un" and n.get("op") in ("++", "--", "&"):
                l = strip(n["e"], lvalue_to_rvalue=False)
                if l.get("k") == "ref" and "id" in l["d"]:
                    copies.setdefault(l["d"]["id"], []).append(None)

        def at_least(e, gname):
            """e is the global itself, a copy of it, or one of those plus a non-negative constant"""
            e = strip(e, all_casts=True)
            if e.get("k") == "bin" and e.get("op") == "+":
                c = cval(e["b"])
                if c is not None and c >= 0:
                    return at_least(e["a"], gname)
                c = cval(e["a"])
                if c is not None and c >= 0:
                    return at_least(e["b"], gname)
                return False
            if e.get("k") == "ref" and e["d"].get("dk") == "global":
                return e["d"]["n"] == gname
            if e.get("k") == "ref" and "id" in e["d"]:
                src = copies.get(e["d"]["id"], [])
                if len(src) == 1 and src[0] is not None:
                    s0 = strip(src[0], all_casts=True)
                    return s0.get("k") == "ref" and s0["d"].get("dk") == "global" and s0["d"]["n"] == gname
            return False

        for b, i, n in f.walk_all():
            k = n.get("k")
            tgt = None
            ok = True
            if k == "bin" and n["op"].endswith("=") and n["op"] not in ("==", "!=", "<=", ">="):
                l = strip(n["a"], lvalue_to_rvalue=False)
                if l.get("k") == "ref" and l["d"].get("dk") == "global":
                    tgt = l["d"]["n"]
                    c = cval(n["b"])
                    ok = (n["op"] in ("=", "+=") and c is not None and c >= 0) or (n["op"] == "=" and at_least(n["b"], tgt))
            elif k == "un" and n.get("op") in ("++", "--", "&"):
                l = strip(n["e"], lvalue_to_rvalue=False)
                if l.get("k") == "ref" and l["d"].get("dk") == "global":
                    tgt = l["d"]["n"]
                    ok = n["op"] == "++"
            if tgt is not None and not ok:
                cand.pop((f.file, tgt), None)
    return set(cand)


def const_globals(prog):
    cg = getattr(prog, "_const_globals", None)
    if cg is None:
        cg = {}
        for u, g in prog.globals:
            T = u.types[g["t"]]
            if T.get("const") and T.get("k") in ("int", "enum", "bool"):
                v = cval(g.get("init"))
                if v is not None:
                    cg[(g["file"], g["n"])] = v
        prog._const_globals = cg
    return cg


def static_globals(prog):
    sg = getattr(prog, "_static_globals", None)
    if sg is None:
        sg = set()
        escaped = set()
        for u, g in prog.globals:
            if g.get("static") and not g.get("slocal"):
                sg.add((g["file"], g["n"]))
        for f in prog.functions.values():
            if f.nocfg:
                continue
            for b, i, n in f.walk_all():
                if n.get("k") == "un" and n.get("op") == "&":
                    x = strip(n["e"], lvalue_to_rvalue=False)
                    if x.get("k") == "ref" and x["d"].get("dk") == "global":
                        escaped.add((f.file, x["d"]["n"]))
        sg -= escaped
        prog._static_globals = sg
    return sg


def global_effects(prog):
    """function key -> {(file, static global): joined constant value stored, or None when unknown}; transitive over resolved calls"""
    ge = getattr(prog, "_global_effects", None)
    if ge is not None:
        return ge
    direct = {}
    calls = {}
    for key, f in prog.functions.items():
        d = {}
        cs = set()
        if not f.nocfg:
            for b, i, n in f.walk_all():
                k = n.get("k")
                tgt = None
                val = None
                if k == "bin" and n["op"].endswith("=") and n["op"] not in ("==", "!=", "<=", ">="):
                    l = strip(n["a"], lvalue_to_rvalue=False)
                    if l.get("k") == "ref" and l["d"].get("dk") == "global":
                        tgt = l["d"]["n"]
                        c = cval(n["b"])
                        val = AV(c, c) if (n["op"] == "=" and c is not None) else None
                elif k == "un" and n.get("op") in ("++", "--"):
                    l = strip(n["e"], lvalue_to_rvalue=False)
                    if l.get("k") == "ref" and l["d"].get("dk") == "global":
                        tgt = l["d"]["n"]
                elif k == "call" and n.get("fn"):
                    for c in prog.resolve_call(f, n):
                        cs.add(c.key())
                if tgt is not None:
                    gk = (f.file, tgt)
                    if gk in d:
                        d[gk] = join(d[gk], val) if (d[gk] is not None and val is not None) else None
                    else:
                        d[gk] = val
        direct[key] = d
        calls[key] = cs
    ge = {k: dict(v) for k, v in direct.items()}
    changed = True
    while changed:
        changed = False
        for k in ge:
            for c in calls[k]:
                for gk, v in ge.get(c, {}).items():
                    if gk not in ge[k]:
                        ge[k][gk] = v
                        changed = True
                    else:
                        old = ge[k][gk]
                        new = join(old, v) if (old is not None and v is not None) else None
                        if new != old:
                            ge[k][gk] = new
                            changed = True
    prog._global_effects = ge
    return ge
