"""Per-property policy: which rules decide which clause, floors, scope, wording for the evidence."""
from . import rules_conv

import json, os


def anchor_files(verif, pid):
    for l in open(os.path.join(verif, "properties.jsonl")):
        d = json.loads(l)
        if d["id"] == pid:
            return d["anchors"]["files"]
    return []


PROPS = {
    "C07": {
        "explanation": "CONV: for every scalar converter behind mpt_data_converter() and the numeral back ends, every case of the type switch is "
                       "analysed with the interval engine in query mode (dest==NULL) and store mode; obligations O1-O6 (reported size, single in-range "
                       "store of the right width, no null dereference, ctype table domain, no store on error, same verdict in both modes). "
                       "ERANGE: every strto*() result reaches a success return only through a test of errno.",
        "not_decided": "library semantics of strtoumax('-1'), consumed-length arithmetic",
        "assumptions": ["C/POSIX locale single-byte ctype classes are ASCII", "two's complement, widths from clang TargetInfo for x86_64"],
        "technique": "interval abstract interpretation with guard refinement over the clang CFG, per switch case and destination mode",
        "level_text": "For the integer targets a discharged store obligation is a proof, for every source value, that the conversion does not wrap or truncate; "
                      "query mode (dest==NULL) provably dereferences nothing and reaches returns of the same sign. Floating targets are judged by representability of the "
                      "source type (FLOAT-INEXACT sites are listed as known findings). Text numerals: structural clause only (errno tested after strto*).",
        "level_note": "trusts clang's AST/CFG/constant evaluator, the id->C type rows of scalar_sizes[] as oracle, glibc's ctype table domain [-128,255]; not decided: strtoumax accepting '-', consumed-length arithmetic",
        "rules": [
            {"run": rules_conv.run, "floor": 300},
            {"run": rules_conv.run_erange, "floor": 5, "scope": "anchors"},
        ],
    },
}
