"""Per-property policy: which rules decide which clause, floors, scope, wording for the evidence."""
from . import rules_conv, rules_table, rules_codec, rules_layout, rules_effect, rules_path, rules_reply, rules_cow, rules_node, rules_ref, rules_ident, rules_traits, rules_event, rules_iter, rules_lin, rules_types

import json, os


def anchor_files(verif, pid):
    for l in open(os.path.join(verif, "properties.jsonl")):
        d = json.loads(l)
        if d["id"] == pid:
            return d["anchors"]["files"]
    return []


PROPS = {
    "C07": {
        "explanation": "CONV: for every scalar converter behind mpt_data_converter() and the numeral back ends, every case of the type switch is "
                       "analysed with the interval engine in query mode (dest==NULL) and store mode; obligations O1-O6 (reported size, single in-range "
                       "store of the right width, no null dereference, ctype table domain, no store on error, same verdict in both modes). "
                       "ERANGE: every strto*() result reaches a success return only through a test of errno. UNSIGNEDTEXT: a function that calls the C library's unsigned text parsers (which accept a minus sign and negate modulo 2^N without error) looks at the text for a '-' itself. CONVBOTH: a function with an optional destination that delegates to a converter runs the converter also when the destination is null (trace partition on its null test). ERANGE also demands that the errno test decides alone: from the edge on which errno == ERANGE holds no success return is reachable. Reference-table rules (MUSTCHECK, RESULTCLASS, ARGDEVIANT, INDEXSTEP; verdict for the files in the directories of the anchor files): compared with tools/sa/mustcheck.json, generated from the unchanged tree and committed, no function ignores more results of a callee than it did, every boundary at which a result was tested is still tested and every single test still separates the same two sets of results, uniform repeated call blocks stay uniform, and no loop gains a way round its per-round index step.",
        "not_decided": "library semantics of strtoumax('-1'), consumed-length arithmetic",
        "assumptions": ["C/POSIX locale single-byte ctype classes are ASCII", "two's complement, widths from clang TargetInfo for x86_64"],
        "technique": "interval abstract interpretation with guard refinement over the clang CFG, per switch case and destination mode",
        "level_text": "For the integer targets a discharged store obligation is a proof, for every source value, that the conversion does not wrap or truncate; "
                      "query mode (dest==NULL) provably dereferences nothing and reaches returns of the same sign. Floating targets are judged by representability of the "
                      "source type (FLOAT-INEXACT sites are listed as known findings). Text numerals: structural clause only (errno tested after strto*).",
        "level_note": "trusts clang's AST/CFG/constant evaluator, the id->C type rows of scalar_sizes[] as oracle, glibc's ctype table domain [-128,255]; not decided: strtoumax accepting '-', consumed-length arithmetic",
        "rules": [
            {"run": rules_path.run_indexstep, "floor": 60, "scope": "anchor-dirs"},
            {"run": rules_effect.run_mustcheck, "floor": 800, "scope": "anchor-dirs"},
            {"run": rules_effect.run_resultclass, "floor": 500, "scope": "anchor-dirs"},
            {"run": rules_path.run_argdeviant, "floor": 5, "scope": "anchor-dirs"},
            {"run": rules_conv.run, "floor": 300},
            {"run": rules_conv.run_erange, "floor": 5, "scope": "anchors"},
            {"run": rules_conv.run_convboth, "floor": 8},
            {"run": rules_conv.run_unsignedtext, "floor": 1},
            {"run": rules_table.run_typemap, "floor": 120, "scope": "anchors"},
            {"run": rules_layout.run_errprop, "floor": 100, "scope": "anchors"},
            {"run": rules_layout.run_convdest, "floor": 60, "scope": "anchors"},
        ],
    },
    "C06": {
        "explanation": "TYPEMAP: the id<->C type<->size relation stated in scalar_sizes/core_sizes, type_properties<T>::id, mpt_data_converter, "
                       "mpt_convert_number, mpt_type_int/uint, mpt_msgvalfmt_code/typeid and mpt_iterator_consume is read from the folded AST and all "
                       "pairs must agree; kind ranges of enum Types disjoint/ordered; interface table slot i holds id base+i; mpt_type_traits() is "
                       "abstractly evaluated for every id with a row and must reach the table that row lives in. REGRANGE: interval analysis of the four "
                       "registration functions: every id returned/stored lies in [Base,Max] of its kind; capacity constants equal Max-Base+1. "
                       "MEMCPYSIZE: memcpy(dst,&obj,sizeof X) copies the whole object. LAZYORDER: table scans (duplicate-name checks, lookups) run only after the lazy-initialisation test of that table. COUNTFAIL: no path from a raise of a registry entry counter (`->used++`, static counts) reaches a `return <negative constant>`: a refused registration leaves the registry as it was. Reference-table rules (MUSTCHECK, RESULTCLASS, ARGDEVIANT, INDEXSTEP; verdict for the files in the directories of the anchor files): compared with tools/sa/mustcheck.json, generated from the unchanged tree and committed, no function ignores more results of a callee than it did, every boundary at which a result was tested is still tested and every single test still separates the same two sets of results, uniform repeated call blocks stay uniform, and no loop gains a way round its per-round index step.",
        "not_decided": "uniqueness/stability over registration histories (append-only shape not yet checked), name lookup results, duplicate-name refusal polarity",
        "assumptions": ["x86_64 type widths from clang TargetInfo"],
        "technique": "constant-table extraction from the folded AST + sibling agreement; interval analysis of id-producing sites; abstract evaluation of the id dispatch",
        "level_text": "Every row of the seven id tables in the build is enumerated and cross-checked; the range clause is an interval proof over all paths of the registration "
                      "functions. Decides the 'correctly described' and 'in the range reserved for their kind' clauses, not uniqueness over histories.",
        "level_note": "trusts clang constant evaluation; scalar_sizes[] rows are the oracle for id->C type; file-static counters only incremented are assumed non-negative (checked by monotone-counter inference)",
        "rules": [
            {"run": rules_path.run_indexstep, "floor": 60, "scope": "anchor-dirs"},
            {"run": rules_effect.run_mustcheck, "floor": 800, "scope": "anchor-dirs"},
            {"run": rules_effect.run_resultclass, "floor": 500, "scope": "anchor-dirs"},
            {"run": rules_path.run_argdeviant, "floor": 5, "scope": "anchor-dirs"},
            {"run": rules_table.run_typemap, "floor": 120, "scope": "anchors"},
            {"run": rules_table.run_regrange, "floor": 6},
            {"run": rules_table.run_countfail, "floor": 3},
            {"run": rules_path.run_lazyorder, "floor": 2, "use_anchor_files": True},
            {"run": rules_table.run_memcpysize, "floor": 3, "ctx": {"files": ["mptcore/types/type_traits.c"]}},
        ],
    },
    "C01": {
        "explanation": "LINCODEC: relational abstract interpretation of the five encoder functions with the output vector as an area of iov_len bytes and the encoder state inside it (done + scratch <= iov_len): every store of the loop-free termination paths (COBS/R tail inline, delimiter) stays inside the vector; stores inside the byte loops are listed as undecided. CURSORPAIR: a cursor kept as (base, used) moves in both members before base is read again. UNDOSET: the block of the encoder that takes a step back (when a full block ends at the buffer end) reverts every counter the step changed. "
                       "STEPPAIR: in mpt_array_push the data pointer and the remaining length move by the same amount. RESUMESAVE: resumable coders save the same state set on every "
                       "suspension exit. CODECPAIR: for every framing id the encoder and decoder switches return two halves of one codec: both present, both regular or both "
                       "tail-inline wrappers of a registered regular pair; the encoder's block limit (`++code == E`) and zero-pair parameters (offset, code range) "
                       "are checked against the decoder's code->(data bytes, zero bytes) table, obtained by abstractly evaluating the decoder's two length "
                       "formulas for every code 1..255; every named framing is handled; the python client's block limit equals the C one and each branch "
                       "that restarts a block appends the next code byte. CODECPAIR also checks that the byte a tail-inline wrapper moves into the code position lies in the block-code range 1..E of the wrapped codec (interval at the store), and that the decoder reads every code above E as the format says. Reference-table rules (MUSTCHECK, RESULTCLASS, ARGDEVIANT, INDEXSTEP; verdict for the files in the directories of the anchor files): compared with tools/sa/mustcheck.json, generated from the unchanged tree and committed, no function ignores more results of a callee than it did, every boundary at which a result was tested is still tested and every single test still separates the same two sets of results, uniform repeated call blocks stay uniform, and no loop gains a way round its per-round index step.",
        "not_decided": "encode/decode identity for every message, split and capacity schedule; 'no zero byte inside a frame'; byte-level bounds of the encoders "
                       "(relational over off/code/left); python encoder beyond the two structural facts",
        "assumptions": [],
        "technique": "relational abstract interpretation (encoder bounds); table extraction from dispatch switches + abstract evaluation of the decoder's length formulas per code value + python ast query",
        "level_text": "Decides a necessary condition of the round trip that is visible in tables and constants: selected encoder/decoder belong together and agree on "
                      "every code value the encoder can emit (255 codes x 2 regular codecs evaluated). Not the byte-level round trip.",
        "level_note": "trusts clang constant folding of the macro-expanded formulas; pattern anchors: `++code == E`, conditional `c + K`, `_ctx & 0xff`",
        "rules": [
            {"run": rules_path.run_indexstep, "floor": 60, "scope": "anchor-dirs"},
            {"run": rules_effect.run_mustcheck, "floor": 800, "scope": "anchor-dirs"},
            {"run": rules_effect.run_resultclass, "floor": 500, "scope": "anchor-dirs"},
            {"run": rules_path.run_argdeviant, "floor": 5, "scope": "anchor-dirs"},
            {"run": rules_lin.run_lincodec, "floor": 30, "use_anchor_files": True},
            {"run": rules_path.run_cursorpair, "floor": 2, "use_anchor_files": True},
            {"run": rules_path.run_undoset, "floor": 2, "use_anchor_files": True},
            {"run": rules_path.run_steppair, "floor": 1, "use_anchor_files": True},
            {"run": rules_codec.run, "floor": 20},
            {"run": rules_path.run_resumesave, "floor": 2, "use_anchor_files": True},
        ],
    },
    "C20": {
        "explanation": "TERMINATED: n bytes copied into a block sized n + 1 are followed by the terminator store on every path. PROPTABLE: for axis/line/text/graph/world the getter's (name,type,offset) table is read from the static initialiser: each row's type tag "
                       "matches the type of the field its offset expression names; the whole-object format[] lines up with the struct's fields (size, number class); "
                       "every listed name is compared by the setter and that setter branch touches the field the row points to (or the sub-struct holding it); literal "
                       "row indices in special cases refer to a row whose setter writes the field the special case reads. CONVDEST: every convert(src, K, &field) with "
                       "constant K targets an object of the C type registered for K. ERRFX: interval analysis with trace partitioning on store sites: no setter path "
                       "stores into the object and then returns an error (unless a later call decides the failure). DEEPCOPY: pointers freed by *_fini are re-duplicated "
                       "after the whole-struct copy in *_init. ERRPROP: no status variable receives a comparison result. NARROWEDGE: a range test in front of a store into a narrower member does not stop exactly one short of the member's range. DEEPCOPY is path-sensitive: after the whole-struct copy every owned string is duplicated or tested null on every path to the return. FINIPATHS: the layout teardown functions look at every owned string on every path. Reference-table rules (MUSTCHECK, RESULTCLASS, ARGDEVIANT, INDEXSTEP; verdict for the files in the directories of the anchor files): compared with tools/sa/mustcheck.json, generated from the unchanged tree and committed, no function ignores more results of a callee than it did, every boundary at which a result was tested is still tested and every single test still separates the same two sets of results, uniform repeated call blocks stay uniform, and no loop gains a way round its per-round index step.",
        "not_decided": "value equality of set/get for every accepted value, colour print/parse round trip, unique-prefix matching behaviour, defaults after reset",
        "assumptions": ["'c' conversions only yield printable ASCII, so a 1 byte integer field of either signedness holds them"],
        "technique": "static table extraction (initialisers, offset expressions) + setter branch/field correspondence + interval analysis with trace partitioning for refusal paths",
        "level_text": "Every row of the five property tables and every name branch of the five setters is enumerated; decides the necessary conditions 'the setter writes what the "
                      "getter reads, with the registered type and width' and 'a refused value leaves the object unchanged' for all paths of the setters.",
        "level_note": "direct stores and mem* writes into the object are effects; writes made by callees that receive &obj->field are attributed to the callee's own result (not counted)",
        "rules": [
            {"run": rules_path.run_indexstep, "floor": 60, "scope": "anchor-dirs"},
            {"run": rules_event.run_finipaths, "floor": 8, "scope": "anchors"},
            {"run": rules_effect.run_mustcheck, "floor": 800, "scope": "anchor-dirs"},
            {"run": rules_effect.run_resultclass, "floor": 500, "scope": "anchor-dirs"},
            {"run": rules_path.run_argdeviant, "floor": 5, "scope": "anchor-dirs"},
            {"run": rules_ident.run_narrowedge, "floor": 20},
            {"run": rules_ident.run_convnarrow, "floor": 1, "use_anchor_files": True},
            {"run": rules_layout.run_terminated, "floor": 1},
            {"run": rules_layout.run_flagpath, "floor": 1},
            {"run": rules_layout.run_proptable, "floor": 100},
            {"run": rules_layout.run_convdest, "floor": 60, "scope": "anchors"},
            {"run": rules_effect.run_layout, "floor": 5},
            {"run": rules_layout.run_deepcopy, "floor": 5},
            {"run": rules_layout.run_errprop, "floor": 100, "scope": "anchors"},
        ],
    },
    "C13": {
        "explanation": "LINBOUNDS: relational abstract interpretation (linear constraints over symbolic field and parameter values, pointers as region + linear offset, "
                       "entailment by Fourier-Motzkin elimination with integer tightening / exact simplex inside the domain) of all 32 functions of the queue files from the most "
                       "general state satisfying the data invariant INV(q): len <= max, off <= max, base = start of a storage area of max bytes. Shown for every path and every "
                       "value of the unknowns: ACCESS each memcpy/memmove/memset/indexed store rooted in the storage, in a caller buffer with a length contract, a local array or a "
                       "fresh allocation stays inside that area; OVERLAP memcpy ranges inside one area are disjoint; INV holds again at every return (so it is inductive over any "
                       "history of calls); REFUSE on an error return the queue fields are unchanged; CONTENT every transfer between storage and caller buffer in pop/shift/get/set/"
                       "push/unshift moves the logical bytes the operation names (physical offset mapped to logical index through off/max, both segments); COVER the pieces add up "
                       "to the requested length. Callees from the queue files are analysed in the caller's context; mpt_memrev/mpt_memswap (loops: joins with affine-relation "
                       "discovery and widening) are verified under a byte-range contract that call sites owe; the C++ wrappers use the C functions through INV-in/INV-out. "
                       "ERRFX, DIVZERO, OUTPARAM, STATUSPOLARITY, SPLITCOPY as before (interval analysis with trace partitioning). Reference-table rules (MUSTCHECK, RESULTCLASS, ARGDEVIANT, INDEXSTEP; verdict for the files in the directories of the anchor files): compared with tools/sa/mustcheck.json, generated from the unchanged tree and committed, no function ignores more results of a callee than it did, every boundary at which a result was tested is still tested and every single test still separates the same two sets of results, uniform repeated call blocks stay uniform, and no loop gains a way round its per-round index step.",
        "not_decided": "content equivalence of the in-place moves (crop in the middle, align/rotate: which byte lands where), mpt_queue_find's element walk (element-size "
                       "multiplication is not linear), behaviour of callers that break INV from outside the queue files",
        "assumptions": ["callers hand (len, data) buffers of at least len bytes (API contract)", "objects are at most PTRDIFF_MAX bytes", "functions outside the queue files that receive a queue keep INV (listed in the evidence)"],
        "technique": "relational abstract interpretation (linear inequalities + region/offset pointers, inductive data invariant, context-sensitive callees, contracts for loop helpers); interval analysis with trace partitioning for the effect/fault rules",
        "level_text": "Proves, for all inputs and all call histories that respect the API contract, that no queue function accesses memory outside the storage area or the caller's buffer, that the "
                      "(base,len,max,off) invariant is preserved, that refused calls leave the fields alone and that the six data-transfer operations move exactly the logical byte range they name; "
                      "not the full byte-sequence equivalence of in-place moves.",
        "level_note": "a failed obligation is reported only when its state is exact (no loop join on the path); failures behind joins are listed as undecided in the evidence (0 today)",
        "rules": [
            {"run": rules_path.run_indexstep, "floor": 60, "scope": "anchor-dirs"},
            {"run": rules_effect.run_mustcheck, "floor": 800, "scope": "anchor-dirs"},
            {"run": rules_effect.run_resultclass, "floor": 500, "scope": "anchor-dirs"},
            {"run": rules_path.run_argdeviant, "floor": 5, "scope": "anchor-dirs"},
            {"run": rules_lin.run_linbounds, "floor": 95, "use_anchor_files": True},
            {"run": rules_path.run_splitcopy, "floor": 2, "use_anchor_files": True},
            {"run": rules_effect.run_objects, "floor": 10, "ctx": {"records": ["mpt_queue", "queue"], "min_functions": 10}, "use_anchor_files": True},
            {"run": rules_path.run_divzero, "floor": 4, "use_anchor_files": True},
            {"run": rules_path.run_outparam_ignored, "floor": 4, "use_anchor_files": True},
            {"run": rules_path.run_statuspolarity, "floor": 1, "use_anchor_files": True},
        ],
    },
    "C12": {
        "explanation": "FORMATARGS: literal log formats get one argument per conversion of the right class (a mismatch on the rejected-send path crashed instead of leaving the request armed). IDFIT: interval proof over mpt_message_id2buf() for each header width 1..8 (trace partition on the remaining length unrolls the byte loop, array elements at constant "
                       "indices are tracked): every id the width table permits is accepted, ids with the reply marker bit or needing more bytes are refused. "
                       "OUTPARAM (callee side): out-parameter summaries by trace-partitioned interval analysis: a result parameter stored on one non-error return is stored on all "
                       "(mpt_message_buf2id and every int function with scalar results in the anchor files). IDWIDTH: the per-width maximum in mpt_command_reserve equals "
                       "2^(8w-1)-1 and the id writer tests the reply marker bit. CONVTYPE: every convert() implementation in the anchor files that answers `type == K` stores a "
                       "pointer to the record type (or a record starting with it) that the consumers of K in the whole program declare. LENCLEARED: in reply senders every "
                       "path from an accepted transport call to the return clears the armed id length. UNINITCTX: context aggregates passed with a callback are initialised first. IDCAP: mpt_message_buf2id() refuses a header only when the count of significant bytes exceeds sizeof(*iptr) (interval of that count at the error return). CONTAINEROF: pointers to embedded interfaces (reply context, metatype) go back to their object by the offset of a member of that type. Reference-table rules (MUSTCHECK, RESULTCLASS, ARGDEVIANT, INDEXSTEP; verdict for the files in the directories of the anchor files): compared with tools/sa/mustcheck.json, generated from the unchanged tree and committed, no function ignores more results of a callee than it did, every boundary at which a result was tested is still tested and every single test still separates the same two sets of results, uniform repeated call blocks stay uniform, and no loop gains a way round its per-round index step.",
        "not_decided": "at-most-once over arm/reply/defer/release histories with a failing transport; the reader side mpt_message_buf2id beyond its result-parameter discipline",
        "assumptions": [],
        "technique": "interprocedural out-parameter summaries (trace-partitioned intervals), table check, provider/consumer pointer-type agreement, typestate on the send/clear pair",
        "level_text": "Four structural necessary conditions of 'each request answered at most once, to the right requester', each enumerated over all functions of the anchor files.",
        "level_note": "consumer types are inferred from every convert(x, K, &p) call in the program; first-member embedding counts as the same interface",
        "rules": [
            {"run": rules_path.run_indexstep, "floor": 60, "scope": "anchor-dirs"},
            {"run": rules_effect.run_mustcheck, "floor": 800, "scope": "anchor-dirs"},
            {"run": rules_effect.run_resultclass, "floor": 500, "scope": "anchor-dirs"},
            {"run": rules_path.run_argdeviant, "floor": 5, "scope": "anchor-dirs"},
            {"run": rules_iter.run_containerof, "floor": 10, "use_anchor_files": True},
            {"run": rules_reply.run_idcap, "floor": 1},
            {"run": rules_reply.run_formatargs, "floor": 100, "scope": "anchors"},
            {"run": rules_reply.run_flexcopy, "floor": 1, "use_anchor_files": True},
            {"run": rules_reply.run_outparam_callee, "floor": 1, "use_anchor_files": True},
            {"run": rules_reply.run_idwidth, "floor": 8},
            {"run": rules_reply.run_idfit, "floor": 23},
            {"run": rules_reply.run_convtype, "floor": 5, "use_anchor_files": True},
            {"run": rules_reply.run_lencleared, "floor": 1, "use_anchor_files": True},
            {"run": rules_reply.run_uninitctx, "floor": 2, "use_anchor_files": True},
        ],
    },
    "C17": {
        "explanation": "FRAGALL: no success return from the zero edge of a test of msg->used without a look at msg->clen. CURSOR: every advance of an iovec cursor in the message functions is paired with a decrement of its element count and happens only while the count is "
                       "non-zero (interval fact at the advance, or a dominating branch on the count's decrement; the position-walk idiom is accepted by shape). "
                       "DECWRAP: no loop condition pre-decrements an unsigned count that may be zero. PROGRESS: every loop changes something one of its exit conditions reads. "
                       "LINMSG: relational abstract interpretation of the message functions with the fragment list as an array of `ndat` (or `clen`) iovec records whose elements are objects with an area of iov_len bytes at iov_base: "
                       "every element access lies inside the list, every byte access and memchr/memcpy extent inside its fragment, and a message handed in by pointer satisfies `used` bytes at base / `clen` fragments at cont again on return (MSGINV); "
                       "first loop iterations are analysed on their own (peeling), unsigned counters that may have wrapped are resolved by the test they sit in. Accesses whose bound is lost at a loop join are listed as undecided. Reference-table rules (MUSTCHECK, RESULTCLASS, ARGDEVIANT, INDEXSTEP; verdict for the files in the directories of the anchor files): compared with tools/sa/mustcheck.json, generated from the unchanged tree and committed, no function ignores more results of a callee than it did, every boundary at which a result was tested is still tested and every single test still separates the same two sets of results, uniform repeated call blocks stay uniform, and no loop gains a way round its per-round index step.",
        "not_decided": "equality with the flat computation (positions, counts, copied bytes) for every way of cutting the data",
        "assumptions": [],
        "technique": "relational abstract interpretation (linear constraints, fragment lists as arrays of records, loop peeling) + interval analysis at cursor advances + dominator/pairing checks + syntactic loop variants",
        "level_text": "Decides that the fragment cursor never leaves the fragment list and every loop terminates on its own exit test, for all 10 message files; not the value equivalence.",
        "level_note": "companion count inferred from struct message fields (cont/clen), locals loaded from them, or the integer parameter following an iovec parameter",
        "rules": [
            {"run": rules_path.run_indexstep, "floor": 60, "scope": "anchor-dirs"},
            {"run": rules_effect.run_mustcheck, "floor": 800, "scope": "anchor-dirs"},
            {"run": rules_effect.run_resultclass, "floor": 500, "scope": "anchor-dirs"},
            {"run": rules_path.run_argdeviant, "floor": 5, "scope": "anchor-dirs"},
            {"run": rules_lin.run_linmsg, "floor": 30, "use_anchor_files": True},
            {"run": rules_path.run_destindep, "floor": 1, "use_anchor_files": True},
            {"run": rules_path.run_fragstate, "floor": 1, "use_anchor_files": True},
            {"run": rules_path.run_fragall, "floor": 3, "use_anchor_files": True},
            {"run": rules_path.run_arraybound, "floor": 2, "use_anchor_files": True},
            {"run": rules_path.run_steppair, "floor": 1, "use_anchor_files": True},
            {"run": rules_path.run_cursor, "floor": 6, "use_anchor_files": True},
            {"run": rules_path.run_decwrap, "floor": 1, "use_anchor_files": True},
            {"run": rules_path.run_progress, "floor": 15, "use_anchor_files": True},
        ],
    },
    "C03": {
        "explanation": "CODECPAIR (as for C01; here its decoder side): the decoder's code -> (data bytes, zero bytes) table, obtained by abstract evaluation of its two length formulas for every code 1..255, is the table of the format: block codes 1..E, and for COBS/ZPE every code above E is <code - (E+1)> data bytes and a zero pair, also the codes the bundled encoder never emits. CURSORSYNC: after mpt_message_read() advanced the cursor a local copy of its position is reloaded, not stepped by hand. CURSORPAIR as for C01. RESUMESAVE: the 'need more input / more space' exits of a resumable decoder save the same set of state fields (sibling agreement over the exits of one function: "
                       "a set saved by at least three exits must not be saved partially by another). PROGRESS: every loop of the frame decoders, mpt_message_read and the queue receive/peek functions changes something one of its exit conditions reads, so "
                       "each decoder call terminates for every byte string and segmentation. CURSOR: the source iovec cursor is only advanced after a successful "
                       "`if (!count--) return` test, i.e. never past the sourcelen elements the caller passed. Reference-table rules (MUSTCHECK, RESULTCLASS, ARGDEVIANT, INDEXSTEP; verdict for the files in the directories of the anchor files): compared with tools/sa/mustcheck.json, generated from the unchanged tree and committed, no function ignores more results of a callee than it did, every boundary at which a result was tested is still tested and every single test still separates the same two sets of results, uniform repeated call blocks stay uniform, and no loop gains a way round its per-round index step.",
        "not_decided": "byte-level bounds of the in-place decode (dst <= src, proc accounting), honesty of the delivered message, rejection of malformed input; a mutant that only breaks the proc bookkeeping is invisible here",
        "assumptions": [],
        "technique": "syntactic loop variants + dominator pairing of cursor advance and count test",
        "level_text": "Termination and 'source cursor stays inside the caller's fragment list' for every decoder loop; nothing about the decoded bytes.",
        "level_note": "the destination cursor (dvec) has no separate count: its bound is the relational invariant stated in the source comment and is not decided",
        "rules": [
            {"run": rules_path.run_indexstep, "floor": 60, "scope": "anchor-dirs"},
            {"run": rules_effect.run_mustcheck, "floor": 800, "scope": "anchor-dirs"},
            {"run": rules_effect.run_resultclass, "floor": 500, "scope": "anchor-dirs"},
            {"run": rules_path.run_argdeviant, "floor": 5, "scope": "anchor-dirs"},
            {"run": rules_codec.run, "floor": 20},
            {"run": rules_path.run_cursorpair, "floor": 2, "use_anchor_files": True},
            {"run": rules_path.run_cursorsync, "floor": 6, "use_anchor_files": True},
            {"run": rules_path.run_progress, "floor": 15, "use_anchor_files": True},
            {"run": rules_path.run_cursor, "floor": 6, "use_anchor_files": True},
            {"run": rules_path.run_resumesave, "floor": 2, "use_anchor_files": True},
        ],
    },
    "C04": {
        "explanation": "LINBUF: relational abstract interpretation (section 3.6 of DESIGN.md) of the 21 functions of the C array/buffer files from the most general state in which every buffer satisfies INV(b): _used <= _size, _size bytes of payload follow the header (unknown buffer pointers are null or such a buffer). Shown for all inputs: each memcpy/memmove/memset/indexed store into a payload, a caller buffer with length contract, a local array or a fresh allocation stays inside it; INV holds again at every return for every buffer the parameters lead to; no member access through a pointer that is null on that path (allocation failure). The allocation contract `_mpt_buffer_alloc(len)`: null or a fresh buffer with _size >= len, _used == 0, and the detach() slot contract: null or a buffer with _size >= len, are used at call sites and checked on _mpt_buffer_alloc / _mpt_buffer_alloc_detach themselves (POST, with the page-size rounding handled by a quotient/product relation and the global page size kept in {0} u [8, 4 MiB+8]). COWGUARD: typestate over the clang CFG (ghost facts fresh/noshared/noimm per buffer pointer, carried as trace partitions of the interval analysis): in every "
                       "function taking an array/slice/encode_array/path handle, each store to the buffer's used length, each mem* into its payload and each call of a buffer-level "
                       "mutator is reached only with a private buffer (detach()/allocation result on that path, a get_flags() test excluding BufferShared and BufferImmutable, a "
                       "private-making handle-level callee that succeeded, or a file-local helper all of whose call sites hold such a guard; the restore-length idiom is accepted). "
                       "STALE: a buffer pointer loaded from the handle is not used after a call that may replace the handle's buffer. NULLCONTRA: trace partitioning on the "
                       "function's own null tests - no dereference on a path class where the pointer is known null. OBJSIZE: copy calls do not read past a source of known size; "
                       "literal zero lengths with a real source are dead copies. STATUSPOLARITY, LAZYINIT, BOUNDSTALE: status/lazy-init/loop-bound idioms. ERRFX on the buffer and "
                       "array primitives: no store into the object on a path that then refuses. COWGUARD also covers what a private-making function returns: the buffer mpt_array_reserve() hands to a writing caller is fresh or tested not shared / not immutable on that path. LINBUF additionally owes FINIIN/FINICOVER for the element finalizer calls (see C05). BUFINSTALL: a buffer produced by detach() or an allocation is installed in a handle only where it is non-null. CLONEFREE: no free() of an object that holds a cloned buffer without a release. LINBUF CUTSPEC: a successful mpt_buffer_cut leaves _used0 - len bytes and returns that length. LINBUF covers the entry points of mpt++/array.cpp as well (three listed as not decided). Reference-table rules (MUSTCHECK, RESULTCLASS, ARGDEVIANT, INDEXSTEP; verdict for the files in the directories of the anchor files): compared with tools/sa/mustcheck.json, generated from the unchanged tree and committed, no function ignores more results of a callee than it did, every boundary at which a result was tested is still tested and every single test still separates the same two sets of results, uniform repeated call blocks stay uniform, and no loop gains a way round its per-round index step.",
        "not_decided": "equality with a value-semantics vector after arbitrary histories (contents, zero fill, exact lengths); element walks that multiply by a run-time element size (init/fini loops); the C++ container templates beyond NULLCONTRA/OBJSIZE",
        "assumptions": ["type_traits.size is non-zero for registered traits (DIVZERO is not armed on element-size divisions)"],
        "technique": "relational abstract interpretation (LINBUF: linear constraints, payload regions, inductive buffer invariant, allocation/detach contracts checked on their implementations); CFG typestate with trace partitioning (copy-on-write discipline), staleness after may-reallocate calls, null-test partitioning, copy-size intervals",
        "level_text": "Decides the aliasing discipline: every write through an array handle in the C layer happens on a private buffer on all paths (24 write sites in 13 functions), "
                      "plus refusal and fault clauses of the array API. A write that reaches a possibly shared buffer is exactly 'the other handle changes'.",
        "level_note": "handle-level scope: functions with a non-const array/slice/encode_array/path parameter in the anchor files and the path/push/message helpers; buffer-level API "
                      "(functions taking a buffer directly) is the callee side of the contract",
        "extra_scope_files": ["mptcore/config/path_addchar.c", "mptcore/config/path_add.c", "mptcore/config/path_del.c", "mptcore/config/path_set.c",
                              "mptcore/array/array_push.c", "mptcore/array/array_message.c", "mptcore/message/message_append.c"],
        "rules": [
            {"run": rules_path.run_indexstep, "floor": 60, "scope": "anchor-dirs"},
            {"run": rules_cow.run_bufinstall, "floor": 20, "scope": "anchors"},
            {"run": rules_ref.run_clonefree, "floor": 3, "scope": "anchors"},
            {"run": rules_effect.run_mustcheck, "floor": 800, "scope": "anchor-dirs"},
            {"run": rules_effect.run_resultclass, "floor": 500, "scope": "anchor-dirs"},
            {"run": rules_path.run_argdeviant, "floor": 5, "scope": "anchor-dirs"},
            {"run": rules_path.run_snprintffit, "floor": 1, "use_anchor_files": True},
            {"run": rules_lin.run_linbuf, "floor": 60, "use_anchor_files": True, "ctx": {"only_dir": "mptcore/array/", "cxx_files": ["mpt++/array.cpp"]}},
            {"run": rules_cow.run, "floor": 20, "use_anchor_files": True},
            {"run": rules_cow.run_sliceoff, "floor": 2, "use_anchor_files": True},
            {"run": rules_path.run_nullcontra, "floor": 60, "use_anchor_files": True},
            {"run": rules_path.run_objsize, "floor": 15, "use_anchor_files": True},
            {"run": rules_path.run_statuspolarity, "floor": 5, "use_anchor_files": True},
            {"run": rules_path.run_lazyinit, "floor": 1, "use_anchor_files": True},
            {"run": rules_path.run_boundstale, "floor": 5, "use_anchor_files": True},
            {"run": rules_effect.run_objects, "floor": 20, "ctx": {"records": ["mpt_buffer", "buffer", "mpt_array", "array"], "min_functions": 10}, "use_anchor_files": True},
        ],
    },
    "C14": {
        "explanation": "CHILDPARENT: all stores `A->children = V` in the program (21 sites) are enumerated; each must be one of five read-confirmed idioms (parent links set on every "
                       "continuation, restore of the same field, function-local holder handed only to mpt_node_clear, next-of-first-child on unlink, link primitive using V->parent). "
                       "MOVECLEAR: a list taken from another node's children is given up by that node. UAF: trace partitioning on released pointers (free / mpt_node_destroy / unref): "
                       "no access or hand-off after release. ALLOCPOLARITY: for x = g() with g null-on-failure, returns reached with x known non-null are not all failures while "
                       "success is reachable with x null. NODEGUARD: free(node) in mpt_node_destroy is dominated by the three link tests; mpt_node_clear resets the links before destroy. LINNODE NOREF: a node the function cut loose (parent, next, prev null at return) is no longer the child/next/prev of any node the function looked at (equalities learnt from pointer comparisons are applied to the member that was compared). CHILDLIST: where a built sibling list becomes `A->children`, a loop over its next chain sets `->parent = A`. Reference-table rules (MUSTCHECK, RESULTCLASS, ARGDEVIANT, INDEXSTEP; verdict for the files in the directories of the anchor files): compared with tools/sa/mustcheck.json, generated from the unchanged tree and committed, no function ignores more results of a callee than it did, every boundary at which a result was tested is still tested and every single test still separates the same two sets of results, uniform repeated call blocks stay uniform, and no loop gains a way round its per-round index step.",
        "not_decided": "global shape invariants (acyclicity, single reachability) over operation histories; equality of a clone with its source",
        "assumptions": [],
        "technique": "enumerated-idiom check over every children store + CFG reachability/dominators + trace-partitioned typestate (released pointers, null outcomes) + relational abstract interpretation over symbolic node objects (link pairing, no reference to a detached node)",
        "level_text": "Decides the link-pairing clauses (every child names its parent after each attach; moved lists have one owner; destroy/clear guards) for every site in the build.",
        "level_note": "idiom list frozen from today's 21 sites, one reason each; anything else is reported",
        "rules": [
            {"run": rules_path.run_indexstep, "floor": 60, "scope": "anchor-dirs"},
            {"run": rules_effect.run_mustcheck, "floor": 800, "scope": "anchor-dirs"},
            {"run": rules_effect.run_resultclass, "floor": 500, "scope": "anchor-dirs"},
            {"run": rules_path.run_argdeviant, "floor": 5, "scope": "anchor-dirs"},
            {"run": rules_node.run_childlist, "floor": 2},
            {"run": rules_lin.run_linnode, "floor": 4, "use_anchor_files": True},
            {"run": rules_node.run_childparent, "floor": 18},
            {"run": rules_node.run_destroy_guard, "floor": 4},
            {"run": rules_path.run_uaf, "floor": 5, "use_anchor_files": True},
            {"run": rules_path.run_allocpolarity, "floor": 5, "use_anchor_files": True},
        ],
    },
    "C15": {
        "explanation": "LOWERFAIL: after mpt_refcount_lower() left other references a failure return is preceded by mpt_refcount_raise(). REFWRITE: every store to refcount::_val in the program is in the refcount primitives or a positive-constant initialisation. REFSHAPE: interval analysis of "
                       "mpt_refcount_raise/lower with a ghost net-change counter as trace partition: the counter is only changed while known non-zero, a kept increment returns "
                       "non-zero, every other exit returns the failure value with no net change (overflow is undone). UNREFIMPL: for every vtable whose addref slot raises a counter, "
                       "the unref slot's teardown calls are dominated by the test of mpt_refcount_lower() and unreachable from its 'references remain' edge. REFREPLACE: a value "
                       "loaded from a reference slot that is then overwritten is only ever unref'ed; addref results are tested. UAF/NULLCONTRA on the anchor files. LINFINI (see C05): the last handle's release finalizes every element of the used part, so what the elements reference is released exactly then. CLONEFREE: an object that took a reference through mpt_array_clone() is not freed without giving it back. FINIPATHS and CONTAINEROF as for C11 / C19. Reference-table rules (MUSTCHECK, RESULTCLASS, ARGDEVIANT, INDEXSTEP; verdict for the files in the directories of the anchor files): compared with tools/sa/mustcheck.json, generated from the unchanged tree and committed, no function ignores more results of a callee than it did, every boundary at which a result was tested is still tested and every single test still separates the same two sets of results, uniform repeated call blocks stay uniform, and no loop gains a way round its per-round index step.",
        "not_decided": "'destroyed exactly when the last reference is dropped' over histories spanning several functions; C++ reference<T> beyond UAF/REFWRITE",
        "assumptions": [],
        "technique": "who-may-write enumeration, interval analysis with ghost counters (trace partitioning), dominator/reachability check on vtable-resolved unref implementations, relational abstract interpretation of the buffer release (finalizer loop coverage)",
        "level_text": "Decides the counter discipline: the only code that changes a count is raise/lower, their overflow/zero behaviour is proved on all paths, and every counted "
                      "object kind tears down only at zero (8 kinds); replacement sites release the old referent.",
        "level_note": "vtable slots are resolved from static initialisers; counted kinds are those whose addref implementation calls the raise primitive",
        "rules": [
            {"run": rules_path.run_indexstep, "floor": 60, "scope": "anchor-dirs"},
            {"run": rules_ref.run_clonefree, "floor": 3, "scope": "anchors"},
            {"run": rules_event.run_finipaths, "floor": 8, "scope": "anchors"},
            {"run": rules_effect.run_mustcheck, "floor": 800, "scope": "anchor-dirs"},
            {"run": rules_effect.run_resultclass, "floor": 500, "scope": "anchor-dirs"},
            {"run": rules_path.run_argdeviant, "floor": 5, "scope": "anchor-dirs"},
            {"run": rules_iter.run_containerof, "floor": 15, "use_anchor_files": True},
            {"run": rules_lin.run_linfini, "floor": 4},
            {"run": rules_ref.run_raisefail, "floor": 1},
            {"run": rules_ref.run_lowerfail, "floor": 1},
            {"run": rules_ref.run_reforder, "floor": 1, "use_anchor_files": True},
            {"run": rules_ref.run_refwrite, "floor": 10},
            {"run": rules_ref.run_refshape, "floor": 6},
            {"run": rules_ref.run_unrefimpl, "floor": 6},
            {"run": rules_ref.run_refreplace, "floor": 3, "use_anchor_files": True},
            {"run": rules_path.run_uaf, "floor": 3, "use_anchor_files": True},
            {"run": rules_path.run_nullcontra, "floor": 30, "use_anchor_files": True},
        ],
    },
    "C16": {
        "explanation": "LINIDENT: relational abstract interpretation of identifier.c with INV(id): _val is an inline area of at least _max (and at least 4) bytes, _base a block of _len bytes while _len > _max: every copy stays inside the chosen area, INV holds at return, _base is not read after a write through _val ran over it (OVERLAY). IDENTOVERLAY: struct layout (_base directly follows _val[4]) is read from the record; trace partitioning on 'content possibly longer than 4 bytes was written "
                       "at X->_val': no read of X->_base in such a state until _base is assigned; every read of _base that follows the pointer is under the discriminant "
                       "X->_len > X->_max (conditional-operator arm or dominating branch). NARROW: interval of every value stored to identifier._len (u16) / _max (u8) lies in "
                       "the field range (null-test partitions + copy relations x = y + c). ALLOCPOLARITY, NULLCONTRA (incl. NULL handed to memcpy/strlen), UAF, OBJSIZE on the anchor files. EXTLONG: a block a function allocates and installs as `_base` goes with `_len > _max` at return. Reference-table rules (MUSTCHECK, RESULTCLASS, ARGDEVIANT, INDEXSTEP; verdict for the files in the directories of the anchor files): compared with tools/sa/mustcheck.json, generated from the unchanged tree and committed, no function ignores more results of a callee than it did, every boundary at which a result was tested is still tested and every single test still separates the same two sets of results, uniform repeated call blocks stay uniform, and no loop gains a way round its per-round index step.",
        "not_decided": "read-back equality and comparison results per length; leak freedom on every path",
        "assumptions": [],
        "technique": "relational abstract interpretation (identifier storage); layout facts from the record + typestate (overlay) with trace partitioning + dominator check of the storage discriminant + interval analysis of narrow stores",
        "level_text": "Decides the storage discipline of the inline/external overlay for all functions touching identifier._val/_base (23 reads/writes) on every path.",
        "level_note": "identity comparisons of _base (address-type identifiers in mpt_node_locate) are not content reads",
        "rules": [
            {"run": rules_path.run_indexstep, "floor": 60, "scope": "anchor-dirs"},
            {"run": rules_effect.run_mustcheck, "floor": 800, "scope": "anchor-dirs"},
            {"run": rules_effect.run_resultclass, "floor": 500, "scope": "anchor-dirs"},
            {"run": rules_path.run_argdeviant, "floor": 5, "scope": "anchor-dirs"},
            {"run": rules_lin.run_linident, "floor": 18, "use_anchor_files": True},
            {"run": rules_ident.run_inlinefit, "floor": 5},
            {"run": rules_ident.run_identoverlay, "floor": 15},
            {"run": rules_ident.run_narrow, "floor": 3, "use_anchor_files": True, "ctx": {"records": ["mpt_identifier", "identifier"]}},
            {"run": rules_path.run_allocpolarity, "floor": 1, "use_anchor_files": True},
            {"run": rules_path.run_nullcontra, "floor": 10, "use_anchor_files": True},
            {"run": rules_path.run_uaf, "floor": 1, "use_anchor_files": True},
            {"run": rules_path.run_objsize, "floor": 3, "use_anchor_files": True},
        ],
    },
    "C05": {
        "explanation": "CTORCOVER/CTORFAIL: inside constructing loops the used length records the loop position before the function ends on a failing constructor. FINIMATCH: a loop that finalises what is about to be rebuilt is bounded by the end of the rebuilt range. TRAITS: every static type_traits initialiser (41 incl. the C++ type_properties pattern) pairs init with fini and states the size of the type its init/fini "
                       "bodies cast the element to. FINILOOP: element loops calling traits->init/fini (found through the call via those fields) pass `payload + index` with the "
                       "range offset applied once. DEADFINI: where a function gives 'bound == 0' a meaning of its own, the used length of the loop's buffer is not changed in that "
                       "path class (trace partition on bound == 0). DETACHCOPY: detach implementations copy a still-shared source through mpt_buffer_set (element copy), raw "
                       "memcpy only on the relocating path. USEDNOTSIZE: element counts come from _used. BUFMIX: mutators get lengths of their own buffer. UAF and ALLOCPOLARITY "
                       "(init callbacks) on the anchor files. LINFINI: relational analysis of the array functions that call an element finalizer: FINIIN (what is handed to `fini` is a complete element of the used part) and FINICOVER (a function that frees the buffer leaves its finalizer loop with less than one element of the used part left). LINIDENT (see C16) is run here too because identifiers are managed elements: EXTLONG (a block installed as `_base` goes with `_len > _max`, else the copy reads as inline and the block is never freed). The full LINBUF analysis (see C04) runs here too (USEDCOVER, CUTSPEC, FINIIN, FINICOVER), with BUFINSTALL, CLONEFREE and FINIPATHS (a teardown function looks at every member it releases on every path). Reference-table rules (MUSTCHECK, RESULTCLASS, ARGDEVIANT, INDEXSTEP; verdict for the files in the directories of the anchor files): compared with tools/sa/mustcheck.json, generated from the unchanged tree and committed, no function ignores more results of a callee than it did, every boundary at which a result was tested is still tested and every single test still separates the same two sets of results, uniform repeated call blocks stay uniform, and no loop gains a way round its per-round index step.",
        "not_decided": "exact-once along arbitrary histories with failing constructors (needs a live-set); SHRINKFINI for arbitrary assignments lowering _used (only the bound==0 form is decided)",
        "assumptions": [],
        "technique": "static table check + loop shape analysis (element address normal form) + trace-partitioned interval analysis + vtable-resolved dominator checks + relational abstract interpretation of the finalizer loops and of the identifier functions",
        "level_text": "Pairing clauses of 'finalised exactly once': what is constructed has a destructor of the right size, destructor loops address exactly the element range, and "
                      "the one place where a length parameter switches meaning cannot drop elements unfinalised.",
        "level_note": "destructor-only traits of non-copyable C++ unique arrays are accepted (noted in evidence)",
        "rules": [
            {"run": rules_path.run_indexstep, "floor": 60, "scope": "anchor-dirs"},
            {"run": rules_cow.run_bufinstall, "floor": 20, "scope": "anchors"},
            {"run": rules_ref.run_clonefree, "floor": 3, "scope": "anchors"},
            {"run": rules_event.run_finipaths, "floor": 8, "scope": "anchors"},
            {"run": rules_effect.run_mustcheck, "floor": 800, "scope": "anchor-dirs"},
            {"run": rules_effect.run_resultclass, "floor": 500, "scope": "anchor-dirs"},
            {"run": rules_path.run_argdeviant, "floor": 5, "scope": "anchor-dirs"},
            {"run": rules_lin.run_linbuf, "floor": 60, "ctx": {"files_of": "C04", "only_dir": "mptcore/array/", "cxx_files": ["mpt++/array.cpp"]}},
            {"run": rules_lin.run_linident, "floor": 18, "ctx": {"files": ["mptcore/misc/identifier.c"]}},
            {"run": rules_traits.run_ctorfail, "floor": 2},
            {"run": rules_traits.run_finimatch, "floor": 1},
            {"run": rules_traits.run_ctorcover, "floor": 2},
            {"run": rules_traits.run_traits, "floor": 20},
            {"run": rules_traits.run_finiloop, "floor": 6},
            {"run": rules_traits.run_deadfini, "floor": 3},
            {"run": rules_traits.run_detachcopy, "floor": 2},
            {"run": rules_traits.run_retype, "floor": 2},
            {"run": rules_path.run_usednotsize, "floor": 20},
            {"run": rules_path.run_bufmix, "floor": 1},
            {"run": rules_path.run_uaf, "floor": 3, "use_anchor_files": True},
            {"run": rules_path.run_allocpolarity, "floor": 3, "use_anchor_files": True},
        ],
    },
    "C10": {
        "explanation": "LINPATH as for C08 (path_set, path_valid, path_data, path_fini, addchar/delchar, invalidate; add/del/last/next are excluded by name: their indexing is justified by lengths stored in the text). NARROW: every store to path.first (u8) in the anchor files has a value interval inside the field (the 0 = 'search separator' escape counts). USEDNOTSIZE / "
                       "BUFMIX on the config item arrays. CONVDEST on mpt_config_get/convert callers. REFREPLACE in mpt_meta_set. NULLCONTRA, UAF, OBJSIZE on the anchor files. "
                       "(COWGUARD/STALE on the path_* buffer helpers is part of the C04 check; the config item arrays are unique, never shared, and out of its scope.) SETBEFOREUSE: members of a local path set from the caller's separator/assign parameters are set before the path is handed to a callee that reads them (mpt_path_set). Reference-table rules (MUSTCHECK, RESULTCLASS, ARGDEVIANT, INDEXSTEP; verdict for the files in the directories of the anchor files): compared with tools/sa/mustcheck.json, generated from the unchanged tree and committed, no function ignores more results of a callee than it did, every boundary at which a result was tested is still tested and every single test still separates the same two sets of results, uniform repeated call blocks stay uniform, and no loop gains a way round its per-round index step.",
        "not_decided": "map semantics over assign/remove/query histories; longest-prefix lookup results",
        "assumptions": [],
        "technique": "relational abstract interpretation (path primitives); interval analysis of narrow stores with null-test partitions; table and typestate rules shared with C04/C05/C15",
        "level_text": "Decides the path-element clause (element lengths across the 255 limit are rejected or escaped) and memory-discipline necessary conditions of the store.",
        "level_note": "",
        "rules": [
            {"run": rules_path.run_indexstep, "floor": 60, "scope": "anchor-dirs"},
            {"run": rules_effect.run_mustcheck, "floor": 800, "scope": "anchor-dirs"},
            {"run": rules_effect.run_resultclass, "floor": 500, "scope": "anchor-dirs"},
            {"run": rules_path.run_argdeviant, "floor": 5, "scope": "anchor-dirs"},
            {"run": rules_path.run_setbeforeuse, "floor": 40},
            {"run": rules_path.run_queryrest, "floor": 5},
            {"run": rules_lin.run_linpath, "floor": 10},
            {"run": rules_ident.run_narrow, "floor": 4, "use_anchor_files": True, "ctx": {"records": ["mpt_path", "path"]}},
            {"run": rules_path.run_usednotsize, "floor": 2, "use_anchor_files": True},
            {"run": rules_path.run_bufmix, "floor": 1},
            {"run": rules_layout.run_convdest, "floor": 60, "scope": "anchors"},
            {"run": rules_ref.run_refreplace, "floor": 1, "use_anchor_files": True},
            {"run": rules_path.run_nullcontra, "floor": 20, "use_anchor_files": True},
            {"run": rules_path.run_uaf, "floor": 1, "use_anchor_files": True},
        ],
    },
    "C08": {
        "explanation": "LINPATH: relational abstract interpretation of the path primitives (array flag set: base is the payload of a buffer with off + len <= _used; clear: caller memory; single-bit facts about the flag word): stores such as the terminator base[len] stay inside the payload, the path/buffer relation holds again at return. PROGRESS over every loop of the parser stages (each cycle consumes input through one of the character readers or changes what its exit reads). GETCWHO: the "
                       "input callback is invoked by exactly the three character readers and no stage replaces the caller's input source, i.e. each character is obtained once and "
                       "there is no push-back path. ERRFX on mpt_parse_node: no store to the target root on a path that returns an error (the temporary tree is merged only after "
                       "err >= 0). CTYPEARG: every <ctype.h> table index lies in [-128,255] (interprocedural return summaries of the readers). NARROW on path.first. "
                       "UAF/NULLCONTRA/OBJSIZE/BOUNDSTALE on the anchor files. LOCALFINI: the path object the parse loop keeps handing to the format reader and the handler is released (mpt_path_fini) on every return reachable from those calls. Reference-table rules (MUSTCHECK, RESULTCLASS, ARGDEVIANT, INDEXSTEP; verdict for the files in the directories of the anchor files): compared with tools/sa/mustcheck.json, generated from the unchanged tree and committed, no function ignores more results of a callee than it did, every boundary at which a result was tested is still tested and every single test still separates the same two sets of results, uniform repeated call blocks stay uniform, and no loop gains a way round its per-round index step.",
        "not_decided": "absence of every invalid access for hostile input; well-nestedness of the emitted event sequence; leak freedom on all error paths",
        "assumptions": ["parser_input.getc callbacks follow the fgetc() contract: result <= 255 (negative or 0 ends the input)"],
        "technique": "relational abstract interpretation (path primitives); syntactic loop variants + who-may-call check on the input callback + trace-partitioned effect-before-refusal analysis + interval analysis with call summaries",
        "level_text": "Termination after reading each character once, and 'a failed parse leaves the target tree as it was', for every input and format (structural proofs over all paths).",
        "level_note": "callee effects on the tree (mpt_node_move/clear inside the merge) belong to the success path",
        "rules": [
            {"run": rules_path.run_indexstep, "floor": 60, "scope": "anchor-dirs"},
            {"run": rules_effect.run_mustcheck, "floor": 800, "scope": "anchor-dirs"},
            {"run": rules_effect.run_resultclass, "floor": 500, "scope": "anchor-dirs"},
            {"run": rules_path.run_argdeviant, "floor": 5, "scope": "anchor-dirs"},
            {"run": rules_path.run_localfini, "floor": 1},
            {"run": rules_lin.run_linpath, "floor": 10},
            {"run": rules_path.run_progress, "floor": 8, "use_anchor_files": True},
            {"run": rules_path.run_getcwho, "floor": 3},
            {"run": rules_effect.run_named, "floor": 1, "ctx": {"functions": [["mpt_parse_node", 0]]}},
            {"run": rules_path.run_ctypearg, "floor": 6, "use_anchor_files": True},
            {"run": rules_ident.run_narrow, "floor": 1, "use_anchor_files": True, "ctx": {"records": ["mpt_path", "path"]}},
            {"run": rules_path.run_validreset, "floor": 3},
            {"run": rules_path.run_nullcontra, "floor": 20, "use_anchor_files": True},
            {"run": rules_path.run_uaf, "floor": 1, "use_anchor_files": True},
            {"run": rules_path.run_objsize, "floor": 2, "use_anchor_files": True},
        ],
    },
    "C09": {
        "explanation": "NARROW: the 16 bit parser_context.valid length receives mpt_path_valid() (int): stores whose interval leaves [0,65535] truncate long values "
                       "(10 sites, listed as known findings: widening the public struct is not a small repair). OBJSIZE/STATUSPOLARITY: the long-value branch of mpt_meta_new copies "
                       "len bytes from the text (no dead copy, no over-read of the terminator literal, status tested with < 0). CONVDEST on the string conversions; NULLCONTRA, UAF. Reference-table rules (MUSTCHECK, RESULTCLASS, ARGDEVIANT, INDEXSTEP; verdict for the files in the directories of the anchor files): compared with tools/sa/mustcheck.json, generated from the unchanged tree and committed, no function ignores more results of a callee than it did, every boundary at which a result was tested is still tested and every single test still separates the same two sets of results, uniform repeated call blocks stay uniform, and no loop gains a way round its per-round index step.",
        "not_decided": "tree equality (nesting, order, names, quoting, whitespace invariance): input/output relations of the tokenizer",
        "assumptions": [],
        "technique": "interval analysis of narrow stores and copy lengths; status-polarity and table rules shared with C04/C07",
        "level_text": "Decides only the 'values of any length' clause through its two structural necessary conditions; the rest of the property is not decided statically.",
        "level_note": "",
        "rules": [
            {"run": rules_path.run_indexstep, "floor": 60, "scope": "anchor-dirs"},
            {"run": rules_effect.run_mustcheck, "floor": 800, "scope": "anchor-dirs"},
            {"run": rules_effect.run_resultclass, "floor": 500, "scope": "anchor-dirs"},
            {"run": rules_path.run_argdeviant, "floor": 5, "scope": "anchor-dirs"},
            {"run": rules_table.run_inlinecap, "floor": 1},
            {"run": rules_path.run_reservecap, "floor": 2, "use_anchor_files": True},
            {"run": rules_ident.run_narrow, "floor": 5, "use_anchor_files": True, "ctx": {"records": ["mpt_parser_context", "parser_context"]}},
            {"run": rules_path.run_objsize, "floor": 2, "use_anchor_files": True},
            {"run": rules_path.run_statuspolarity, "floor": 2, "use_anchor_files": True},
            {"run": rules_layout.run_convdest, "floor": 60, "scope": "anchors"},
            {"run": rules_path.run_validreset, "floor": 3},
            {"run": rules_path.run_nullcontra, "floor": 10, "use_anchor_files": True},
            {"run": rules_path.run_uaf, "floor": 1, "use_anchor_files": True},
        ],
    },
    "C11": {
        "explanation": "FINIALL: the teardown loops leave only on the index bound. FORMATARGS: literal log formats get one argument per conversion of the right class. FINALISER: typestate per handler slot (records holding a two-argument function pointer `cmd` next to `arg`), ghost facts notified/empty/fresh carried as trace "
                       "partitions: every store to a slot's handler in the dispatcher files happens after handler(arg, NULL) ran on that path, after a test showed the slot empty, "
                       "on a slot just obtained from mpt_command_empty()/a fresh insert, or in an initialiser; mpt_command_find() returns occupied slots only (an emptied slot can "
                       "never be invoked); mpt_command_clear() and the traits finaliser notify before dropping slots. IDWIDTH (shared with C12) bounds reserved request ids. USEDNOTSIZE: element counts of the command table come from `_used`, never from the capacity. DEFAULTSET: every way through the branch taken on the handler's Default flag stores the dispatcher's default id before returning. FINIPATHS: mpt_dispatch_fini looks at every member it releases (command table, fallback handler, context) on every path from entry to return. Reference-table rules (MUSTCHECK, RESULTCLASS, ARGDEVIANT, INDEXSTEP; verdict for the files in the directories of the anchor files): compared with tools/sa/mustcheck.json, generated from the unchanged tree and committed, no function ignores more results of a callee than it did, every boundary at which a result was tested is still tested and every single test still separates the same two sets of results, uniform repeated call blocks stay uniform, and no loop gains a way round its per-round index step.",
        "not_decided": "delivery to exactly the registered handler over histories, default-event bookkeeping, uniqueness of reserved ids beyond the width table",
        "assumptions": [],
        "technique": "CFG typestate with trace partitioning over all handler-slot stores + dominator check of the lookup + must-pass-through (reachability) check of the default-id bookkeeping",
        "level_text": "Decides the end-of-life clause ('every handler ever registered receives exactly one end-of-life notification before its slot is reused and is never looked up "
                      "afterwards') for every store in the dispatcher sources, on all paths.",
        "level_note": "one-shot reply handlers in the stream/connection wait queues (invoked with the reply, then cleared) are outside the anchored files and reported as unattributed",
        "rules": [
            {"run": rules_path.run_indexstep, "floor": 60, "scope": "anchor-dirs"},
            {"run": rules_event.run_finipaths, "floor": 8, "scope": "anchors"},
            {"run": rules_effect.run_mustcheck, "floor": 800, "scope": "anchor-dirs"},
            {"run": rules_effect.run_resultclass, "floor": 500, "scope": "anchor-dirs"},
            {"run": rules_path.run_argdeviant, "floor": 5, "scope": "anchor-dirs"},
            {"run": rules_reply.run_formatargs, "floor": 100, "scope": "anchors"},
            {"run": rules_path.run_usednotsize, "floor": 20},
            {"run": rules_event.run_defaultset, "floor": 1},
            {"run": rules_event.run_finiall, "floor": 1},
            {"run": rules_event.run_finaliser, "floor": 10, "scope": "anchors"},
            {"run": rules_reply.run_idwidth, "floor": 8},
            {"run": rules_path.run_nullcontra, "floor": 10, "use_anchor_files": True},
            {"run": rules_path.run_uaf, "floor": 1, "use_anchor_files": True},
        ],
    },
    "C19": {
        "explanation": "VTABLE: every interface vtable initialiser in the anchor files fills each slot with a function of the slot's arity. NULLDEST: every convert() implementation "
                       "is analysed with dest == NULL: no dereference of the destination in query mode. ITERPROTO: for each iterator vtable, advance() can report past-the-end "
                       "(negative) and last-element (0); reset() (and same-file callees) assigns every field advance() changes; a clone() that copies fields itself copies every field "
                       "value()/advance() read. STRSCAN: loop conditions that read the character under an advancing char pointer are false at NUL (abstract evaluation of the "
                       "condition with *p = 0). OUTPARAM: at every read of a local result parameter the callee's result, restricted to states where the result variable still "
                       "holds it (trace partition), excludes the callee's unwritten return class (call-site specialised summaries). ERRPROP on mpt_iterator_consume. FIELDNULL: a pointer member that one method of an object sets to null and at least two methods test for null (the exhausted marker) is not dereferenced or used in pointer arithmetic by a method that has not excluded null on the way (test, or a non-null store that dominates the use). CONTAINEROF: a pointer to an embedded interface is turned into the embedding record only by going back the offset of a member of that type (MPT_baseaddr with the right member; never `ptr + n`). ITERPROTO also demands that every way to `return 0` in advance() passes a store into the iterator object (the end of the sequence is recorded). Reference-table rules (MUSTCHECK, RESULTCLASS, ARGDEVIANT, INDEXSTEP; verdict for the files in the directories of the anchor files): compared with tools/sa/mustcheck.json, generated from the unchanged tree and committed, no function ignores more results of a callee than it did, every boundary at which a result was tested is still tested and every single test still separates the same two sets of results, uniform repeated call blocks stay uniform, and no loop gains a way round its per-round index step.",
        "not_decided": "visited values, closed forms, replay equality of the generated numbers",
        "assumptions": [],
        "technique": "vtable resolution from static initialisers + per-slot field read/write sets + interval analysis (query mode, out-parameter summaries) + abstract evaluation at NUL",
        "level_text": "Protocol-shape clauses of the iterator contract for all 8 iterator kinds in the anchor files: past-the-end is reported, reset restores, descriptions without a number are refused before use.",
        "level_note": "",
        "rules": [
            {"run": rules_path.run_indexstep, "floor": 60, "scope": "anchor-dirs"},
            {"run": rules_effect.run_mustcheck, "floor": 800, "scope": "anchor-dirs"},
            {"run": rules_effect.run_resultclass, "floor": 500, "scope": "anchor-dirs"},
            {"run": rules_path.run_argdeviant, "floor": 5, "scope": "anchor-dirs"},
            {"run": rules_iter.run_fieldnull, "floor": 8},
            {"run": rules_iter.run_containerof, "floor": 30, "use_anchor_files": True},
            {"run": rules_iter.run_vtable, "floor": 30, "use_anchor_files": True},
            {"run": rules_iter.run_nulldest, "floor": 6, "use_anchor_files": True},
            {"run": rules_iter.run_iterproto, "floor": 12, "use_anchor_files": True},
            {"run": rules_iter.run_strscan, "floor": 4, "use_anchor_files": True},
            {"run": rules_iter.run_outparam_tested, "floor": 4, "use_anchor_files": True},
            {"run": rules_layout.run_errprop, "floor": 100, "scope": "anchors"},
            {"run": rules_layout.run_convdest, "floor": 60, "scope": "anchors"},
        ],
    },
}


# ---------------------------------------------------------------------------------------------------------------------
# round 7: rules decided by operand types (every property, verdict for the directories of its anchor files) and the
# per-property additions that go with them
# ---------------------------------------------------------------------------------------------------------------------
TYPE_RULES_TEXT = (" Type-limit rules (verdict for the files in the directories of the anchor files): UNSIGNEDNEG: no `x < 0` / `x >= 0` test on an operand of unsigned type "
                   "(a refusal that can never be taken). BYTESIGN: no (in)equality between an `unsigned char` and a plain `char` operand (bytes from 0x80 up never compare equal). "
                   "FLAGWIDTH: every constant mask lies inside the declared type of the value it tests. SIZEOFPTR: no length argument is the sizeof of a pointer variable unless the "
                   "memory holds pointers. DEADSHADOW: no assignment to a local that hides another local of the same name is dead while the hidden one is live (read afterwards without being assigned). CONSTSTATE (reference table, see the reference-table rules): every constant a function of the unchanged tree stores into a member of an object it reaches "
                   "through a pointer (resets and state marks) is still stored by it, by a function it calls, or covered by a whole-object store. CONSTIFACE (reference table): every error constant a function "
                   "returned it still returns (interval analysis of the returns; a sole positive result code likewise), and where it passed only constants to a callee at one position the same constants are passed (a computed argument has not become a constant). LOCALNARROW (anchor files of the properties it is armed for): a one- or two-byte local that implicitly receives a wider value receives one inside its range (interval analysis).")
# LOCALNARROW is armed only where the interval engine bounds every narrowing store of the unchanged tree in the property's directories
LOCALNARROW_PROPS = ("C04", "C05", "C06", "C08", "C09", "C10", "C11", "C12", "C13", "C14", "C15", "C16", "C19")
for _pid, _spec in PROPS.items():
    _spec["rules"] += [
        {"run": rules_types.run_unsignedneg, "floor": 1000, "scope": "anchor-dirs"},
        {"run": rules_types.run_bytesign, "floor": 25, "scope": "anchor-dirs"},
        {"run": rules_types.run_flagwidth, "floor": 400, "scope": "anchor-dirs"},
        {"run": rules_types.run_sizeofptr, "floor": 200, "scope": "anchor-dirs"},
        {"run": rules_types.run_deadshadow, "floor": 25, "scope": "anchor-dirs"},
    ]
    _spec["rules"].append({"run": rules_effect.run_conststate, "floor": 300, "scope": "anchor-dirs"})
    _spec["rules"].append({"run": rules_effect.run_constiface, "floor": 1500, "scope": "anchor-dirs"})
    if _pid in LOCALNARROW_PROPS:
        _spec["rules"].append({"run": rules_types.run_localnarrow, "floor": 20, "scope": "anchors"})
    _spec["explanation"] += TYPE_RULES_TEXT
    _spec["technique"] += "; type-resolved operand rules (constant comparisons, byte signedness, mask width, sizeof of pointers, interval check of narrowing locals)"

_ADD = {
    "C01": ([{"run": rules_cow.run_detachsame, "floor": 1}], " DETACHSAME (see C04): the output space of the encoders comes from detach(). ENCKEEP (part of LINCODEC): at every successful return of an encoder that was given output space and input (or asked to terminate) the finished part `done` and the encoded amount `done + scratch` are not below their values at entry, termination gives done' >= done + scratch, and the open block stays below a full code block (assumed at entry, shown at exit); exits behind the block loop where the relation is not shown are listed as not decided."),
    "C04": ([{"run": rules_cow.run_stalebuf, "floor": 40, "scope": "anchor-dirs"}, {"run": rules_cow.run_cxxcow, "floor": 2, "ctx": {"cxx_files": ["mpt++/array.cpp"]}}, {"run": rules_cow.run_detachfail, "floor": 1}, {"run": rules_cow.run_detachsame, "floor": 1}, {"run": rules_cow.run_mustinstall, "floor": 18, "scope": "anchor-dirs"}],
            " DETACHSAME: a detach implementation returns the buffer it was handed only where the interval of its reference counter lies below 2. MUSTINSTALL: from the non-null edge of `b = alloc / detach` in a function with a handle parameter every path to a return stores b (or an address inside it) into memory, hands it on or assigns it again. CXXCOW: typestate with trace partitioning in mpt++/array.cpp: a content object obtained from a handle is changed in place (set_length, append, insert, skip, trim) only where its shared() test answered false on that path or it was created here. DETACHFAIL: a bool function whose `c->detach(size)` did not deliver a private copy does not answer true. STALEBUF: interval analysis with trace partitioning on (derived locals, stale locals) per function: a local computed from `A->_buf` (or that `A._buf` was computed from) is not read, dereferenced or returned after a call that may replace A's buffer (functions that store to their array parameter's `_buf`, transitively) unless it was assigned again."),
    "C05": ([{"run": rules_traits.run_initwrites, "floor": 12}, {"run": rules_traits.run_finibound, "floor": 5}, {"run": rules_traits.run_finifirst, "floor": 5}, {"run": rules_ident.run_identoverlay, "floor": 15}],
            " FINIFIRST: in a function with a finalizer loop the used length is lowered only behind that loop (or under a growth guard / a test that there is no finalizer). IDENTOVERLAY (see C16) for the identifier element type: its finalizer reads `_base` only under `_len > _max`. INITWRITES: every `init` operation named by a type_traits table has written through its element pointer on each path to a return that can be non-negative. FINIBOUND: no store to `B->_used` reaches the read of `B->_used` that bounds a finalizer loop over B."),
    "C06": ([{"run": rules_table.run_sparsezero, "floor": 3, "use_anchor_files": True}, {"run": rules_table.run_stabletable, "floor": 1, "use_anchor_files": True}],
            " STABLETABLE: a file-level table whose entries are returned by address is never realloc()ed. SPARSEZERO: tables addressed by computed index (file-level pointers) get their memory from calloc() or are cleared with memset in the allocating function."),
    "C10": ([{"run": rules_types.run_signextend, "floor": 3, "use_anchor_files": True}],
            " SIGNEXTEND: in the path files no plain `char` loaded from memory is implicitly converted to an unsigned type of 4 bytes or more where it is used as a number (assignment, arithmetic, comparison, index): length bytes are read through `unsigned char`."),
    "C12": ([{"run": rules_effect.run_objects, "floor": 8, "ctx": {"records": ["mpt_reply_data", "reply_data", "mpt_reply_context", "reply_context"], "min_functions": 5}, "use_anchor_files": True},
             {"run": rules_reply.run_flextail, "floor": 1, "use_anchor_files": True}],
            " ERRFX on every function of the anchor files that takes a reply_data / reply_context: no store to it on a path that refuses. FLEXTAIL: where the tail of an object that ends in the 4-byte id array is computed as capacity minus a sizeof, the sizeof is not larger than that array."),
    "C15": ([{"run": rules_ref.run_raisetest, "floor": 40}, {"run": rules_traits.run_finibound, "floor": 5}, {"run": rules_ref.run_addreffail, "floor": 10}, {"run": rules_ref.run_ownedref, "floor": 8}, {"run": rules_traits.run_finimatch, "floor": 1}, {"run": rules_traits.run_finifirst, "floor": 5}],
            " OWNEDREF (see C14). ADDREFFAIL: from the edge on which an addref slot call answered non-zero every path to a refusal passes unref of that object, a store of it into memory or a call that is handed it. FINIMATCH / FINIFIRST (see C05): generic assignment into typed slots releases exactly the old referents of the rewritten range. RAISETEST: the answer of every addref slot call / mpt_refcount_raise (new count, 0 on failure) is decided by a zero test on the full-width value: no `< 0` test, no copy into a narrower variable. FINIBOUND as for C05."),
    "C16": ([{"run": rules_ident.run_initlive, "floor": 4}],
            " INITLIVE: mpt_identifier_init() is applied only in constructors, in type_traits init operations, to locals, or to memory allocated by the caller: never to `*this` of another member function or to an object handed in."),
    "C17": ([{"run": rules_path.run_fraglocate, "floor": 1, "use_anchor_files": True}, {"run": rules_path.run_fragadopt, "floor": 3, "use_anchor_files": True}],
            " FRAGLOCATE: a loop that reduces an offset by fragment lengths to find the fragment holding it runs while offset >= length. FRAGADOPT: where a continuation fragment becomes the base part, `cont` is stepped past it on every path to the exit."),
    "C19": ([{"run": rules_iter.run_derivedfield, "floor": 1, "use_anchor_files": True}, {"run": rules_iter.run_parkrestore, "floor": 6, "use_anchor_files": True}, {"run": rules_table.run_typemap, "floor": 120, "scope": "anchors"}],
            " DERIVEDFIELD: a pointer member that is computed from an integer member of the same object and read by a function that does not compute it is stored again (or recomputed by a callee handed the object) in every function that stores the integer member. PARKRESTORE: typestate with trace partitioning over the parked-byte marker of the text iterator: the marker is dropped only after the parked byte was put back or the marker was tested null, and no callee is handed the text through the marker while a byte is parked. TYPEMAP (see C06) for the id -> size switch of mpt_iterator_consume."),
    "C03": ([{"run": rules_lin.run_linbounds, "floor": 95, "ctx": {"files_of": "C13"}}],
            " LINBOUNDS over the queue files (see C13): the decoders' queue glue (mpt_queue_recv / mpt_queue_shift) relies on mpt_qpre, mpt_queue_crop and mpt_queue_data keeping the queue invariant and changing the stored length by exactly the requested amount (LENSPEC)."),
    "C11": ([{"run": rules_event.run_notifyguard, "floor": 8}],
            " NOTIFYGUARD: of the members of a handler slot only `cmd` is tested by the conditions that decide whether its end-of-life call `S.cmd(S.arg, 0)` is made."),
    "C14": ([{"run": rules_ref.run_ownedref, "floor": 8}, {"run": rules_node.run_childkeep, "floor": 1}],
            " OWNEDREF: a reference stored into a member of an object is not released again through the local on a path behind the store (the object's teardown releases it). CHILDKEEP: typestate with trace partitioning: a whole list is stored into `A->children` of a handed-in node only where the old list was tested empty, saved or cleared on that path."),
    "C13": ([], " LENSPEC (LINBOUNDS exits): a successful pop / shift / crop lowers the stored length by exactly the requested amount, push / unshift raise it by it, get leaves it."),
    "C07": ([], " UNSIGNEDTEXT also demands that the pointer whose character is compared with '-' is not moved between that test and the parser call."),
    "C20": ([{"run": rules_layout.run_resetsame, "floor": 20}], " For the setters and their helpers a failure is excused as 'discovered after the store' only by a call that was handed the object or that allocates. RESETSAME: in the branch a setter takes for one property name the members stored on the no-source (reset) path overlap the members the value path writes or hands to its parser. ERRFX now also covers the helpers a setter hands a pointer into its object to (colour, attribute, string and position parsers): calls of writers whose result is discarded count as stores, and calls that only inspect their arguments (strlen, strncasecmp, isspace ..) do not excuse a store made before them."),
}
# option values are kept by the generic-info metatype: its size computation belongs to "values of any length"
PROPS["C09"].setdefault("extra_scope_files", []).append("mptcore/misc/geninfo.c")
PROPS["C08"]["rules"].append({"run": rules_node.run_childkeep, "floor": 1})
PROPS["C08"]["explanation"] += " CHILDKEEP (see C14): mpt_parse_node attaches the parsed list only to an empty target or after the merge cleared the target."
for _pid in ("C08", "C10"):
    PROPS[_pid]["rules"].append({"run": rules_cow.run_stalebuf, "floor": 40, "scope": "anchor-dirs"})
    PROPS[_pid]["explanation"] += " STALEBUF (see C04) over the path functions: a byte pointer computed from an array-backed path buffer is not used after a call that may replace that buffer."
PROPS["C08"].setdefault("extra_scope_files", []).append("mptcore/config/path_add.c")
for _pid, (_rules, _text) in _ADD.items():
    PROPS[_pid]["rules"] += _rules
    PROPS[_pid]["explanation"] += _text

# ---------------------------------------------------------------------------------------------------------------------
# round 10: rules written for seeds the checks had missed
ROUND10_TEXT = (" DEADLOOP (verdict for the files in the directories of the anchor files): the interval analysis enters the body of every loop (a count computed from a value "
                "overwritten a statement earlier makes the loop that does the bulk of the work one that never runs). PARAMCLASS (reference table): the cuts at which a function "
                "compares an integer parameter with constants are those of the unchanged tree: a cut that vanished while a new one appeared for the same parameter is a case limit that moved. "
                "CONSTIFACE also records which function is handed on as a callback at each call position (file-local forwarders looked through). "
                "SUMWRAP: in a limit test `a + b <relop> c` on 64-bit unsigned operands into which a parameter the function has not bounded yet enters, the interval analysis (sizes and offsets stored in buffers, slices and fragments bounded by PTRDIFF_MAX) keeps the sum below 2^64; sums of derived locals that intervals cannot bound are listed as not decided. "
                "ENDDEREF: a local that receives the end position of a range (x.end()) is compared, never dereferenced.")
for _pid, _spec in PROPS.items():
    _spec["rules"].append({"run": rules_path.run_deadloop, "floor": 300, "scope": "anchor-dirs"})
    _spec["rules"].append({"run": rules_effect.run_paramclass, "floor": 300, "scope": "anchor-dirs"})
    _spec["rules"].append({"run": rules_types.run_sumwrap, "floor": 1, "scope": "anchor-dirs"})
    _spec["rules"].append({"run": rules_types.run_endderef, "floor": 15, "scope": "anchor-dirs"})
    _spec["explanation"] += ROUND10_TEXT
_ADD10 = {
    "C03": ([{"run": rules_path.run_maxstore, "floor": 3, "ctx": {"files_of": "C13"}}, {"run": rules_lin.run_shiftkeep, "floor": 3},
             {"run": rules_path.run_roomcode, "floor": 4, "use_anchor_files": True}, {"run": rules_path.run_alignidle, "floor": 2, "use_anchor_files": True}],
            " MAXSTORE (see C13) for the queue the decoders read from. SHIFTKEEP: relational analysis of mpt_queue_shift (the glue mpt_queue_recv runs after every decoder call): at its mpt_queue_crop(.., 0, n) either n <= _state.data.pos or the path established _state._ctx == 0 - the consumed bytes of an open block are the decoder's room for output. ROOMCODE: every exit of a decoder on the zero test of its room counter (the local whose zero test leads to MissingBuffer somewhere) reports MissingBuffer, never 'incomplete'. ALIGNIDLE: the alignment step that gives away room in the empty-message branch is guarded by a no-open-block test."),
    "C04": ([{"run": rules_ref.run_detachrelease, "floor": 1}],
            " GAPFILL (LINBUF) also covers the insert functions: the area they return for the caller to fill counts as written, every other byte by which the used length grew (the gap in front of an insert behind the end) was written by the call. DETACHRELEASE: where a detach implementation answers with another buffer, every path to that return released the caller's reference to the old one (mpt_refcount_lower / free / unref)."),
    "C06": ([{"run": rules_path.run_lazyread, "floor": 5, "use_anchor_files": True}],
            " LAZYREAD: a table pointer that is created on first use is read only behind a first-use test of that table in the same function (or in front of every call of a file-local helper); a reader that merely skips its work while the table does not exist depends on the order of the first lookups."),
    "C09": ([{"run": rules_types.run_sentineluse, "floor": 2}],
            " SENTINELUSE: a narrow member that its module stores as (v > MAX) ? 0 : v (path.first: 0 stands for 'does not fit, search again') is used as a number only in the files that contain such stores; elsewhere it is compared or assigned, never taken for the length."),
    "C08": ([{"run": rules_types.run_sentineluse, "floor": 2}], " SENTINELUSE (see C09)."),
    "C10": ([{"run": rules_types.run_sentineluse, "floor": 2}], " SENTINELUSE (see C09)."),
    "C20": ([{"run": rules_layout.run_convfailok, "floor": 50}],
            " RESETWRITES (clause of RESETSAME): where a setter's branch has no reset of its own and hands the possibly null source to a helper together with a pointer into the object, the helper's no-source path stores through that pointer. CONVFAILOK: sign analysis of the local that keeps the answer of src->convert(): no constant success return of a setter is reached while it may be negative (a refused conversion answered with success, nothing stored)."),
    "C11": ([{"run": rules_event.run_scanall, "floor": 3, "use_anchor_files": True}],
            " SCANALL: a walk over handler slots is not left because the slot at hand is empty, unless that empty slot is what the function delivers or fills (tables have holes after an unregistration)."),
    "C13": ([{"run": rules_path.run_maxstore, "floor": 3, "use_anchor_files": True}],
            " MAXSTORE: a store that changes the capacity of a ring queue is reached only over the not-fragmented edge of a fragmentation test of that queue or behind mpt_queue_align(q, 0), with no store to len / off / max in between (the all-zero reset excepted); effects of other callees on the queue between the two are not modelled."),
    "C15": ([{"run": rules_ref.run_detachrelease, "floor": 1}, {"run": rules_traits.run_initwrites, "floor": 12}],
            " DETACHRELEASE (see C04). INITWRITES (see C05) for every type_traits init operation of the program: element copies that hold references (value stores, arrays of arrays) start from written memory."),
    "C17": ([{"run": rules_path.run_fragzero, "floor": 2, "use_anchor_files": True}, {"run": rules_path.run_fragfirst, "floor": 5, "use_anchor_files": True}],
            " FRAGFIRST: a function handed a fragment list with a count decides no exit by the length of the first fragment alone (outside every loop). FRAGZERO: over all indexed reads through a pointer loaded from a fragment's iov_base the index interval starts at 0 (a count-down that stops in front of index 0 never examines the first byte of a fragment)."),
    "C19": ([], " DERIVEDFIELD also has a path clause: behind a change of the source member (a store, or a callee handed the address of the sub-object it lives in) no non-failure exit is reached with the cached pointer neither stored again nor null beforehand."),
}
for _pid, (_rules, _text) in _ADD10.items():
    PROPS[_pid]["rules"] += _rules
    PROPS[_pid]["explanation"] += _text

# ---------------------------------------------------------------------------------------------------------------------
# round 11
ROUND11_TEXT = (" DEADCOPY (verdict for the files in the directories of the anchor files): no memcpy / memmove / memset has a length the interval analysis pins to zero in every "
                "state that reaches it. DETACHDEAD: where the answer of `b->detach(b, n)` is not assigned to b itself, b is not used again on the paths where the call delivered "
                "a buffer. PARAMCLASS also records the cuts of integer members reached through pointer parameters (`path->len`) and bare truthiness tests. MUSTCHECK also counts "
                "callees without a failing return of their own whose result some function of the unchanged tree tests below zero, and a call that is itself the operand of a branch counts as used.")
for _pid, _spec in PROPS.items():
    _spec["rules"].append({"run": rules_path.run_deadcopy, "floor": 100, "scope": "anchor-dirs"})
    _spec["rules"].append({"run": rules_ref.run_detachdead, "floor": 10, "scope": "anchor-dirs"})
    _spec["explanation"] += ROUND11_TEXT
_IDENT_RULES = [{"run": rules_lin.run_linident, "floor": 18, "ctx": {"files": ["mptcore/misc/identifier.c"]}},
                {"run": rules_ident.run_inlinefit, "floor": 5}, {"run": rules_ident.run_identoverlay, "floor": 15}]
_ADD11 = {
    "C09": (list(_IDENT_RULES), " The names of the parsed tree are identifiers: LINIDENT, INLINEFIT and IDENTOVERLAY (see C16) over mptcore/misc/identifier.c."),
    "C14": (list(_IDENT_RULES), " Clones carry the names of their originals through mpt_identifier_copy(): LINIDENT, INLINEFIT and IDENTOVERLAY (see C16) over mptcore/misc/identifier.c."),
    "C11": ([{"run": rules_path.run_readbase, "floor": 2, "use_anchor_files": True}], " READBASE (see C17) for the hash dispatch."),
    "C17": ([{"run": rules_path.run_readbase, "floor": 20, "scope": "anchor-dirs"}],
            " READBASE: behind mpt_message_read(&M, n, buf) no call is handed `M.base` together with the same length n (the bytes that were read are in buf, the cursor stands behind them); verdict for the directories of the anchor files, which include the hash dispatch."),
}
for _pid, (_rules, _text) in _ADD11.items():
    PROPS[_pid]["rules"] += _rules
    PROPS[_pid]["explanation"] += _text
PROPS["C17"].setdefault("extra_scope_files", []).append("mptcore/event/dispatch_hash.c")      # gathers a fragmented command with mpt_message_read()
PROPS["C01"].setdefault("extra_scope_files", []).append("mpt++/array.cpp")      # encode_array: the C++ buffer management around mpt_array_push()
PROPS["C20"]["rules"].append({"run": rules_layout.run_typeiddest, "floor": 12})
PROPS["C20"]["explanation"] += " TYPEIDDEST: where the type id that reaches src->convert(src, type, dest) comes from mpt_<kind>_typeid() (nearest dominating assignment), dest points to a struct mpt_<kind>, for mpt_<kind>_pointer_typeid() to a pointer to one."
PROPS["C20"]["rules"].append({"run": rules_layout.run_typeidname, "floor": 5})
PROPS["C20"]["explanation"] += " TYPEIDNAME: each specialisation type_properties<K>::id / <K *>::id of the layout classes returns mpt_<K>_typeid() / mpt_<K>_pointer_typeid()."
for _pid, _spec in PROPS.items():
    _spec["rules"].append({"run": rules_path.run_deadcall, "floor": 60, "scope": "anchor-dirs"})
    _spec["explanation"] += " DEADCALL (anchor directories): no call whose result is ignored reaches, in the interval analysis of its callee with the caller's arguments, only the callee's refusing returns (a pointer / bool function with other returns; forwarders of the form return g(..) ? true : false are followed; calls that hand over objects by value or reference are not judged)."
