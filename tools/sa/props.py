"""Per-property policy: which rules decide which clause, floors, scope, wording for the evidence."""
from . import rules_conv, rules_table, rules_codec

import json, os


def anchor_files(verif, pid):
    for l in open(os.path.join(verif, "properties.jsonl")):
        d = json.loads(l)
        if d["id"] == pid:
            return d["anchors"]["files"]
    return []


PROPS = {
    "C07": {
        "explanation": "CONV: for every scalar converter behind mpt_data_converter() and the numeral back ends, every case of the type switch is "
                       "analysed with the interval engine in query mode (dest==NULL) and store mode; obligations O1-O6 (reported size, single in-range "
                       "store of the right width, no null dereference, ctype table domain, no store on error, same verdict in both modes). "
                       "ERANGE: every strto*() result reaches a success return only through a test of errno.",
        "not_decided": "library semantics of strtoumax('-1'), consumed-length arithmetic",
        "assumptions": ["C/POSIX locale single-byte ctype classes are ASCII", "two's complement, widths from clang TargetInfo for x86_64"],
        "technique": "interval abstract interpretation with guard refinement over the clang CFG, per switch case and destination mode",
        "level_text": "For the integer targets a discharged store obligation is a proof, for every source value, that the conversion does not wrap or truncate; "
                      "query mode (dest==NULL) provably dereferences nothing and reaches returns of the same sign. Floating targets are judged by representability of the "
                      "source type (FLOAT-INEXACT sites are listed as known findings). Text numerals: structural clause only (errno tested after strto*).",
        "level_note": "trusts clang's AST/CFG/constant evaluator, the id->C type rows of scalar_sizes[] as oracle, glibc's ctype table domain [-128,255]; not decided: strtoumax accepting '-', consumed-length arithmetic",
        "rules": [
            {"run": rules_conv.run, "floor": 300},
            {"run": rules_conv.run_erange, "floor": 5, "scope": "anchors"},
            {"run": rules_table.run_typemap, "floor": 120, "scope": "anchors"},
        ],
    },
    "C06": {
        "explanation": "TYPEMAP: the id<->C type<->size relation stated in scalar_sizes/core_sizes, type_properties<T>::id, mpt_data_converter, "
                       "mpt_convert_number, mpt_type_int/uint, mpt_msgvalfmt_code/typeid and mpt_iterator_consume is read from the folded AST and all "
                       "pairs must agree; kind ranges of enum Types disjoint/ordered; interface table slot i holds id base+i; mpt_type_traits() is "
                       "abstractly evaluated for every id with a row and must reach the table that row lives in. REGRANGE: interval analysis of the four "
                       "registration functions: every id returned/stored lies in [Base,Max] of its kind; capacity constants equal Max-Base+1. "
                       "MEMCPYSIZE: memcpy(dst,&obj,sizeof X) copies the whole object.",
        "not_decided": "uniqueness/stability over registration histories (append-only shape not yet checked), name lookup results, duplicate-name refusal polarity",
        "assumptions": ["x86_64 type widths from clang TargetInfo"],
        "technique": "constant-table extraction from the folded AST + sibling agreement; interval analysis of id-producing sites; abstract evaluation of the id dispatch",
        "level_text": "Every row of the seven id tables in the build is enumerated and cross-checked; the range clause is an interval proof over all paths of the registration "
                      "functions. Decides the 'correctly described' and 'in the range reserved for their kind' clauses, not uniqueness over histories.",
        "level_note": "trusts clang constant evaluation; scalar_sizes[] rows are the oracle for id->C type; file-static counters only incremented are assumed non-negative (checked by monotone-counter inference)",
        "rules": [
            {"run": rules_table.run_typemap, "floor": 120, "scope": "anchors"},
            {"run": rules_table.run_regrange, "floor": 6},
            {"run": rules_table.run_memcpysize, "floor": 3, "ctx": {"files": ["mptcore/types/type_traits.c"]}},
        ],
    },
    "C01": {
        "explanation": "CODECPAIR: for every framing id the encoder and decoder switches return two halves of one codec: both present, both regular or both "
                       "tail-inline wrappers of a registered regular pair; the encoder's block limit (`++code == E`) and zero-pair parameters (offset, code range) "
                       "are checked against the decoder's code->(data bytes, zero bytes) table, obtained by abstractly evaluating the decoder's two length "
                       "formulas for every code 1..255; every named framing is handled; the python client's block limit equals the C one and each branch "
                       "that restarts a block appends the next code byte.",
        "not_decided": "encode/decode identity for every message, split and capacity schedule; 'no zero byte inside a frame'; byte-level bounds of the encoders "
                       "(relational over off/code/left); python encoder beyond the two structural facts",
        "assumptions": [],
        "technique": "table extraction from dispatch switches + abstract evaluation of the decoder's length formulas per code value + python ast query",
        "level_text": "Decides a necessary condition of the round trip that is visible in tables and constants: selected encoder/decoder belong together and agree on "
                      "every code value the encoder can emit (255 codes x 2 regular codecs evaluated). Not the byte-level round trip.",
        "level_note": "trusts clang constant folding of the macro-expanded formulas; pattern anchors: `++code == E`, conditional `c + K`, `_ctx & 0xff`",
        "rules": [
            {"run": rules_codec.run, "floor": 20},
        ],
    },
}
