"""Builds the fact files for /repo's current working tree (or returns a cache
entry keyed by a hash over every file that can influence parsing)."""
import hashlib, json, os, shutil, subprocess, sys, tempfile, time
from concurrent.futures import ThreadPoolExecutor

HERE = os.path.dirname(os.path.abspath(__file__))
VERIF = os.path.abspath(os.path.join(HERE, "..", ".."))
BUILD = os.path.join(VERIF, "build")
MPTSA = os.path.join(BUILD, "mptsa")
SRC_EXT = (".c", ".h", ".cpp", ".hpp", ".cc", ".txt", ".cmake", ".py", ".in", ".mk")


def tree_hash(repo):
    h = hashlib.sha256()
    n = 0
    for root, dirs, files in os.walk(repo):
        dirs[:] = sorted(d for d in dirs if d not in (".git", "_build") and not d.startswith("_build"))
        for fn in sorted(files):
            if not fn.endswith(SRC_EXT) and fn not in ("Makefile",):
                continue
            p = os.path.join(root, fn)
            try:
                with open(p, "rb") as fp:
                    data = fp.read()
            except OSError:
                continue
            h.update(os.path.relpath(p, repo).encode())
            h.update(b"\0")
            h.update(hashlib.sha256(data).digest())
            n += 1
    with open(os.path.join(VERIF, "tools", "mptsa", "mptsa.cc"), "rb") as fp:
        h.update(hashlib.sha256(fp.read()).digest())
    with open(os.path.join(VERIF, "tools", "compdb.py"), "rb") as fp:
        h.update(hashlib.sha256(fp.read()).digest())
    return h.hexdigest()[:24], n


def _locked(path):
    """exclusive advisory lock on a file (held until the returned handle is closed)"""
    import fcntl
    os.makedirs(os.path.dirname(path), exist_ok=True)
    fp = open(path, "a+")
    fcntl.flock(fp, fcntl.LOCK_EX)
    return fp


def ensure_tool():
    lk = _locked(os.path.join(BUILD, "mptsa.lock"))
    try:
        r = subprocess.run([os.path.join(VERIF, "tools", "mptsa", "build.sh")])
        if r.returncode != 0 or not os.path.exists(MPTSA):
            raise SystemExit("ANALYSIS-BROKEN cannot build mptsa")
    finally:
        lk.close()


def facts(repo="/repo", verbose=False):
    """returns (factdir, info) for the current tree.  Checks of several properties may start at the same time on the same
    tree: the first one extracts under a per-tree lock, the others wait for it and read the cache entry."""
    ensure_tool()
    t0 = time.time()
    hx, nfiles = tree_hash(repo)
    cache = os.path.join(BUILD, "cache")
    os.makedirs(cache, exist_ok=True)
    dest = os.path.join(cache, hx)
    info_p = os.path.join(dest, "info.json")

    def cached():
        if os.path.exists(info_p) and not os.environ.get("VERIF_NOCACHE"):
            try:
                info = json.load(open(info_p))
            except (OSError, ValueError):
                return None
            info["cached"] = True
            try:
                os.utime(dest, None)          # recently used: not a candidate for eviction
            except OSError:
                pass
            return os.path.join(dest, "facts"), info
        return None
    r = cached()
    if r:
        return r
    lk = _locked(os.path.join(cache, hx + ".lock"))
    work = None
    try:
        r = cached()
        if r:
            return r
        sys.path.insert(0, os.path.join(VERIF, "tools"))
        import compdb
        work = tempfile.mkdtemp(prefix="mptsa-facts-", dir=cache)
        db = compdb.make(repo, work)
        fdir = os.path.join(work, "facts")
        os.makedirs(fdir)
        files = [e["file"] for e in db]
        chunks = [files[i::32] for i in range(32)]
        errs = []

        def run(chunk):
            if not chunk:
                return 0, ""
            r = subprocess.run([MPTSA, "-p", work, "--root", repo, "--out", fdir] + chunk,
                               stdout=subprocess.PIPE, stderr=subprocess.STDOUT, text=True)
            return r.returncode, r.stdout

        with ThreadPoolExecutor(max_workers=16) as ex:
            for rc, out in ex.map(run, chunks):
                if rc != 0:
                    errs.append(out[-2000:])
        produced = len([x for x in os.listdir(fdir) if x.endswith(".json")])
        info = {"units": len(files), "produced": produced, "errors": errs, "source_files_hashed": nfiles,
                "tree_hash": hx, "extract_s": round(time.time() - t0, 2), "cached": False}
        json.dump(info, open(os.path.join(work, "info.json"), "w"))
        # keep at most 8 cache entries; entries used within the last 15 minutes stay (another check may be reading them)
        now = time.time()
        old = sorted((os.path.getmtime(os.path.join(cache, d)), d) for d in os.listdir(cache)
                     if os.path.isdir(os.path.join(cache, d)) and not d.startswith("mptsa-facts-") and d != hx)
        for mt, d in old[:-7]:
            if now - mt > 900:
                shutil.rmtree(os.path.join(cache, d), ignore_errors=True)
                try:
                    os.unlink(os.path.join(cache, d + ".lock"))
                except OSError:
                    pass
        if os.path.exists(dest):
            shutil.rmtree(dest, ignore_errors=True)       # a partial entry (no info.json): nobody reads it
        os.rename(work, dest)
        work = None
        return os.path.join(dest, "facts"), info
    finally:
        if work and os.path.exists(work):
            shutil.rmtree(work, ignore_errors=True)
        lk.close()
