"""CHILDPARENT / MOVECLEAR (C14): a node list attached as children names its new parent."""
from .facts import strip, cval, walk, walk_own, show, callee_name
from .core import Result, Broken, norm
from .rules_path import funcs_of


def _ptr_text(f, e, arrow):
    """text of the pointer to the node whose member is accessed (A for A->children, &A for A.children)"""
    t = norm(show(e, f))
    return t if arrow else "&" + t


def run_childparent(prog, ctx=None):
    """every store  A->children = V  (V not null) is one of the accepted idioms:
       (1) after the store, on every continuation in this function, `X->parent = A` runs for the attached node (chain)
       (2) V was loaded from the same A->children earlier (restore)
       (3) A is a function-local holder that is only handed to mpt_node_clear()
       (4) V is the `next` of an existing child of A (unlink of the first child)
       (5) link primitive: A is the value just copied into / taken from V->parent
    """
    res = Result("CHILDPARENT")
    n_sites = 0
    for f in sorted(prog.functions.values(), key=lambda f: (f.file, f.line)):
        if f.nocfg:
            continue
        sites = []
        for b, i, e in f.elements():
            for n in walk_own(e):
                if n.get("k") == "bin" and n.get("op") == "=":
                    l = strip(n["a"], lvalue_to_rvalue=False)
                    if l.get("k") == "mem" and l.get("f") == "children" and l.get("rec", "").split("::")[-1] in ("mpt_node", "node"):
                        if cval(n["b"]) == 0:
                            continue
                        # a = b = 0 chains
                        r = strip(n["b"], all_casts=True)
                        if r.get("k") == "bin" and r.get("op") == "=" and cval(r) == 0:
                            continue
                        sites.append((b, i, n, l))
        if not sites:
            continue
        # facts about the function
        parent_stores = []      # (block id, rhs pointer text)
        var_src = {}            # local id -> list of rhs expressions assigned
        for b, i, e in f.elements():
            for n in walk_own(e):
                if n.get("k") == "bin" and n.get("op") == "=":
                    l = strip(n["a"], lvalue_to_rvalue=False)
                    if l.get("k") == "mem" and l.get("f") == "parent":
                        r = n["b"]
                        # X->parent = A  or  X->parent = tmp = ...: take the outermost assigned variable too
                        rs = strip(r, all_casts=True)
                        parent_stores.append((b.id, norm(show(rs, f)), norm(show(l["b"], f))))
                        if rs.get("k") == "bin" and rs.get("op") == "=":
                            parent_stores.append((b.id, norm(show(rs["a"], f)), norm(show(l["b"], f))))
                    if l.get("k") == "ref" and "id" in l["d"]:
                        var_src.setdefault(l["d"]["id"], []).append(n["b"])
                        rs = strip(n["b"], all_casts=True)
                        if rs.get("k") == "bin" and rs.get("op") == "=":
                            var_src[l["d"]["id"]].append(rs["b"])
                elif n.get("k") == "decl":
                    for v in n["vars"]:
                        if v.get("init") is not None:
                            var_src.setdefault(v["id"], []).append(v["init"])
        # a helper that sets `X->parent = <its parameter>` does so for the argument it is called with
        for b, i, e in f.elements():
            if e.get("k") == "call" and e.get("fn"):
                for g in prog.resolve_call(f, e):
                    if g.nocfg:
                        continue
                    pids = {p["id"]: k for k, p in enumerate(g.params)}
                    for b2, i2, m in g.walk_all():
                        if m.get("k") == "bin" and m.get("op") == "=":
                            l2 = strip(m["a"], lvalue_to_rvalue=False)
                            r2 = strip(m["b"], all_casts=True)
                            if l2.get("k") == "mem" and l2.get("f") == "parent" and r2.get("k") == "ref" and r2["d"].get("id") in pids:
                                k = pids[r2["d"]["id"]]
                                if k < len(e.get("args", [])):
                                    at = strip(e["args"][k], all_casts=True)
                                    parent_stores.append((b.id, norm(show(at, f)), "(in %s)" % g.name))
        for b, i, n, l in sites:
            n_sites += 1
            A = _ptr_text(f, l["b"], l.get("arrow"))
            V = strip(n["b"], all_casts=True)
            if V.get("k") == "bin" and V.get("op") == "=":
                V = strip(V["a"], lvalue_to_rvalue=False)      # root->children = curr = conf.children
            key = "%s:%s" % (f.qn, norm(show(n, f))[:80])
            reach = f.reachable_from(b.id)
            # (1) parent store for A after this store
            ok1 = any(pb in reach and rhs == A for pb, rhs, who in parent_stores)
            # (2) restore
            ok2 = False
            if V.get("k") == "ref" and "id" in V["d"]:
                srcs = var_src.get(V["d"]["id"], [])
                ok2 = bool(srcs) and all(strip(s, all_casts=True).get("k") == "mem" and strip(s, all_casts=True).get("f") == "children"
                                         and _ptr_text(f, strip(s, all_casts=True)["b"], strip(s, all_casts=True).get("arrow")) == A for s in srcs)
            # (3) local holder only cleared
            ok3 = False
            base = strip(l["b"], all_casts=True)
            if not l.get("arrow") and base.get("k") == "ref" and base["d"].get("dk") == "local":
                hid = base["d"]["id"]
                uses_ok = True
                for bb, ii, m in f.walk_all():
                    if m.get("k") == "call":
                        for a in m.get("args", []):
                            s = strip(a, all_casts=True)
                            if s.get("k") == "un" and s.get("op") == "&" and strip(s["e"], lvalue_to_rvalue=False).get("k") == "ref" \
                                    and strip(s["e"], lvalue_to_rvalue=False)["d"].get("id") == hid and callee_name(m) != "mpt_node_clear":
                                uses_ok = False
                ok3 = uses_ok
            # (4) V is next of a child
            ok4 = False
            if V.get("k") == "ref" and "id" in V["d"]:
                srcs = var_src.get(V["d"]["id"], [])
                ok4 = bool(srcs) and all(strip(s, all_casts=True).get("k") == "mem" and strip(s, all_casts=True).get("f") == "next" for s in srcs)
            # (5) link primitive: A assigned from / together with V->parent
            ok5 = False
            if base.get("k") == "ref" and "id" in base["d"] and l.get("arrow"):
                vt = norm(show(V, f))
                for s in var_src.get(base["d"]["id"], []):
                    ss = strip(s, all_casts=True)
                    if ss.get("k") == "mem" and ss.get("f") == "parent" and norm(show(ss["b"], f)) == vt:
                        ok5 = True
                for pb, rhs, who in parent_stores:
                    if rhs == A and who == vt:
                        ok5 = True
            ok = ok1 or ok2 or ok3 or ok4 or ok5
            which = [k for k, v in (("sets-parent", ok1), ("restore", ok2), ("local-holder", ok3), ("next-of-child", ok4), ("link-primitive", ok5)) if v]
            res.ob(key, ok, f, n.get("l", 0),
                   "" if ok else "nodes attached as children of %s keep their old parent link: no `->parent = %s` follows on this path" % (A, A),
                   {"idiom": which})
            # MOVECLEAR: the list comes from another node's children -> that node gives it up
            src_node = None
            cand = [n["b"]] + (var_src.get(V["d"]["id"], []) if V.get("k") == "ref" and "id" in V.get("d", {}) else [])
            for s in cand:
                ss = strip(s, all_casts=True)
                if ss.get("k") == "bin" and ss.get("op") == "=":
                    ss = strip(ss["b"], all_casts=True)
                if ss.get("k") == "mem" and ss.get("f") == "children":
                    t = _ptr_text(f, ss["b"], ss.get("arrow"))
                    if t != A:
                        src_node = (t, ss)
            if src_node is not None and not ok2:
                t, ss = src_node
                sb = strip(ss["b"], all_casts=True)
                local_holder = (not ss.get("arrow")) and sb.get("k") == "ref" and sb["d"].get("dk") == "local"
                cleared = False
                for bb, ii, m in f.walk_all():
                    if m.get("k") == "bin" and m.get("op") == "=" and m is not n:
                        ll = strip(m["a"], lvalue_to_rvalue=False)
                        # the source gives the list up: its children field is cleared or given another list (swap) in this function
                        if ll.get("k") == "mem" and ll.get("f") == "children" and _ptr_text(f, ll["b"], ll.get("arrow")) == t:
                            cleared = True
                okm = cleared or local_holder
                res.ob(key + ":source-cleared", okm, f, n.get("l", 0),
                       "" if okm else "children of %s are attached to %s but %s still lists them: the nodes are reachable from two parents" % (t, A, t))
    if n_sites < 10:
        raise Broken("CHILDPARENT: only %d children stores found" % n_sites)
    return res


def run_destroy_guard(prog, ctx=None):
    """mpt_node_destroy() releases a node only when it is not linked; mpt_node_clear() unlinks each child before destroying it"""
    res = Result("NODEGUARD")
    d = prog.func("mpt_node_destroy")
    c = prog.func("mpt_node_clear")
    if d is None or c is None:
        raise Broken("anchor missing: mpt_node_destroy / mpt_node_clear")
    dom = d.dominators()
    node_id = d.params[0]["id"]
    frees = [(b, i, e) for b, i, e in d.elements() if e.get("k") == "call" and callee_name(e) == "free"
             and strip(e["args"][0], all_casts=True).get("k") == "ref" and strip(e["args"][0], all_casts=True)["d"].get("id") == node_id]
    if not frees:
        raise Broken("mpt_node_destroy: free(node) not found")
    fb = frees[0][0].id
    for fld in ("parent", "next", "prev"):
        ok = False
        for bid, b in d.blocks.items():
            if not b.term or b.term.get("cond") is None or len(b.succ) != 2:
                continue
            cnd = strip(b.term["cond"], all_casts=True)
            while cnd.get("k") == "bin" and cnd.get("op") in ("||", "&&"):
                cnd = strip(cnd["b"], all_casts=True)
            if cnd.get("k") == "mem" and cnd.get("f") == fld and strip(cnd["b"], all_casts=True).get("k") == "ref" \
                    and strip(cnd["b"], all_casts=True)["d"].get("id") == node_id:
                # linked (true edge) must not reach the free, and the test must dominate it
                if bid in dom[fb] and b.succ[0] is not None and fb not in d.reachable_from(b.succ[0]):
                    ok = True
        res.ob("mpt_node_destroy:refuses node with %s" % fld, ok, d, frees[0][2].get("l", 0),
               "" if ok else "free(node) is reachable for a node whose %s link is set: a linked node can be released" % fld)
    # clear: links reset before destroy, in the same block
    n = 0
    for b, i, e in c.elements():
        if e.get("k") == "call" and callee_name(e) == "mpt_node_destroy":
            n += 1
            x = strip(e["args"][0], all_casts=True)
            got = set()
            for e2 in b.el[:i]:
                for m in walk(e2):
                    if m.get("k") == "bin" and m.get("op") == "=":
                        l = strip(m["a"], lvalue_to_rvalue=False)
                        if l.get("k") == "mem" and l.get("f") in ("parent", "next", "prev") and norm(show(l["b"], c)) == norm(show(x, c)):
                            v = m["b"]
                            while strip(v, all_casts=True).get("k") == "bin" and strip(v, all_casts=True).get("op") == "=":
                                v = strip(v, all_casts=True)["b"]      # a = b = c = 0
                            if cval(v) == 0:
                                got.add(l["f"])
            ok = got == {"parent", "next", "prev"}
            res.ob("mpt_node_clear:unlinks before destroy", ok, c, e.get("l", 0),
                   "" if ok else "child handed to mpt_node_destroy() with links %s still set: destroy refuses it and the node leaks" % sorted({"parent", "next", "prev"} - got))
    if n == 0:
        raise Broken("mpt_node_clear: destroy call not found")
    return res


def _natural_loops(f):
    """head -> set of blocks"""
    dom = f.dominators()
    loops = {}
    for bid, b in f.blocks.items():
        for s in b.succ:
            if s is not None and s in dom[bid]:
                body = loops.setdefault(s, {s})
                stack = [bid]
                while stack:
                    x = stack.pop()
                    if x in body:
                        continue
                    body.add(x)
                    stack.extend(f.blocks[x].preds)
    return loops


def _list_parent_loops(f):
    """texts A for which f has a loop `for (X = ..; X; X = X->next) X->parent = A`: [(A text, X id)]"""
    out = []
    loops = _natural_loops(f)
    for h, body in loops.items():
        steps = set()
        stores = []
        for bid in body:
            for e in f.blocks[bid].el:
                for n in walk_own(e):
                    if n.get("k") == "bin" and n.get("op") == "=":
                        l = strip(n["a"], lvalue_to_rvalue=False)
                        r = strip(n["b"], all_casts=True)
                        if l.get("k") == "ref" and "id" in l["d"] and r.get("k") == "mem" and r.get("f") == "next":
                            rb = strip(r["b"], all_casts=True)
                            if rb.get("k") == "ref" and rb["d"].get("id") == l["d"]["id"]:
                                steps.add(l["d"]["id"])
                        if l.get("k") == "mem" and l.get("f") == "parent":
                            lb = strip(l["b"], all_casts=True)
                            if lb.get("k") == "ref" and "id" in lb["d"]:
                                stores.append((lb["d"]["id"], strip(n["b"], all_casts=True)))
        for xid, rhs in stores:
            if xid in steps:
                out.append((rhs, xid))
    return out


def run_childlist(prog, ctx=None):
    """CHILDLIST: where the result of a function that builds a sibling list (it links nodes in a loop) becomes `A->children`, every
    node of that list gets A as parent: a loop that walks `->next` and stores `->parent = A` (here, or in a helper handed A)."""
    res = Result("CHILDLIST")

    def producer(g):
        # builds a list: has a loop and links siblings (stores ->next / calls a gnode link primitive) and returns a node pointer
        if g.nocfg or not _natural_loops(g):
            return False
        for b, i, n in g.walk_all():
            if n.get("k") == "bin" and n.get("op") == "=":
                l = strip(n["a"], lvalue_to_rvalue=False)
                if l.get("k") == "mem" and l.get("f") == "next":
                    return True
            if n.get("k") == "call" and (callee_name(n) or "").startswith(("mpt_gnode_after", "mpt_gnode_before", "mpt_gnode_add", "mpt_gnode_insert")):
                return True
        return False

    for f in sorted(prog.functions.values(), key=lambda f: (f.file, f.line)):
        if f.nocfg:
            continue
        for b, i, e in f.elements():
            for n in walk_own(e):
                if not (n.get("k") == "bin" and n.get("op") == "="):
                    continue
                l = strip(n["a"], lvalue_to_rvalue=False)
                if not (l.get("k") == "mem" and l.get("f") == "children" and l.get("rec", "").split("::")[-1] in ("mpt_node", "node")):
                    continue
                V = strip(n["b"], all_casts=True)
                if V.get("k") == "bin" and V.get("op") == "=":
                    V = strip(V["b"], all_casts=True)
                calls = [V] if V.get("k") == "call" else []
                if V.get("k") == "ref" and V["d"].get("dk") == "local":
                    # the list was taken into a local first: `sub = build(..); A->children = sub;`
                    for b2, i2, m in f.walk_all():
                        src = None
                        if m.get("k") == "bin" and m.get("op") == "=":
                            l2 = strip(m["a"], lvalue_to_rvalue=False)
                            if l2.get("k") == "ref" and l2["d"].get("id") == V["d"]["id"]:
                                src = strip(m["b"], all_casts=True)
                        elif m.get("k") == "decl":
                            for v2 in m.get("vars", []):
                                if v2["id"] == V["d"]["id"] and v2.get("init") is not None:
                                    src = strip(v2["init"], all_casts=True)
                        if src is not None and src.get("k") == "call":
                            calls.append(src)
                gs = [g for c2 in calls for g in prog.resolve_call(f, c2) if producer(g)]
                if not gs:
                    continue
                A = norm(show(strip(l["b"], all_casts=True), f))
                ok = any(norm(show(rhs, f)) == A for rhs, xid in _list_parent_loops(f))
                if not ok:
                    # a helper that is handed A and runs the loop for its parameter
                    for b2, i2, c in f.elements():
                        if c.get("k") != "call" or not c.get("fn"):
                            continue
                        for h in prog.resolve_call(f, c):
                            if h.nocfg:
                                continue
                            pids = {p["id"]: k for k, p in enumerate(h.params)}
                            for rhs, xid in _list_parent_loops(h):
                                if rhs.get("k") == "ref" and rhs["d"].get("id") in pids:
                                    k = pids[rhs["d"]["id"]]
                                    if k < len(c.get("args", [])) and norm(show(strip(c["args"][k], all_casts=True), f)) == A:
                                        ok = True
                res.ob("%s:%s" % (f.qn, norm(show(n, f))[:70]), ok, f, n.get("l", f.line),
                       "" if ok else "%s: the list built by %s becomes the children of %s, but no loop over its `next` chain sets `->parent = %s` (only the nodes reached that way name their parent)" % (
                           f.qn, gs[0].qn, A, A))
                res.count("sites")
    if res.counters.get("sites", 0) < 2:
        raise Broken("CHILDLIST: only %d sites where a built list becomes a node's children" % res.counters.get("sites", 0))
    return res


def _owner(f, m):
    """text of the pointer to the node whose `children` member m is"""
    return _ptr_text(f, strip(m["b"], all_casts=True), bool(m.get("arrow")))


def run_childkeep(prog, ctx=None):
    """CHILDKEEP: a store `A->children = V` (V not null) into a node the function was handed replaces a child list: on the way
    to it the old list was tested empty (the null edge of a test of `A->children` itself), saved (`x = A->children`, or its
    address handed to a callee) or cleared (`mpt_node_clear(A)`).  Typestate with trace partitioning on A: a disjunction that
    lets the store run with a non-empty old list (`!A->children || !other`) leaves the state unknown on one side: the
    children that were there become unreachable while still naming A as parent."""
    res = Result("CHILDKEEP")
    from .ival import Analysis
    from .rules_effect import root_of
    n_sites = 0
    for f in sorted(prog.functions.values(), key=lambda f: (f.file, f.line)):
        if f.nocfg:
            continue
        sites = []
        for b, i, e in f.elements():
            for n in walk_own(e):
                if n.get("k") == "bin" and n.get("op") == "=":
                    l = strip(n["a"], lvalue_to_rvalue=False)
                    if l.get("k") == "mem" and l.get("f") == "children" and l.get("rec", "").split("::")[-1] in ("mpt_node", "node") and cval(n["b"]) != 0:
                        r = strip(n["b"], all_casts=True)
                        if r.get("k") == "bin" and r.get("op") == "=" and cval(r) == 0:
                            continue
                        # a whole list is attached: the child list of another node, or what a call returned (head updates of the
                        # link primitives, where the new head is linked to the old list, are CHILDPARENT's and LINNODE's business)
                        whole = False
                        for m in walk(n["b"]):
                            if m.get("k") == "mem" and m.get("f") == "children" and _ptr_text(f, strip(m["b"], all_casts=True), bool(m.get("arrow"))) != _ptr_text(f, strip(l["b"], all_casts=True), bool(l.get("arrow"))):
                                whole = True
                            if m.get("k") == "call":
                                whole = True
                        if whole:
                            sites.append((b, i, n, l))
        if not sites:
            continue
        pids = {p["id"] for p in f.params}
        for atext in sorted({_owner(f, l) for b, i, n, l in sites}):
            mine = [(b, i, n, l) for b, i, n, l in sites if _owner(f, l) == atext]
            root = root_of(mine[0][3]["b"])
            if root not in pids and root != 0:
                # a node created or found here: judged by CHILDPARENT / LINNODE, not a handed-in list
                fresh = True
                for b2, i2, m in f.walk_all():
                    if m.get("k") == "bin" and m.get("op") == "=":
                        ll = strip(m["a"], lvalue_to_rvalue=False)
                        if ll.get("k") == "ref" and ll["d"].get("id") == root and root_of(m["b"]) in pids:
                            fresh = False
                if fresh:
                    continue
            PK = Analysis.PK

            def is_children_of(x):
                x = strip(x, all_casts=True)
                return x.get("k") == "mem" and x.get("f") == "children" and _owner(f, x) == atext

            def hook(an, blk, idx, el, st):
                for n in walk_own(el):
                    if n.get("k") == "bin" and n.get("op") == "=":
                        l = strip(n["a"], lvalue_to_rvalue=False)
                        if l.get("k") == "ref" and any(is_children_of(m) for m in walk(n["b"]) if m.get("k") == "mem"):
                            st[PK] = "H"
                        if l.get("k") == "mem" and l.get("f") == "children" and _owner(f, l) == atext:
                            # after the store the list is the new one
                            st[PK] = "H" if cval(n["b"]) != 0 else "E"
                    elif n.get("k") == "decl":
                        for v in n["vars"]:
                            if v.get("init") is not None and any(is_children_of(m) for m in walk(v["init"]) if m.get("k") == "mem"):
                                st[PK] = "H"
                    elif n.get("k") == "call":
                        nm = callee_name(n) or ""
                        for a in n.get("args", []):
                            s = strip(a, all_casts=True)
                            if nm == "mpt_node_clear" and norm(show(s, f)) == atext:
                                st[PK] = "E"
                            if s.get("k") == "un" and s.get("op") == "&" and is_children_of(s["e"]):
                                st[PK] = "H"

            def edge_hook(an, blk, cond, truth, st):
                c = strip(cond, all_casts=True)
                neg = False
                while c.get("k") == "un" and c.get("op") == "!":
                    neg = not neg
                    c = strip(c["e"], all_casts=True)
                if c.get("k") == "bin" and c.get("op") == "=" :
                    c = strip(c["b"], all_casts=True)
                if is_children_of(c) and (truth == neg):
                    st[PK] = "E"

            an = Analysis(prog, f, hook=hook, edge_hook=edge_hook)
            st0 = an.entry_state()
            st0[PK] = "?"
            an.run(state=st0)
            for b, i, n, l in mine:
                n_sites += 1
                parts = an.pre_parts.get((b.id, i), {})
                # the state before this element; the store's own hook ran after pre_parts was taken
                bad = "?" in parts or "*" in parts
                res.ob("%s:%s at line %s" % (f.qn, norm(show(n, f))[:50], n.get("l", f.line)), not bad, f, n.get("l", f.line) or f.line,
                       "" if not bad else "`%s` replaces the child list of %s on a path where the old list was neither tested empty nor saved nor cleared: children that were linked there stay linked to each other and to their parent but can no longer be reached or released" % (
                           norm(show(n, f))[:70], atext))
    if n_sites < 2:
        raise Broken("CHILDKEEP: only %d stores of whole lists to the children of handed-in nodes found" % n_sites)
    return res
