"""Path / effect rules shared by several properties: DIVZERO, OUTPARAM, STATUSPOLARITY, DECWRAP, NARROW."""
from .facts import strip, cval, walk, walk_own, show, callee_name
from .ival import Analysis, AV, Summaries, join, type_range
from .core import Result, Broken, norm
from .rules_effect import root_of, is_deref_store


def funcs_of(prog, files=None, names=None):
    out = []
    for f in prog.functions.values():
        if f.nocfg:
            continue
        if files and f.file not in files:
            continue
        if names is not None and f.name not in names and f.qn not in names:
            continue
        out.append(f)
    return sorted(out, key=lambda f: (f.file, f.line))


def run_divzero(prog, ctx=None):
    """DIVZERO: the divisor of every / and % excludes 0 on every path"""
    res = Result("DIVZERO")
    files = set(ctx.get("files", [])) if ctx else None
    for f in funcs_of(prog, files):
        divs = [n for b, i, n in f.walk_all() if n.get("k") == "bin" and n.get("op") in ("/", "%", "/=", "%=") and cval(n) is None
                and f.T(n.get("t")).get("k") != "float"]
        if not divs:
            continue
        an = Analysis(prog, f).run()
        seen = set()
        for (bid, idx), pre in sorted(an.pre.items()):
            el = f.blocks[bid].el[idx]
            for n in walk_own(el):
                if n.get("k") == "bin" and n.get("op") in ("/", "%", "/=", "%=") and cval(n) is None and id(n) not in seen \
                        and f.T(n.get("t")).get("k") != "float":
                    seen.add(id(n))
                    if cval(n["b"]) is not None:
                        ok = cval(n["b"]) != 0
                        v = AV(cval(n["b"]), cval(n["b"]))
                    else:
                        v = an.val(bid, idx, n["b"])
                        ok = v is not None and not v.contains(0)
                    res.ob("%s:%s" % (f.qn, norm(show(n, f))), ok, f, n.get("l", 0),
                           "" if ok else "divisor %s may be zero (%s)" % (norm(show(n["b"], f)), v), {"divisor": v.tojson() if v else None})
    return res


# ---- out-parameter summaries -------------------------------------------------

class OutSummary:
    """per function: for every pointer parameter, the return classes on which it is / is not written"""

    def __init__(self, prog):
        self.prog = prog
        self.memo = {}

    def get(self, g, consts=None):
        """consts: per argument a compile-time constant or None (call-site specialisation, e.g. the type selector)"""
        k = (g.key(), consts if consts and any(c is not None for c in consts) else None)
        if k in self.memo:
            return self.memo[k]
        self.memo[k] = None
        if g.nocfg or len(g.blocks) > 150:
            return None
        pids = {p["id"]: i for i, p in enumerate(g.params) if g.T(p["t"]).get("k") == "ptr" and not g.T(g.pointee(p["t"])).get("const")}
        if not pids:
            self.memo[k] = {}
            return {}
        PK = Analysis.PK

        def hook(an, b, i, el, st):
            w = st.get(PK) or frozenset()
            for n in walk(el):
                tgt = None
                if n.get("k") == "bin" and n["op"].endswith("=") and n["op"] not in ("==", "!=", "<=", ">="):
                    tgt = n["a"]
                elif n.get("k") == "un" and n.get("op") in ("++", "--"):
                    tgt = n["e"]
                if tgt is not None and is_deref_store(tgt):
                    r = root_of(tgt)
                    if r in pids:
                        w = w | {pids[r]}
                if n.get("k") == "call" and callee_name(n) in ("memcpy", "memset", "memmove") and n.get("args"):
                    r = root_of(n["args"][0])
                    if r in pids:
                        w = w | {pids[r]}
            st[PK] = w

        an = Analysis(self.prog, g, hook=hook)
        st0 = an.entry_state()
        st0[PK] = frozenset()
        if k[1]:
            for p_, c_ in zip(g.params, k[1]):
                if c_ is not None and ("v", p_["id"]) in st0:
                    st0[("v", p_["id"])] = AV(c_, c_)
        an.run(state=st0)
        out = {i: {"written": None, "unwritten": None} for i in pids.values()}
        from .rules_effect import return_cases
        for el, vexpr, pos, parts in return_cases(an, g):
            for pk, st in parts:
                if pk is None or pk == "*":
                    continue
                rv = an.ev(vexpr, dict(st), True, g.blocks[pos[0]].el[pos[1]])
                for i in pids.values():
                    # a parameter that is null on this path cannot be written
                    pv = st.get(("v", g.params[i]["id"]))
                    if pv is not None and pv.lo == 0 and pv.hi == 0:
                        continue
                    slot = "written" if i in pk else "unwritten"
                    out[i][slot] = join(out[i][slot], rv)
        self.memo[k] = out
        return out


def run_outparam_ignored(prog, ctx=None):
    """OUTPARAM (caller side): the result of a callee that can return without writing *out is not discarded
    when the caller then reads the (otherwise uninitialised) local it passed"""
    res = Result("OUTPARAM")
    files = set(ctx.get("files", [])) if ctx else None
    osum = OutSummary(prog)
    for f in funcs_of(prog, files):
        # uninitialised locals
        uninit = {}
        for b, i, n in f.walk_all():
            if n.get("k") == "decl":
                for v in n["vars"]:
                    if v.get("init") is None and not v.get("static") and f.T(v["t"]).get("k") in ("int", "ptr", "float", "enum", "bool"):
                        uninit[v["id"]] = v["n"]
        if not uninit:
            continue
        assigned = set()
        for b, i, n in f.walk_all():
            if n.get("k") == "bin" and n["op"].endswith("=") and n["op"] not in ("==", "!=", "<=", ">="):
                l = strip(n["a"], lvalue_to_rvalue=False)
                if l.get("k") == "ref" and "id" in l["d"]:
                    assigned.add(l["d"]["id"])
        for b, i, el in f.elements():
            if el.get("k") != "call" or not el.get("fn", {}).get("inroot"):
                continue
            cs = prog.resolve_call(f, el)
            if not cs:
                continue
            outs = []
            for ai, a in enumerate(el.get("args", [])):
                s = strip(a, all_casts=True)
                if s.get("k") == "un" and s.get("op") == "&":
                    x = strip(s["e"], lvalue_to_rvalue=False)
                    if x.get("k") == "ref" and x["d"].get("id") in uninit and x["d"]["id"] not in assigned:
                        outs.append((ai, x["d"]["id"]))
            if not outs:
                continue
            summ = osum.get(cs[0])
            if not summ:
                continue
            # is the call's value used?  (a root CFG element that is not nested in a later element of the block)
            used = False
            for e2 in b.el[i + 1:]:
                for n in walk(e2):
                    if n is not el and n.get("sid") == el.get("sid") and n.get("k") == "call":
                        used = True
            if b.term and b.term.get("cond") is not None:
                for n in walk(b.term["cond"]):
                    if n.get("sid") == el.get("sid"):
                        used = True
            for ai, vid in outs:
                s = summ.get(ai)
                if s is None:
                    continue
                unw = s["unwritten"]
                key = "%s:%s:out %s" % (f.qn, norm(show(el, f)), uninit[vid])
                if unw is None:
                    res.ob(key, True, f, el.get("l", 0), detail={"callee_writes": "on every return"})
                    continue
                # read later?
                read = any(n.get("k") == "ref" and n["d"].get("id") == vid for bb, ii, n in f.walk_all()
                           if not (n.get("k") == "ref" and False))
                ok = used or not read
                res.ob(key, ok, f, el.get("l", 0),
                       "" if ok else "%s() can return %s without writing *%s, its result is discarded and %s is read afterwards" % (
                           cs[0].qn, unw, cs[0].params[ai]["n"], uninit[vid]),
                       {"unwritten_on_return": unw.tojson()})
    return res


def is_status_function(prog, g, _seen=None):
    """returns one of the repo's negative error enumerators, directly or by returning the result of a callee that does"""
    _seen = _seen if _seen is not None else set()
    if g.key() in _seen or g.nocfg:
        return False
    _seen.add(g.key())
    rvars = set()
    for b, i, e in g.elements():
        if e.get("k") == "ret" and e.get("e") is not None:
            r = strip(e["e"], all_casts=True)
            for n in walk(r):
                if n.get("k") == "ref" and n["d"].get("dk") == "enumc" and (cval(n) or 0) < 0:
                    return True
                if n.get("k") == "ref" and "id" in n["d"]:
                    rvars.add(n["d"]["id"])
                if n.get("k") == "call" and n.get("fn", {}).get("inroot"):
                    for c in prog.resolve_call(g, n):
                        if is_status_function(prog, c, _seen):
                            return True
    # status variable assigned from a status callee
    for b, i, n in g.walk_all():
        if n.get("k") == "bin" and n.get("op") == "=":
            l = strip(n["a"], lvalue_to_rvalue=False)
            if l.get("k") == "ref" and l["d"].get("id") in rvars:
                r = strip(n["b"], all_casts=True)
                if r.get("k") == "ref" and r["d"].get("dk") == "enumc" and (cval(r) or 0) < 0:
                    return True
                if r.get("k") == "call" and r.get("fn", {}).get("inroot"):
                    for c in prog.resolve_call(g, r):
                        if is_status_function(prog, c, _seen):
                            return True
    return False


def run_statuspolarity(prog, ctx=None):
    """STATUSPOLARITY: callees that return negative errors *and* positive success values are not tested by truthiness"""
    res = Result("STATUSPOLARITY")
    files = set(ctx.get("files", [])) if ctx else None
    callees = set(ctx.get("callees", [])) if ctx and ctx.get("callees") else None
    sm = Summaries(prog)
    cache = {}

    def retsum(g):
        k = g.key()
        if k not in cache:
            cache[k] = None
            if g.nocfg or len(g.blocks) > 120:
                return None
            an = Analysis(prog, g, summaries=sm).run()
            r = None
            for (bid, idx), pre in an.pre.items():
                el = g.blocks[bid].el[idx]
                if el.get("k") == "ret" and el.get("e") is not None:
                    r = join(r, an.val(bid, idx, el["e"]))
            cache[k] = r
        return cache[k]

    for f in funcs_of(prog, files):
        for bid, b in f.blocks.items():
            if not b.term or b.term.get("cond") is None:
                continue
            c = strip(b.term["cond"], all_casts=True)
            while c.get("k") == "bin" and c.get("op") in ("||", "&&"):
                c = strip(c["b"], all_casts=True)
            neg = False
            while c.get("k") == "un" and c.get("op") == "!":
                neg = not neg
                c = strip(c["e"], all_casts=True)
            accepted = False
            if c.get("k") == "bin" and c.get("op") in ("<", ">=", "<=", ">") and cval(c["b"]) == 0:
                # the accepted forms `call < 0` / `call >= 0` are counted as instances of the rule
                inner = strip(c["a"], all_casts=True)
                if inner.get("k") == "bin" and inner.get("op") == "=":
                    inner = strip(inner["b"], all_casts=True)
                if inner.get("k") == "call":
                    c = inner
                    accepted = True
            if c.get("k") != "call" or not c.get("fn", {}).get("inroot"):
                continue
            cs = prog.resolve_call(f, c)
            if not cs:
                continue
            g = cs[0]
            if callees is not None and g.name not in callees:
                continue
            RT = g.T(g.ret)
            if RT.get("k") != "int" or not RT.get("signed"):
                continue
            if not is_status_function(prog, g):
                continue      # orderings (compare functions) and counts are not statuses
            r = retsum(g)
            if r is None:
                continue
            mixed = r.lo < 0 and r.hi > 0
            if accepted:
                if mixed:
                    res.ob("%s:%s compared with 0" % (f.qn, norm(show(c, f))), True, f, c.get("l", 0))
                continue
            res.ob("%s:%s%s" % (f.qn, "!" if neg else "", norm(show(c, f))), not mixed, f, c.get("l", 0),
                   "" if not mixed else "%s() returns %s (negative = error, 0 and positive = success) but is tested by truthiness" % (g.qn, r),
                   {"returns": r.tojson()})
    return res


def run_decwrap(prog, ctx=None):
    """DECWRAP: no unsigned pre/post decrement of a value that may be 0 in a loop condition"""
    res = Result("DECWRAP")
    files = set(ctx.get("files", [])) if ctx else None
    for f in funcs_of(prog, files):
        cands = []
        for bid, b in f.blocks.items():
            if b.term and b.term.get("cls") in ("WhileStmt", "ForStmt", "DoStmt") and b.term.get("cond") is not None:
                for n in walk(b.term["cond"]):
                    if n.get("k") == "un" and n.get("op") == "--":
                        T = f.T(n["e"].get("t"))
                        if T.get("k") == "int" and not T.get("signed"):
                            if n.get("post"):
                                # `while (n--)`: tests the value before the decrement, the body never sees a wrapped count
                                res.ob("%s:%s" % (f.qn, norm(show(b.term["cond"], f))), True, f, n.get("l", 0), detail={"idiom": "post-decrement test"})
                            else:
                                cands.append((bid, b, n))
        if not cands:
            continue
        an = Analysis(prog, f).run()
        for bid, b, n in cands:
            # state before the condition element
            idx = len(b.el) - 1
            v = an.val(bid, idx, n["e"]) if idx >= 0 else None
            ok = v is not None and not v.contains(0)
            res.ob("%s:%s" % (f.qn, norm(show(b.term["cond"], f))), ok, f, n.get("l", 0),
                   "" if ok else "loop condition pre-decrements unsigned %s which may be 0 (%s): wraps to the maximum and skips the last element otherwise" % (
                       norm(show(n["e"], f)), v), {"value": v.tojson() if v else None})
    return res


def _is_iovec_ptr(f, tid):
    T = f.T(tid)
    if T.get("k") != "ptr":
        return False
    P = f.T(T.get("to"))
    return P.get("k") == "record" and P.get("name", "").endswith("iovec")


def run_cursor(prog, ctx=None):
    """CURSOR: every advance of an iovec cursor is paired with a decrement of its element count and happens only while that count is non-zero.

    companion of  B.cont / B->cont (struct message)        : B.clen
                  local initialised from  M->cont           : the local initialised from M->clen
                  parameter `struct iovec *p`               : the integer parameter that follows it
    accepted idioms: (a) count decremented in the same basic block as the advance, count >= 1 there (interval);
                     (b) a block dominating the advance branches on a decrement of the count (`if (!n--) return`, `while (n--)`).
    """
    res = Result("CURSOR")
    files = set(ctx.get("files", [])) if ctx else None
    for f in funcs_of(prog, files):
        incs = []
        for b, i, e in f.elements():
            for n in walk_own(e):
                tgt = None
                if n.get("k") == "un" and n.get("op") == "++":
                    tgt = n["e"]
                elif n.get("k") == "bin" and n.get("op") == "+=" and cval(n["b"]) == 1:
                    tgt = n["a"]
                if tgt is not None and _is_iovec_ptr(f, tgt.get("t")):
                    incs.append((b, i, n, strip(tgt, lvalue_to_rvalue=False)))
        if not incs:
            continue
        # companions
        local_from = {}     # local id -> ("cont"/"clen", base text)
        for b, i, n in f.walk_all():
            src = None
            if n.get("k") == "decl":
                for v in n["vars"]:
                    if v.get("init") is not None:
                        s = strip(v["init"], all_casts=True)
                        if s.get("k") == "mem" and s.get("f") in ("cont", "clen"):
                            local_from[v["id"]] = (s["f"], norm(show(s["b"], f)))
            elif n.get("k") == "bin" and n.get("op") == "=":
                l = strip(n["a"], lvalue_to_rvalue=False)
                s = strip(n["b"], all_casts=True)
                if l.get("k") == "ref" and "id" in l["d"] and s.get("k") == "mem" and s.get("f") in ("cont", "clen"):
                    local_from[l["d"]["id"]] = (s["f"], norm(show(s["b"], f)))
        an = None
        dom = f.dominators()

        def is_count(x, comp):
            x = strip(x, lvalue_to_rvalue=False)
            if comp[0] == "mem":
                return x.get("k") == "mem" and x.get("f") == "clen" and norm(show(x["b"], f)) == comp[1]
            return x.get("k") == "ref" and x["d"].get("id") == comp[1]

        def decs_in(e, comp):
            out = []
            for n in walk(e):
                if n.get("k") == "un" and n.get("op") == "--" and is_count(n["e"], comp):
                    out.append(n)
                elif n.get("k") == "bin" and n.get("op") == "-=" and is_count(n["a"], comp):
                    out.append(n)
            return out

        for b, i, n, tgt in incs:
            comp = None
            if tgt.get("k") == "mem" and tgt.get("f") == "cont":
                comp = ("mem", norm(show(tgt["b"], f)))
            elif tgt.get("k") == "ref" and "id" in tgt["d"]:
                vid = tgt["d"]["id"]
                if vid in local_from and local_from[vid][0] == "cont":
                    cands = [k for k, v in local_from.items() if v[0] == "clen" and v[1] == local_from[vid][1]]
                    if cands:
                        comp = ("var", cands[0])
                elif tgt["d"].get("dk") == "param":
                    idx = [k for k, p in enumerate(f.params) if p["id"] == vid]
                    if idx and idx[0] + 1 < len(f.params) and f.T(f.params[idx[0] + 1]["t"]).get("k") == "int":
                        comp = ("var", f.params[idx[0] + 1]["id"])
            key = "%s:%s" % (f.qn, norm(show(n, f)))
            if comp is None:
                res.notes.append("%s: no element count found for this cursor" % key)
                continue
            # (b) dominating decrement test
            guarded = False
            for pb in dom[b.id]:
                blk = f.blocks[pb]
                if blk.term and blk.term.get("cond") is not None and decs_in(blk.term["cond"], comp):
                    guarded = True
            same = any(decs_in(e2, comp) for e2 in b.el)
            if guarded:
                res.ob(key, True, f, n.get("l", 0), detail={"idiom": "advance dominated by a branch on the count's decrement"})
                continue
            if not same:
                res.ob(key, False, f, n.get("l", 0), "cursor advanced without decrementing its element count in the same step")
                continue
            # (c) position walk: `while (pos > cur->iov_len) { pos -= cur->iov_len; --n; ++cur; }` — the position was obtained
            #     from a search over the same (cursor, count) pair, the bound is relational and not an interval fact
            walkpos = False
            for e2 in b.el:
                for m in walk_own(e2):
                    if m.get("k") == "bin" and m.get("op") == "-=":
                        rx = _iov_member(m["b"], "iov_len", f)
                        if rx is not None and norm(show(strip(rx, all_casts=True), f)) == norm(show(tgt, f)):
                            walkpos = True
            if walkpos:
                res.ob(key, True, f, n.get("l", 0), detail={"idiom": "position walk bounded by a search result over the same fragments (relational, accepted by shape)"})
                continue
            # (d) the step that takes the located fragment itself out of the list: the advance is dominated by the head of a
            #     position walk (c) over the same cursor whose exit means "the position lies inside *cursor": that fragment exists
            located = False
            for pb in dom[b.id]:
                if pb == b.id:
                    continue
                blk = f.blocks[pb]
                c = strip(blk.term["cond"], all_casts=True) if blk.term and blk.term.get("cond") is not None else None
                if c is None or not (c.get("k") == "bin" and c.get("op") in (">=", ">", "<", "<=")):
                    continue
                for side in (c["a"], c["b"]):
                    rx = _iov_member(side, "iov_len", f)
                    if rx is not None and norm(show(strip(rx, all_casts=True), f)) == norm(show(tgt, f)):
                        # the loop body is a position walk over this cursor
                        for s2 in blk.succ:
                            if s2 is None:
                                continue
                            for e2 in f.blocks[s2].el:
                                for m in walk_own(e2):
                                    if m.get("k") == "bin" and m.get("op") == "-=":
                                        rr = _iov_member(m["b"], "iov_len", f)
                                        if rr is not None and norm(show(strip(rr, all_casts=True), f)) == norm(show(tgt, f)):
                                            located = True
            if located:
                res.ob(key, True, f, n.get("l", 0), detail={"idiom": "step past the fragment a position walk over the same cursor stopped in (relational, accepted by shape)"})
                continue
            if an is None:
                an = Analysis(prog, f).run()
            # value of the count before the first element of this block that touches it
            cexpr = None
            for e2 in b.el:
                for d in decs_in(e2, comp):
                    cexpr = d.get("e") or d.get("a")
            first = min(k for k, e2 in enumerate(b.el) if decs_in(e2, comp) or e2 is b.el[i])
            v = an.val(b.id, min(first, i), cexpr)
            ok = v is not None and v.lo >= 1
            if not ok and f.static and comp[0] == "mem":
                # file-local helper: the guard may live in the callers — accepted when every call site is dominated by the
                # non-zero edge of a test of the same count
                ok = _callers_guard_count(prog, f, comp[1])
            res.ob(key, ok, f, n.get("l", 0),
                   "" if ok else "cursor advanced while its element count may be zero (%s)" % v, {"count": v.tojson() if v else None})
    return res


def _callers_guard_count(prog, g, base_text):
    """every direct call of the file-local function g passes, for the parameter named base_text, an object whose ->clen was
    tested non-zero on every way to the call"""
    pidx = [k for k, p in enumerate(g.params) if p["n"] == base_text]
    if not pidx:
        return False
    sites = 0
    for f in prog.by_file.get(g.file, []):
        if f.nocfg or f is g:
            continue
        dom = None
        for b, i, e in f.elements():
            if not (e.get("k") == "call" and e.get("fn") and g in prog.resolve_call(f, e)):
                continue
            sites += 1
            if pidx[0] >= len(e.get("args", [])):
                return False
            at = strip(e["args"][pidx[0]], all_casts=True)
            arrow = True
            if at.get("k") == "un" and at.get("op") == "&":
                at = strip(at["e"], lvalue_to_rvalue=False)
                arrow = False
            atext = norm(show(at, f))
            dom = dom or f.dominators()
            good = False
            for did in dom[b.id]:
                D = f.blocks[did]
                if not (D.term and D.term.get("cond") is not None and len(D.succ) == 2):
                    continue
                c = strip(D.term["cond"], all_casts=True)
                if D.term.get("cls") != "BinaryOperator":
                    while c.get("k") == "bin" and c.get("op") in ("&&", "||"):
                        c = strip(c["b"], all_casts=True)
                neg = False
                while c.get("k") == "un" and c.get("op") == "!":
                    neg = not neg
                    c = strip(c["e"], all_casts=True)
                if c.get("k") == "mem" and c.get("f") == "clen" and bool(c.get("arrow")) == arrow and norm(show(c["b"], f)) == atext:
                    nz = D.succ[1 if neg else 0]
                    if nz is not None and (nz == b.id or nz in dom[b.id]):
                        good = True
            if not good:
                return False
    return sites > 0


def natural_loops(f):
    dom = f.dominators()
    loops = {}
    for bid, b in f.blocks.items():
        for s in b.succ:
            if s is not None and s in dom[bid]:
                # back edge bid -> s
                body = loops.setdefault(s, {s})
                st = [bid]
                while st:
                    x = st.pop()
                    if x in body:
                        continue
                    body.add(x)
                    st.extend(f.blocks[x].preds)
    return loops


def _lv_names(f, e):
    """textual names of the lvalues (variables, member paths) read in e"""
    out = set()
    for n in walk(e):
        if n.get("k") == "ref" and "id" in n["d"]:
            out.add("v%d" % n["d"]["id"])
        elif n.get("k") == "mem":
            out.add(norm(show(n, f)))
    return out


def run_progress(prog, ctx=None):
    """PROGRESS: every loop changes something one of its exit conditions reads (or exits on a call result)"""
    res = Result("PROGRESS")
    files = set(ctx.get("files", [])) if ctx else None
    names = ctx.get("names") if ctx else None
    for f in funcs_of(prog, files, names):
        loops = natural_loops(f)
        for h, body in sorted(loops.items()):
            conds = []
            for x in body:
                blk = f.blocks[x]
                if blk.term and blk.term.get("cond") is not None and any(s is not None and s not in body for s in blk.succ):
                    conds.append(blk.term["cond"])
            modified = set()
            hascall_in_cond = False
            for c in conds:
                for n in walk(c):
                    if n.get("k") == "call":
                        hascall_in_cond = True
            for x in body:
                for e in f.blocks[x].el:
                    for n in walk_own(e):
                        tgt = None
                        if n.get("k") == "bin" and n["op"].endswith("=") and n["op"] not in ("==", "!=", "<=", ">="):
                            tgt = n["a"]
                        elif n.get("k") == "un" and n.get("op") in ("++", "--"):
                            tgt = n["e"]
                        elif n.get("k") == "decl":
                            for v in n["vars"]:
                                if v.get("init") is not None:
                                    modified.add("v%d" % v["id"])
                        elif n.get("k") == "call":
                            for a in n.get("args", []):
                                s = strip(a, all_casts=True)
                                if s.get("k") == "un" and s.get("op") == "&":
                                    modified |= _lv_names(f, s["e"])
                                elif s.get("k") == "ref" and f.T(s.get("t")).get("k") == "ptr":
                                    # callee may advance what the pointer refers to (message cursors, streams)
                                    modified.add("v%d" % s["d"].get("id", -1))
                                    modified |= {m for c in conds for m in _lv_names(f, c) if m.startswith(s["d"]["n"] + "->")}
                        if tgt is not None:
                            t = strip(tgt, lvalue_to_rvalue=False)
                            if t.get("k") == "ref" and "id" in t["d"]:
                                modified.add("v%d" % t["d"]["id"])
                            elif t.get("k") == "mem":
                                modified.add(norm(show(t, f)))
                            else:
                                modified |= _lv_names(f, t)
            read = set()
            for c in conds:
                read |= _lv_names(f, c)
            line = f.blocks[h].term.get("l", 0) if f.blocks[h].term else (f.blocks[h].el[0].get("l", 0) if f.blocks[h].el else f.line)
            ok = bool(read & modified) or hascall_in_cond
            if not conds:
                ok = False
            res.ob("%s:loop@%s" % (f.qn, norm(show(f.blocks[h].term.get("cond"), f))[:60] if f.blocks[h].term and f.blocks[h].term.get("cond") is not None else "B%d" % h),
                   ok, f, line, "" if ok else ("loop has no exit" if not conds else "no exit condition of this loop reads anything the loop changes"),
                   {"exit_reads": sorted(read)[:8], "changes": sorted(modified)[:8]})
    return res


def tested_pointers(f):
    """local/param pointers the function tests for null somewhere: id -> name"""
    tested = {}
    for bid, b in f.blocks.items():
        if b.term and b.term.get("cond") is not None:
            c = b.term["cond"]
            dc = strip(c, all_casts=True)
            while dc.get("k") == "bin" and dc.get("op") in ("&&", "||"):
                dc = strip(dc["b"], all_casts=True)
            if dc.get("k") == "bin" and dc.get("op") == "=":
                dc = strip(dc["a"], lvalue_to_rvalue=False)
            if dc.get("k") == "ref" and "id" in dc["d"] and f.T(dc.get("t")).get("k") == "ptr":
                tested[dc["d"]["id"]] = dc["d"]["n"]
            for n in walk(c):
                x = None
                if n.get("k") == "un" and n.get("op") == "!":
                    x = strip(n["e"], all_casts=True)
                elif n.get("k") == "cast" and n.get("ck") == "PointerToBoolean":
                    x = strip(n["e"], all_casts=True)
                elif n.get("k") == "bin" and n.get("op") in ("==", "!=") and cval(n["b"]) == 0:
                    x = strip(n["a"], all_casts=True)
                if x is not None:
                    if x.get("k") == "bin" and x.get("op") == "=":
                        x = strip(x["a"], lvalue_to_rvalue=False)
                    if x.get("k") == "ref" and "id" in x["d"] and f.T(x.get("t")).get("k") == "ptr":
                        tested[x["d"]["id"]] = x["d"]["n"]
    return tested


def null_partitioned(prog, f, summaries=None):
    """interval analysis of f with one trace partition per outcome of its own null tests"""
    tv = sorted(tested_pointers(f))
    PK = Analysis.PK

    def nullkey(an, st):
        k = []
        for vid in tv:
            v = st.get(("v", vid))
            k.append("?" if v is None else ("N" if (v.lo == 0 and v.hi == 0) else ("P" if v.lo > 0 else "?")))
        st[PK] = "".join(k)

    an = Analysis(prog, f, summaries=summaries, hook=lambda an, b, i, el, st: nullkey(an, st), edge_hook=lambda an, b, c, t, st: nullkey(an, st))
    st0 = an.entry_state()
    nullkey(an, st0)
    an.run(state=st0)
    return an


def run_nullcontra(prog, ctx=None):
    """NULLCONTRA (Engler): a pointer the function itself tests for null is not dereferenced where that test has not established non-null"""
    res = Result("NULLCONTRA")
    files = set(ctx.get("files", [])) if ctx else None
    for f in funcs_of(prog, files):
        tested = tested_pointers(f)
        if not tested:
            continue
        PK = Analysis.PK
        tv = sorted(tested)

        def nullkey(an, st):
            k = []
            for vid in tv:
                v = st.get(("v", vid))
                k.append("?" if v is None else ("N" if (v.lo == 0 and v.hi == 0) else ("P" if v.lo > 0 else "?")))
            st[PK] = "".join(k)

        an = Analysis(prog, f, hook=lambda an, b, i, el, st: nullkey(an, st), edge_hook=lambda an, b, c, t, st: nullkey(an, st))
        st0 = an.entry_state()
        nullkey(an, st0)
        an.run(state=st0)
        done = set()
        for (bid, idx), parts in sorted(an.pre_parts.items()):
            el = f.blocks[bid].el[idx]
            addr_only = set()
            for n in walk_own(el):
                if n.get("k") == "un" and n.get("op") == "&":
                    x = strip(n["e"], lvalue_to_rvalue=False)
                    while isinstance(x, dict):
                        addr_only.add(id(x))       # &p->f, &p->a.b, &p[i]: address arithmetic, no access
                        if x.get("k") == "mem" and not x.get("arrow"):
                            x = strip(x["b"], lvalue_to_rvalue=False)
                        else:
                            break
            for n in walk_own(el):
                if id(n) in addr_only:
                    continue
                p = None
                if n.get("k") == "un" and n.get("op") == "*":
                    p = n["e"]
                elif n.get("k") == "mem" and n.get("arrow"):
                    p = n["b"]
                elif n.get("k") == "idx":
                    p = n["a"]
                elif n.get("k") == "call" and callee_name(n) in ("memcpy", "memmove", "strlen", "strcmp", "strcpy", "memcmp") and n.get("args"):
                    # library functions that read through their pointer arguments (a zero length does not make NULL valid for memcpy)
                    for a in n["args"][:2]:
                        a_ = strip(a, all_casts=True)
                        if a_.get("k") == "ref" and a_["d"].get("id") in tested and f.T(a_.get("t")).get("k") == "ptr":
                            lenarg = n["args"][2] if len(n["args"]) > 2 else None
                            zero_ok = False
                            if lenarg is not None:
                                zero_ok = all((an.ev(lenarg, dict(st), True, el).hi == 0) for st in parts.values())
                            if not zero_ok:
                                p = a
                if p is None:
                    continue
                ps = strip(p, all_casts=True)
                if ps.get("k") != "ref" or ps["d"].get("id") not in tested:
                    continue
                if id(n) in done:
                    continue
                done.add(id(n))
                # armed form: on some path class (trace partition on the outcome of the function's own null tests) the pointer
                # is *known* null at the dereference.  The plain "may be null" form was tried and dropped: unknown loads and
                # correlated guards (flags = -1 iff buf == NULL in mpt_array_reserve) make it fire on correct code.
                ok = True
                for pk, st in parts.items():
                    v = an.ev(ps, dict(st), True, el)
                    if v.lo == 0 and v.hi == 0:
                        ok = False
                key = "%s:%s@%s" % (f.qn, tested[ps["d"]["id"]], norm(show(n, f))[:50])
                if not ok:
                    res.ob(key, False, f, n.get("l", 0),
                           "%s is null on a path that reaches this dereference (the function tested it for null and went on)" % tested[ps["d"]["id"]])
                else:
                    res.ob(key, True, f, n.get("l", 0))
    return res


COPY_APIS = {   # callee -> (index of source data, index of length)
    "memcpy": (1, 2), "memmove": (1, 2), "mpt_buffer_set": (3, 4), "mpt_array_append": (2, 1),
    "mpt_queue_set": (3, 2), "mpt_qpush": (2, 1), "mpt_qunshift": (2, 1), "strncpy": (1, 2), "memcmp": (1, 2),
}


def run_objsize(prog, ctx=None):
    """OBJSIZE: copy calls do not read more than a source object of known size holds, and a copy with a literal
    zero length and a real source is reported as statically dead (the repo's swapped position/length idiom)"""
    res = Result("OBJSIZE")
    files = set(ctx.get("files", [])) if ctx else None
    for f in funcs_of(prog, files):
        calls = [(b, i, e) for b, i, e in f.elements() if e.get("k") == "call" and callee_name(e) in COPY_APIS]
        if not calls:
            continue
        an = None
        for b, i, e in calls:
            nm = callee_name(e)
            di, li = COPY_APIS[nm]
            args = e.get("args", [])
            if len(args) <= max(di, li):
                continue
            data, ln = args[di], args[li]
            key = "%s:%s" % (f.qn, norm(show(e, f))[:100])
            src = strip(data, all_casts=True)
            # known size of the source object
            size = None
            if src.get("k") == "str":
                size = src.get("len", 0) + 1
            elif src.get("k") == "un" and src.get("op") == "&":
                OT = f.T(src["e"].get("t"))
                if OT.get("sz") and strip(src["e"], lvalue_to_rvalue=False).get("k") in ("ref", "mem"):
                    size = OT["sz"]
            elif src.get("k") in ("ref", "mem") and f.T(src.get("t")).get("k") == "array":
                size = f.T(src.get("t")).get("sz")
            if cval(ln) == 0 and cval(data) != 0:
                res.ob(key + ":dead", False, f, e.get("l", 0),
                       "%s() is given a source (%s) but a constant length of 0: nothing is copied (position and length arguments swapped?)" % (nm, norm(show(data, f))))
                continue
            if size is None:
                res.ob(key, True, f, e.get("l", 0))
                continue
            if an is None:
                an = Analysis(prog, f).run()
            v = an.val(b.id, i, ln)
            ok = v is None or v.lo <= size
            res.ob(key, ok, f, e.get("l", 0),
                   "" if ok else "%s() reads at least %s bytes from %s which holds %d" % (nm, v.lo, norm(show(data, f)), size),
                   {"length": v.tojson() if v else None, "source_size": size})
    return res


def run_lazyinit(prog, ctx=None):
    """LAZYINIT: `if (!X || !(X = init()))` on a static X never initialises it (the assignment only runs when X is already set);
    the working idiom is `if (!X && !(X = init()))`"""
    res = Result("LAZYINIT")
    files = set(ctx.get("files", [])) if ctx else None
    for f in funcs_of(prog, files):
        for bid, b in f.blocks.items():
            if not b.term or b.term.get("cond") is None:
                continue
            c = strip(b.term["cond"], all_casts=True)
            if c.get("k") != "bin" or c.get("op") not in ("||", "&&"):
                continue
            a = strip(c["a"], all_casts=True)
            bb = strip(c["b"], all_casts=True)
            if a.get("k") == "un" and a.get("op") == "!" and bb.get("k") == "un" and bb.get("op") == "!":
                x = strip(a["e"], all_casts=True)
                y = strip(bb["e"], all_casts=True)
                if x.get("k") == "ref" and x["d"].get("dk") in ("slocal", "global") and y.get("k") == "bin" and y.get("op") == "=":
                    l = strip(y["a"], lvalue_to_rvalue=False)
                    if l.get("k") == "ref" and l["d"].get("id") == x["d"].get("id"):
                        ok = c["op"] == "&&"
                        res.ob("%s:%s" % (f.qn, norm(show(c, f))[:80]), ok, f, c.get("l", 0),
                               "" if ok else "static %s starts as 0, `!%s ||` short-circuits before the assignment can run: this test is always true" % (x["d"]["n"], x["d"]["n"]))
    return res


def run_boundstale(prog, ctx=None):
    """BOUNDSTALE: a relational bound test (`a < b`) in a loop condition reads something the loop changes;
    a bound whose both sides are loop invariant never stops the loop it is written to stop"""
    res = Result("BOUNDSTALE")
    files = set(ctx.get("files", [])) if ctx else None
    for f in funcs_of(prog, files):
        loops = natural_loops(f)
        for h, body in sorted(loops.items()):
            modified = set()
            for x in body:
                for e in f.blocks[x].el:
                    for n in walk_own(e):
                        tgt = None
                        if n.get("k") == "bin" and n["op"].endswith("=") and n["op"] not in ("==", "!=", "<=", ">="):
                            tgt = n["a"]
                        elif n.get("k") == "un" and n.get("op") in ("++", "--"):
                            tgt = n["e"]
                        elif n.get("k") == "decl":
                            for v in n["vars"]:
                                modified.add("v%d" % v["id"])
                        elif n.get("k") == "call":
                            for a in n.get("args", []):
                                s = strip(a, all_casts=True)
                                if s.get("k") == "un" and s.get("op") == "&":
                                    modified |= _lv_names(f, s["e"])
                                elif s.get("k") == "ref" and f.T(s.get("t")).get("k") == "ptr":
                                    modified.add("v%d" % s["d"].get("id", -1))
                                    modified.add("*" + s["d"]["n"])
                        if tgt is not None:
                            t = strip(tgt, lvalue_to_rvalue=False)
                            if t.get("k") == "ref" and "id" in t["d"]:
                                modified.add("v%d" % t["d"]["id"])
                            else:
                                modified |= _lv_names(f, t)
                                modified.add("*")
            for x in body:
                blk = f.blocks[x]
                if not (blk.term and blk.term.get("cond") is not None and any(s is not None and s not in body for s in blk.succ)):
                    continue
                if blk.term.get("cls") not in ("WhileStmt", "ForStmt", "DoStmt", "BinaryOperator"):
                    continue
                c = strip(blk.term["cond"], all_casts=True)
                while c.get("k") == "bin" and c.get("op") in ("&&", "||"):
                    c = strip(c["b"], all_casts=True)
                if c.get("k") != "bin" or c.get("op") not in ("<", ">", "<=", ">="):
                    continue
                names = _lv_names(f, c)
                if not names or any(n.get("k") in ("call", "un") and n.get("op", "*") in ("*", "++", "--") for n in walk(c) if n.get("k") in ("call",) or (n.get("k") == "un" and n.get("op") in ("++", "--", "*"))):
                    continue
                if "*" in modified and any("->" in nm or "." in nm for nm in names):
                    continue
                # globals can be changed by any callee (optind / getopt)
                hascall = any(n.get("k") == "call" for x2 in body for e2 in f.blocks[x2].el for n in walk_own(e2))
                if hascall and any(n.get("k") == "ref" and n["d"].get("dk") == "global" for n in walk(c)):
                    continue
                ok = bool(names & modified)
                res.ob("%s:%s" % (f.qn, norm(show(c, f))[:60]), ok, f, c.get("l", 0),
                       "" if ok else "bound test `%s` of this loop reads nothing the loop changes: it cannot end the loop once entered" % norm(show(c, f)))
    return res


RELEASERS = ("free", "mpt_node_destroy")


def run_uaf(prog, ctx=None):
    """UAF: after free(x) / mpt_node_destroy(x) / x->_vptr->unref(x) the pointer x is not used again on any path unless reassigned"""
    res = Result("UAF")
    files = set(ctx.get("files", [])) if ctx else None
    for f in funcs_of(prog, files):
        rel = []
        for b, i, e in f.elements():
            if e.get("k") != "call":
                continue
            nm = callee_name(e)
            args = e.get("args", [])
            x = None
            if nm in RELEASERS and args:
                x = strip(args[0], all_casts=True)
            elif nm is None and e.get("callee") is not None:
                cal = strip(e["callee"], all_casts=True)
                if cal.get("k") == "mem" and cal.get("f") == "unref" and args:
                    x = strip(args[0], all_casts=True)
            if x is not None and x.get("k") == "ref" and "id" in x["d"] and x["d"].get("dk") in ("local", "param"):
                rel.append((b, i, e, x["d"]["id"], x["d"]["n"]))
        if not rel:
            continue
        PK = Analysis.PK

        def hook(an, b, i, el, st, rel=rel):
            dead = set(st.get(PK) or ())
            # reassignment revives
            for n in walk_own(el):
                if n.get("k") == "bin" and n.get("op") == "=":
                    l = strip(n["a"], lvalue_to_rvalue=False)
                    if l.get("k") == "ref":
                        dead = {d for d in dead if d[0] != l["d"].get("id")}
                elif n.get("k") == "decl":
                    for v in n["vars"]:
                        dead = {d for d in dead if d[0] != v["id"]}
            for k, (rb, ri, re_, vid, nm) in enumerate(rel):
                if el is re_:
                    dead.add((vid, k))
            st[PK] = frozenset(dead)

        an = Analysis(prog, f, hook=hook)
        st0 = an.entry_state()
        st0[PK] = frozenset()
        an.run(state=st0)
        bad = {}
        for (bid, idx), parts in an.pre_parts.items():
            el = f.blocks[bid].el[idx]
            for pk, st in parts.items():
                if not pk or pk == "*":
                    continue
                deadv = {d[0]: d[1] for d in pk}
                # the value of a released pointer may still be compared (slot lookups); only accesses and hand-offs count
                cmp_only = set()
                for n in walk_own(el):
                    if (n.get("k") == "bin" and n.get("op") in ("==", "!=")) or (n.get("k") == "un" and n.get("op") == "!"):
                        for side in ("a", "b", "e"):
                            if side in n:
                                x = strip(n[side], all_casts=True)
                                if x.get("k") == "ref":
                                    cmp_only.add(id(x))
                for n in walk_own(el):
                    if n.get("k") == "ref" and n["d"].get("id") in deadv and id(n) not in cmp_only:
                        bad.setdefault(deadv[n["d"]["id"]], []).append((el, n))
        # drop pure reassignments  x = ...
        for k, (rb, ri, re_, vid, nm) in enumerate(rel):
            uses = []
            for el, n in bad.get(k, []):
                if el.get("k") == "bin" and el.get("op") == "=" and strip(el["a"], lvalue_to_rvalue=False) is n:
                    continue
                tgt_only = False
                for m in walk_own(el):
                    if m.get("k") == "bin" and m.get("op") == "=" and strip(m["a"], lvalue_to_rvalue=False) is n:
                        tgt_only = True
                if not tgt_only:
                    uses.append((el, n))
            key = "%s:%s" % (f.qn, norm(show(re_, f))[:70])
            ok = not uses
            res.ob(key, ok, f, re_.get("l", 0),
                   "" if ok else "%s is used at line %s (%s) after it was released here" % (nm, uses[0][0].get("l"), norm(show(uses[0][0], f))[:60]))
    return res


def run_allocpolarity(prog, ctx=None):
    """ALLOCPOLARITY: for x = g(...) with g an in-repo function that returns NULL on failure: it is not the case that every
    return reached while x is known non-null is a failure of the caller while a success is reachable with x known null"""
    res = Result("ALLOCPOLARITY")
    files = set(ctx.get("files", [])) if ctx else None
    for f in funcs_of(prog, files):
        RT = f.T(f.ret)
        if RT.get("k") not in ("ptr", "int"):
            continue
        cands = {}
        for b, i, n in f.walk_all():
            if n.get("k") == "bin" and n.get("op") == "=":
                r = strip(n["b"], all_casts=True)
                l = strip(n["a"], lvalue_to_rvalue=False)
                if r.get("k") == "call" and r.get("fn", {}).get("inroot") and f.T(r.get("t")).get("k") == "ptr":
                    cs = prog.resolve_call(f, r)
                    if not cs:
                        continue
                    # null-on-failure callee: has a `return 0`
                    g = cs[0]
                    if g.nocfg or not any(e.get("k") == "ret" and e.get("e") is not None and cval(e["e"]) == 0 for bb, ii, e in g.elements()):
                        continue
                    tgt = None
                    if l.get("k") == "ref" and "id" in l["d"]:
                        tgt = ("v", l["d"]["id"], l["d"]["n"])
                    elif l.get("k") == "mem":
                        tgt = ("m", norm(show(l, f)), norm(show(l, f)))
                    if tgt:
                        cands.setdefault(tgt, []).append((n, g))
        # results tested directly:  if (src && mpt_identifier_copy(c, src)) return error;
        for bid, blk in f.blocks.items():
            if not blk.term or blk.term.get("cond") is None:
                continue
            c = strip(blk.term["cond"], all_casts=True)
            while c.get("k") == "bin" and c.get("op") in ("&&", "||"):
                c = strip(c["b"], all_casts=True)
            while c.get("k") == "un" and c.get("op") == "!":
                c = strip(c["e"], all_casts=True)
            if c.get("k") == "call" and c.get("fn", {}).get("inroot") and f.T(c.get("t")).get("k") == "ptr":
                cs = prog.resolve_call(f, c)
                if cs and not cs[0].nocfg and any(e.get("k") == "ret" and e.get("e") is not None and cval(e["e"]) == 0 for bb, ii, e in cs[0].elements()):
                    cands.setdefault(("m", "call@%s:%s" % (c.get("l"), norm(show(c, f))), ""), []).append((c, cs[0]))
        for tgt, sites in cands.items():
            if tgt[0] != "v":
                # member targets (cpy->children = clone()): evaluate through a synthetic key on the assignment expression value
                pass
            PK = Analysis.PK
            site_nodes = [s[0] for s in sites]

            def classify(an, st):
                if tgt[0] == "v":
                    v = st.get(("v", tgt[1]))
                else:
                    v = st.get(("x", tgt[1]))
                st[PK] = "?" if v is None else ("N" if (v.lo == 0 and v.hi == 0) else ("P" if v.lo > 0 else "?"))

            def hook(an, b, i, el, st):
                if tgt[0] == "m":
                    for n in walk_own(el):
                        if any(n is s for s in site_nodes):
                            st[("x", tgt[1])] = AV(0, (1 << 64) - 1)
                        elif n.get("k") == "bin" and n.get("op") == "=" and norm(show(strip(n["a"], lvalue_to_rvalue=False), f)) == tgt[1]:
                            st.pop(("x", tgt[1]), None)
                classify(an, st)

            def edge_hook(an, b, cond, truth, st):
                if tgt[0] == "m":
                    c = strip(cond, all_casts=True)
                    neg = False
                    while c.get("k") == "un" and c.get("op") == "!":
                        neg = not neg
                        c = strip(c["e"], all_casts=True)
                    if any((c.get("l") == s.get("l") and show(c, f) == show(s, f)) for s in site_nodes) or (c.get("k") == "mem" and norm(show(c, f)) == tgt[1]):
                        nonnull = truth != neg
                        st[("x", tgt[1])] = AV(1, (1 << 64) - 1) if nonnull else AV(0, 0)
                classify(an, st)

            an = Analysis(prog, f, hook=hook, edge_hook=edge_hook)
            st0 = an.entry_state()
            st0[PK] = "?"
            an.run(state=st0)
            cls = {"P": set(), "N": set()}
            from .rules_effect import return_cases
            for el, vexpr, pos, parts in return_cases(an, f):
                for pk, st in parts:
                    if pk not in cls:
                        continue
                    rv = an.ev(vexpr, dict(st), True, f.blocks[pos[0]].el[pos[1]])
                    if RT.get("k") == "ptr":
                        kind = "fail" if (rv.lo == 0 and rv.hi == 0) else "ok"
                    else:
                        kind = "fail" if rv.hi < 0 else "ok"
                    cls[pk].add(kind)
            for n, g in sites:
                key = "%s:%s" % (f.qn, norm(show(n, f))[:80])
                bad = cls["P"] == {"fail"} and "ok" in cls["N"]
                res.ob(key, not bad, f, n.get("l", 0),
                       "" if not bad else "when %s() succeeds every return of %s is a failure, when it fails %s can still succeed: the test of its result is inverted" % (g.qn, f.qn, f.qn),
                       {"returns_when_nonnull": sorted(cls["P"]), "returns_when_null": sorted(cls["N"])})
    return res


def run_usednotsize(prog, ctx=None):
    """USEDNOTSIZE: element counts of a typed buffer come from its used length, never from its capacity (_size)"""
    res = Result("USEDNOTSIZE")
    files = set(ctx.get("files", [])) if ctx else None
    for f in funcs_of(prog, files):
        for b, i, e in f.elements():
            for n in walk_own(e):
                if n.get("k") == "bin" and n.get("op") in ("/", "%") and cval(n["b"]) is not None:
                    a = strip(n["a"], all_casts=True)
                    if a.get("k") == "mem" and a.get("rec", "").split("::")[-1] in ("mpt_buffer", "buffer") and a.get("f") in ("_size", "_used"):
                        ok = a["f"] == "_used"
                        res.ob("%s:%s" % (f.qn, norm(show(n, f))[:60]), ok, f, n.get("l", 0),
                               "" if ok else "element count taken from the buffer capacity (_size): slots beyond _used were never constructed")
    return res


def run_bufmix(prog, ctx=None):
    """BUFMIX: a buffer-level mutator is not given a length read from another buffer's _used field"""
    res = Result("BUFMIX")
    files = set(ctx.get("files", [])) if ctx else None
    for f in funcs_of(prog, files):
        for b, i, e in f.elements():
            if e.get("k") == "call" and callee_name(e) in ("mpt_buffer_cut", "mpt_buffer_insert", "mpt_buffer_set") and e.get("args"):
                tgt = norm(show(strip(e["args"][0], all_casts=True), f))
                others = set()
                for a in e["args"][1:]:
                    for n in walk(a):
                        if n.get("k") == "mem" and n.get("f") == "_used" and n.get("rec", "").split("::")[-1] in ("mpt_buffer", "buffer"):
                            others.add(norm(show(n["b"], f)))
                if not others:
                    continue
                # copying *from* another buffer legitimately uses that buffer's used length
                if callee_name(e) == "mpt_buffer_set" and len(e["args"]) > 3:
                    from .rules_effect import root_of
                    dn = strip(e["args"][3], all_casts=True)
                    for n in walk(e["args"][3]):
                        if n.get("k") == "ref":
                            others.discard(n["d"]["n"])
                ok = others <= {tgt}
                res.ob("%s:%s" % (f.qn, norm(show(e, f))[:70]), ok, f, e.get("l", 0),
                       "" if ok else "%s() works on %s but its length is the used size of %s" % (callee_name(e), tgt, ", ".join(sorted(others - {tgt}))))
    return res


def run_ctypearg(prog, ctx=None):
    """CTYPEARG: the index of glibc's <ctype.h> classification table lies in [-128, 255] (its defined domain incl. EOF and signed chars)"""
    from .ival import ctype_test
    res = Result("CTYPEARG")
    files = set(ctx.get("files", [])) if ctx else None
    sm = Summaries(prog)
    for f in funcs_of(prog, files):
        sites = []
        for b, i, e in f.elements():
            for n in walk_own(e):
                ct = ctype_test(n)
                if ct is not None:
                    sites.append((b, i, n, ct[0]))
                elif n.get("k") == "idx":
                    base = strip(n["a"], all_casts=True)
                    if base.get("k") == "un" and base.get("op") == "*" and strip(base["e"], all_casts=True).get("k") == "call" \
                            and callee_name(strip(base["e"], all_casts=True)) in ("__ctype_tolower_loc", "__ctype_toupper_loc"):
                        sites.append((b, i, n, n["i"]))
        if not sites:
            continue
        an = Analysis(prog, f, summaries=sm).run()
        for b, i, n, arg in sites:
            v = an.val(b.id, i, arg)
            if v is None:
                continue
            ok = v.within(-128, 255)
            res.ob("%s:%s" % (f.qn, norm(show(arg, f))[:50]), ok, f, n.get("l", 0),
                   "" if ok else "<ctype.h> table indexed with %s (domain [-128,255])" % v, {"interval": v.tojson()})
    return res


def run_getcwho(prog, ctx=None):
    """GETCWHO: the parser input callback is invoked only by the three character readers (one getc per consumed character, no re-read path)"""
    res = Result("GETCWHO")
    allowed = {"mpt_parse_getchar": "reads one character and records it in the path buffer",
               "mpt_parse_nextvis": "skips white space one character at a time",
               "mpt_parse_endline": "discards the rest of a comment line one character at a time"}
    n = 0
    for f in sorted(prog.functions.values(), key=lambda f: (f.file, f.line)):
        if f.nocfg:
            continue
        for b, i, e in f.elements():
            if e.get("k") == "call" and e.get("callee") is not None:
                c = strip(e["callee"], all_casts=True)
                if c.get("k") == "mem" and c.get("f") == "getc" and c.get("rec", "").split("::")[-1] in ("mpt_parser_input", "parser_input"):
                    n += 1
                    ok = f.name in allowed
                    res.ob("%s:%s" % (f.qn, norm(show(e, f))), ok, f, e.get("l", 0),
                           "" if ok else "parser input read outside the three character readers: a character can be consumed without being accounted for")
        # nobody puts characters back: no store to the input state other than the line counter
        for b, i, e in f.elements():
            for m in walk_own(e):
                if m.get("k") == "bin" and m["op"].endswith("=") and m["op"] not in ("==", "!=", "<=", ">="):
                    l = strip(m["a"], lvalue_to_rvalue=False)
                    if l.get("k") == "mem" and l.get("rec", "").split("::")[-1] in ("mpt_parser_input", "parser_input") and l.get("f") in ("getc", "arg"):
                        from .rules_effect import root_of
                        rid = root_of(l)
                        # setting up a fresh local context is initialisation; changing the caller's context is a replaced source
                        ok = not any(p["id"] == rid for p in f.params)
                        res.ob("%s:%s" % (f.qn, norm(show(m, f))[:60]), ok, f, m.get("l", 0),
                               "" if ok else "a parser stage replaces the input source while parsing")
    if n < 3:
        raise Broken("GETCWHO: %d getc call sites found" % n)
    return res


def run_splitcopy(prog, ctx=None):
    """SPLITCOPY: when one destination is filled by two consecutive copies  copy(dst, A, n1); copy(dst + k, B, n2)
    the second starts where the first ended (k is n1)"""
    res = Result("SPLITCOPY")
    files = set(ctx.get("files", [])) if ctx else None
    for f in funcs_of(prog, files):
        for bid, b in f.blocks.items():
            copies = []
            for i, e in enumerate(b.el):
                if e.get("k") == "call" and callee_name(e) in ("memcpy", "memmove") and len(e.get("args", [])) == 3:
                    copies.append((i, e))
            # also a copy whose result is assigned:  addr = memcpy(data, addr, low)
            for (i1, c1), (i2, c2) in zip(copies, copies[1:]):
                d1 = strip(c1["args"][0], all_casts=True)
                d2 = strip(c2["args"][0], all_casts=True)
                if d2.get("k") != "bin" or d2.get("op") != "+":
                    continue
                base2 = strip(d2["a"], all_casts=True)
                t1 = norm(show(d1, f))
                tb = norm(show(base2, f))
                # the base of the second copy is the first destination, or the variable the first copy's result was assigned to
                same = tb == t1
                if not same:
                    for e in b.el[i1 + 1:i2]:
                        if e.get("k") == "bin" and e.get("op") == "=" and any(m.get("sid") == c1.get("sid") for m in walk(e["b"])):
                            if norm(show(strip(e["a"], lvalue_to_rvalue=False), f)) == tb:
                                same = True
                if not same:
                    continue
                k = norm(show(strip(d2["b"], all_casts=True), f))
                n1 = norm(show(strip(c1["args"][2], all_casts=True), f))
                ok = k == n1
                res.ob("%s:%s | %s" % (f.qn, norm(show(c1, f))[:50], norm(show(c2, f))[:50]), ok, f, c2.get("l", 0),
                       "" if ok else "first copy writes %s bytes, the second continues at offset %s: the pieces overlap or leave a gap" % (n1, k))
    return res


def run_resumesave(prog, ctx=None):
    """RESUMESAVE (sibling agreement of exits): when at least three exits of one function save the same set of state fields
    (stores to members of one object right before the return), an exit that saves most but not all of that set is reported —
    the resumable coders keep (context, position, length) in step on every 'need more input / more space' exit"""
    res = Result("RESUMESAVE")
    files = set(ctx.get("files", [])) if ctx else None
    for f in funcs_of(prog, files):
        exits = []
        for bid, b in f.blocks.items():
            rets = [i for i, e in enumerate(b.el) if e.get("k") == "ret"]
            if not rets:
                continue
            fields = []
            for e in b.el[:rets[0]]:
                for n in walk_own(e):
                    if n.get("k") == "bin" and n["op"].endswith("=") and n["op"] not in ("==", "!=", "<=", ">="):
                        l = strip(n["a"], lvalue_to_rvalue=False)
                        if l.get("k") == "mem":
                            fields.append(norm(show(l, f)))
                # a file-local helper that saves the fields of an object it is handed counts as those stores
                if e.get("k") == "call" and e.get("fn"):
                    for g in prog.resolve_call(f, e):
                        if g.nocfg or not g.static:
                            continue
                        pids = {p["id"]: k for k, p in enumerate(g.params)}
                        for b2, i2, m in g.walk_all():
                            if m.get("k") == "bin" and m["op"].endswith("=") and m["op"] not in ("==", "!=", "<=", ">="):
                                l2 = strip(m["a"], lvalue_to_rvalue=False)
                                if l2.get("k") == "mem":
                                    # innermost base of the member path
                                    base, path = l2, []
                                    while base.get("k") == "mem":
                                        path.append(("->" if base.get("arrow") else ".") + base["f"])
                                        base = strip(base["b"], all_casts=True)
                                    if base.get("k") == "ref" and base["d"].get("id") in pids and pids[base["d"]["id"]] < len(e.get("args", [])):
                                        at = norm(show(strip(e["args"][pids[base["d"]["id"]]], all_casts=True), f))
                                        fields.append(at + "".join(reversed(path)))
            if fields:
                exits.append((bid, frozenset(fields), b.el[rets[0]]))
        if len(exits) < 4:
            continue
        from collections import Counter
        cnt = Counter(s for _, s, _ in exits)
        major = [s for s, c in cnt.items() if c >= 3 and len(s) >= 2]
        if not major:
            continue
        for S in major:
            for bid, s, ret in exits:
                if s == S:
                    continue
                if s < S and len(s) >= len(S) - 1 and len(s) >= 1 and len(S) >= 3:
                    res.ob("%s:exit@%s saves %s" % (f.qn, norm(show(ret, f))[:30], "+".join(sorted(s))), False, f, ret.get("l", 0),
                           "%d exits of this function save {%s}; this one leaves out %s: the resumed call continues from inconsistent state" % (
                               cnt[S], ", ".join(sorted(S)), ", ".join(sorted(S - s))))
            res.ob("%s:%d exits save {%s}" % (f.qn, cnt[S], ", ".join(sorted(S))), True, f, f.line)
    return res


def run_lazyorder(prog, ctx=None):
    """LAZYORDER: a function that lazily initialises a static table (`if (!table) init();`) scans that table (a loop reading
    any global the init function writes) only after the lazy-init test — a scan placed before it sees the empty table once"""
    from .ival import global_effects
    res = Result("LAZYORDER")
    files = set(ctx.get("files", [])) if ctx else None
    ge = global_effects(prog)
    for f in funcs_of(prog, files):
        guards = []
        for bid, b in f.blocks.items():
            if not b.term or b.term.get("cond") is None or b.term.get("cls") != "IfStmt" or len(b.succ) != 2:
                continue
            c = strip(b.term["cond"], all_casts=True)
            if c.get("k") == "un" and c.get("op") == "!":
                g = strip(c["e"], all_casts=True)
                if g.get("k") == "bin" and g.get("op") == "=":
                    g = strip(g["a"], lvalue_to_rvalue=False)
                if g.get("k") == "ref" and g["d"].get("dk") == "global" and b.succ[0] is not None:
                    # the true branch calls an in-repo function that writes this global
                    for e in f.blocks[b.succ[0]].el:
                        if e.get("k") == "call" and e.get("fn", {}).get("inroot"):
                            for cal in prog.resolve_call(f, e):
                                w = ge.get(cal.key(), {})
                                if (f.file, g["d"]["n"]) in w:
                                    guards.append((bid, cal, {k[1] for k in w if k[0] == f.file}))
        if not guards:
            continue
        dom = f.dominators()
        loops = natural_loops(f)
        seen_scan = set()
        for gb, init, written in guards:
            for h, body in sorted(loops.items()):
                if (h, init.name) in seen_scan:
                    continue
                seen_scan.add((h, init.name))
                reads = set()
                for x in body:
                    blk = f.blocks[x]
                    els = list(blk.el) + ([blk.term["cond"]] if blk.term and blk.term.get("cond") is not None else [])
                    for e in els:
                        for n in walk(e):
                            if n.get("k") == "ref" and n["d"].get("dk") == "global" and n["d"]["n"] in written:
                                reads.add(n["d"]["n"])
                if not reads:
                    continue
                ok = any(g2 in dom[h] for g2, i2, w2 in guards if i2.name == init.name)      # some lazy-init test of this table dominates the scan
                line = f.blocks[h].term.get("l", 0) if f.blocks[h].term else f.line
                res.ob("%s:scan of %s after lazy %s()" % (f.qn, "+".join(sorted(reads)), init.name), ok, f, line,
                       "" if ok else "this loop reads %s, which %s() fills, but the lazy-initialisation test comes later: the first call scans an empty table" % (
                           ", ".join(sorted(reads)), init.name))
    return res


def run_validreset(prog, ctx=None):
    """VALIDRESET: every call of mpt_parse_data(fmt, parse, path) is made with parse->valid known to be 0 (interval fact on the
    member path): the data stage measures the value from there; a stale name length makes it report bytes that were never read"""
    res = Result("VALIDRESET")
    n = 0
    for f in sorted(prog.functions.values(), key=lambda f: (f.file, f.line)):
        if f.nocfg:
            continue
        calls = [(b, i, e) for b, i, e in f.elements() if e.get("k") == "call" and callee_name(e) == "mpt_parse_data" and len(e.get("args", [])) >= 2]
        if not calls:
            continue
        an = Analysis(prog, f).run()
        for b, i, e in calls:
            n += 1
            ctxarg = strip(e["args"][1], all_casts=True)
            # build the member expression parse->valid from an existing node of this function
            mem = None
            for bb, ii, m in f.walk_all():
                if m.get("k") == "mem" and m.get("f") == "valid" and norm(show(m["b"], f)) == norm(show(ctxarg, f)):
                    mem = m
                    break
            v = an.val(b.id, i, mem) if mem is not None else None
            ok = v is not None and v.lo == 0 and v.hi == 0
            res.ob("%s:%s" % (f.qn, norm(show(e, f))), ok, f, e.get("l", 0),
                   "" if ok else "mpt_parse_data() is entered with %s->valid = %s (not reset to 0 on this path)" % (norm(show(ctxarg, f)), v))
    if n < 3:
        raise Broken("VALIDRESET: %d calls of mpt_parse_data found" % n)
    return res


def run_steppair(prog, ctx=None):
    """STEPPAIR: inside a loop a data pointer and the remaining length move by the same amount: a pointer advanced by a
    non-constant step Y has a counter decreased (or a sibling pointer/total moved) by the same Y; advancing by a step that
    no counter follows, while counters move by another step, desynchronises cursor and length"""
    res = Result("STEPPAIR")
    files = set(ctx.get("files", [])) if ctx else None
    for f in funcs_of(prog, files):
        loops = natural_loops(f)
        for h, body in sorted(loops.items()):
            adv = []     # (node, pointer name, step text)
            dec = set()  # step texts by which integers are decreased
            inc = set()
            for x in body:
                for e in f.blocks[x].el:
                    for n in walk_own(e):
                        if n.get("k") != "bin":
                            continue
                        l = strip(n["a"], lvalue_to_rvalue=False)
                        if l.get("k") != "ref" or "id" not in l["d"]:
                            continue
                        LT = f.T(l.get("t"))
                        step = None
                        if n["op"] in ("+=", "-="):
                            step = n["b"]
                            kind = n["op"]
                        elif n["op"] == "=":
                            r = strip(n["b"], all_casts=True)
                            if r.get("k") == "bin" and r.get("op") in ("+", "-"):
                                ra = strip(r["a"], all_casts=True)
                                if ra.get("k") == "ref" and ra["d"].get("id") == l["d"]["id"]:
                                    step = r["b"]
                                    kind = r["op"] + "="
                        if step is None or cval(step) is not None:
                            continue
                        st = norm(show(strip(step, all_casts=True), f))
                        if LT.get("k") == "ptr" and kind == "+=":
                            PT = f.T(LT.get("to"))
                            bytep = PT.get("k") == "void" or PT.get("sz") == 1
                            if not bytep and n["op"] == "=":
                                # data = ((uint8_t *) data) + step  on a void pointer
                                rr = strip(n["b"], all_casts=True)
                                bytep = f.T(f.pointee(strip(rr["a"], lvalue_to_rvalue=True).get("t")) if f.pointee(strip(rr["a"], lvalue_to_rvalue=True).get("t")) is not None else -1).get("sz") == 1
                            if bytep:
                                adv.append((n, l["d"]["n"], st))
                        elif LT.get("k") == "int":
                            (dec if kind == "-=" else inc).add(st)
            for n, nm, st in adv:
                if not dec:
                    continue
                ok = st in dec or any(d in st for d in dec)      # same step, or a multiple of the counted step (count * element size)
                res.ob("%s:%s += %s" % (f.qn, nm, st), ok, f, n.get("l", 0),
                       "" if ok else "%s advances by %s but the remaining length in this loop decreases by %s: cursor and length drift apart" % (nm, st, ", ".join(sorted(dec))))
    return res


def run_reservecap(prog, ctx=None):
    """RESERVECAP: after buf = mpt_array_reserve(&a, N, ..) a write mpt_buffer_set(buf, .., P, data, L) must fit the reserved
    size; reported when it definitely does not: P is the reserved size itself and L >= 1 (the write relies on allocation slack)"""
    res = Result("RESERVECAP")
    files = set(ctx.get("files", [])) if ctx else None
    for f in funcs_of(prog, files):
        reserves = {}
        for b, i, n in f.walk_all():
            if n.get("k") == "bin" and n.get("op") == "=":
                r = strip(n["b"], all_casts=True)
                l = strip(n["a"], lvalue_to_rvalue=False)
                if r.get("k") == "call" and callee_name(r) == "mpt_array_reserve" and len(r.get("args", [])) >= 2 and l.get("k") == "ref":
                    reserves[l["d"]["id"]] = (r, norm(show(strip(r["args"][1], all_casts=True), f)))
        if not reserves:
            continue
        for b, i, e in f.elements():
            if e.get("k") == "call" and callee_name(e) == "mpt_buffer_set" and len(e.get("args", [])) == 5:
                x = strip(e["args"][0], all_casts=True)
                if x.get("k") != "ref" or x["d"].get("id") not in reserves:
                    continue
                rcall, N = reserves[x["d"]["id"]]
                P = norm(show(strip(e["args"][2], all_casts=True), f))
                L = cval(e["args"][4])
                bad = L is not None and L >= 1 and P == N
                res.ob("%s:%s" % (f.qn, norm(show(e, f))[:70]), not bad, f, e.get("l", 0),
                       "" if not bad else "writes %d byte(s) at offset %s of a buffer reserved for exactly %s bytes: succeeds only while the allocator rounds the size up" % (L, P, N))
    return res


def run_undoset(prog, ctx=None):
    """UNDOSET: a block inside a loop that takes back the step just made (three or more unit updates that are the inverse of
    unit updates on the way from the loop head) takes back *all* of them: a counter left out stays advanced"""
    res = Result("UNDOSET")
    files = set(ctx.get("files", [])) if ctx else None

    def unit_updates(blk, f):
        out = {}
        for e in blk.el:
            for n in walk_own(e):
                v = d = None
                if n.get("k") == "un" and n.get("op") in ("++", "--"):
                    t = strip(n["e"], lvalue_to_rvalue=False)
                    if t.get("k") == "ref" and "id" in t["d"]:
                        v, d = t["d"], (1 if n["op"] == "++" else -1)
                elif n.get("k") == "bin" and n.get("op") in ("+=", "-=") and cval(n["b"]) == 1:
                    t = strip(n["a"], lvalue_to_rvalue=False)
                    if t.get("k") == "ref" and "id" in t["d"]:
                        v, d = t["d"], (1 if n["op"] == "+=" else -1)
                if v is not None:
                    out[v["id"]] = (d, v["n"], n.get("l", 0))
        return out

    for f in funcs_of(prog, files):
        loops = natural_loops(f)
        if not loops:
            continue
        dom = f.dominators()
        for h, body in sorted(loops.items()):
            # blocks of the loop and the blocks that leave it (an undo typically ends in `break`)
            cands = set(body) | {bid for bid, b in f.blocks.items() if any(pp in body for pp in b.preds) and h in dom[bid]}
            for x in sorted(cands):
                U = unit_updates(f.blocks[x], f)
                if len(U) < 3:
                    continue
                D = {}
                for y in dom[x]:
                    if y in body and y != x:
                        for k, v in unit_updates(f.blocks[y], f).items():
                            D[k] = v
                    # updates made in the conditions of dominating blocks
                    if y in body and y != x and f.blocks[y].term and f.blocks[y].term.get("cond") is not None:
                        fake = type("B", (), {"el": [f.blocks[y].term["cond"]]})
                        for k, v in unit_updates(fake, f).items():
                            D.setdefault(k, v)
                inverse = [k for k, (d, nm, ln) in U.items() if k in D and D[k][0] == -d]
                if len(inverse) < 3:
                    continue
                missing = [D[k][1] for k in D if k not in U]
                ok = not missing
                line = min(ln for d, nm, ln in U.values())
                res.ob("%s:undo of %s" % (f.qn, "+".join(sorted(U[k][1] for k in inverse))), ok, f, line,
                       "" if ok else "this block takes back %s but not %s, which the same step also changed" % (
                           ", ".join(sorted(U[k][1] for k in inverse)), ", ".join(sorted(missing))))
    return res


def run_arraybound(prog, ctx=None):
    """ARRAYBOUND: a loop that indexes an iovec array parameter A[i] is bounded by A's own element count (the integer
    parameter that follows A), not by the count of a sibling array"""
    res = Result("ARRAYBOUND")
    files = set(ctx.get("files", [])) if ctx else None
    for f in funcs_of(prog, files):
        comp = {}
        for k, p in enumerate(f.params):
            if _is_iovec_ptr(f, p["t"]) and k + 1 < len(f.params) and f.T(f.params[k + 1]["t"]).get("k") == "int":
                comp[p["id"]] = (p["n"], f.params[k + 1]["id"], f.params[k + 1]["n"])
        if len(comp) < 1:
            continue
        counts = {c[1] for c in comp.values()}
        loops = natural_loops(f)
        for h, body in sorted(loops.items()):
            idxs = []
            for x in body:
                for e in f.blocks[x].el:
                    for n in walk_own(e):
                        if n.get("k") == "idx":
                            a = strip(n["a"], all_casts=True)
                            ix = strip(n["i"], all_casts=True)
                            if a.get("k") == "ref" and a["d"].get("id") in comp and ix.get("k") == "ref" and "id" in ix["d"]:
                                idxs.append((n, a["d"]["id"], ix["d"]["id"]))
            for n, aid, iid in idxs:
                bound = None
                for x in body:
                    blk = f.blocks[x]
                    if blk.term and blk.term.get("cond") is not None and any(s is not None and s not in body for s in blk.succ):
                        c = strip(blk.term["cond"], all_casts=True)
                        if c.get("k") == "bin" and c.get("op") in ("<", "<="):
                            l, r = strip(c["a"], all_casts=True), strip(c["b"], all_casts=True)
                            if l.get("k") == "ref" and l["d"].get("id") == iid and r.get("k") == "ref" and r["d"].get("id") in counts:
                                bound = r["d"]
                if bound is None:
                    continue
                ok = bound["id"] == comp[aid][1]
                res.ob("%s:%s" % (f.qn, norm(show(n, f))), ok, f, n.get("l", 0),
                       "" if ok else "%s[] holds %s elements but the loop runs to %s" % (comp[aid][0], comp[aid][2], bound["n"]))
    return res


def run_cursorsync(prog, ctx=None):
    """CURSORSYNC: after a call that advances a message cursor X (mpt_message_read(&X, n, ..), n not 0) a local that was loaded
    from X.base / X.used / X.cont is reloaded from X, not stepped by hand (++v, v += k): the hand-stepped copy is wrong as soon as
    the read crossed into the next fragment.  Checked on the straight-line code that follows each such call (up to the next
    reload of that local or the next loop head)."""
    res = Result("CURSORSYNC")
    files = set(ctx.get("files", [])) if ctx else None
    FIELDS = ("base", "used", "cont", "clen")
    for f in funcs_of(prog, files):
        track = {}       # var id -> (struct var id, name)
        for b, i, n in f.walk_all():
            if n.get("k") == "bin" and n.get("op") == "=":
                l = strip(n["a"], lvalue_to_rvalue=False)
                r = strip(n["b"], all_casts=True)
                if l.get("k") == "ref" and "id" in l["d"] and r.get("k") == "mem" and not r.get("arrow") and r.get("f") in FIELDS:
                    xb = strip(r["b"], lvalue_to_rvalue=False)
                    if xb.get("k") == "ref" and "id" in xb["d"] and xb["d"].get("dk") == "local":
                        track[l["d"]["id"]] = (xb["d"]["id"], l["d"]["n"])
        if not track:
            continue
        loops = natural_loops(f)
        heads = set(loops)
        for b, i, e in f.elements():
            if not (e.get("k") == "call" and callee_name(e) == "mpt_message_read" and e.get("args")):
                continue
            a0 = strip(e["args"][0], all_casts=True)
            if not (a0.get("k") == "un" and a0.get("op") == "&"):
                continue
            xb = strip(a0["e"], lvalue_to_rvalue=False)
            if not (xb.get("k") == "ref" and "id" in xb["d"]):
                continue
            if len(e["args"]) > 1 and cval(e["args"][1]) == 0:
                continue
            xid = xb["d"]["id"]
            vars_ = {v for v, (x, nm) in track.items() if x == xid}
            if not vars_:
                continue
            bad = None
            # walk forward: rest of this block, then successors (not through loop heads), until every var was reloaded
            work = [(b.id, i + 1, frozenset(vars_), 0)]
            seen = set()
            while work and bad is None:
                bid, start, live, depth = work.pop()
                if (bid, live) in seen or depth > 4:
                    continue
                seen.add((bid, live))
                live = set(live)
                blk = f.blocks[bid]
                for el in blk.el[start:]:
                    if el.get("k") == "call" and callee_name(el) == "mpt_message_read":
                        live = set()
                        break
                    for n in walk_own(el):
                        if n.get("k") == "un" and n.get("op") in ("++", "--"):
                            t = strip(n["e"], lvalue_to_rvalue=False)
                            if t.get("k") == "ref" and t["d"].get("id") in live:
                                bad = (t["d"]["n"], el)
                        elif n.get("k") == "bin" and n.get("op") in ("+=", "-="):
                            t = strip(n["a"], lvalue_to_rvalue=False)
                            if t.get("k") == "ref" and t["d"].get("id") in live:
                                bad = (t["d"]["n"], el)
                        elif n.get("k") == "bin" and n.get("op") == "=":
                            t = strip(n["a"], lvalue_to_rvalue=False)
                            if t.get("k") == "ref" and t["d"].get("id") in live:
                                live.discard(t["d"]["id"])
                    if bad:
                        break
                if bad or not live:
                    continue
                for sx in blk.succ:
                    if sx is not None and sx not in heads:
                        work.append((sx, 0, frozenset(live), depth + 1))
            res.ob("%s:after %s" % (f.qn, norm(show(e, f))[:50]), bad is None, f, (bad[1].get("l") if bad else e.get("l")) or f.line,
                   "" if bad is None else "`%s` was loaded from the cursor before this call advanced it and is stepped by hand in `%s` instead of being reloaded" % (bad[0], norm(show(bad[1], f))[:60]))
    return res


def run_fragall(prog, ctx=None):
    """FRAGALL: a function that walks the fragments of a message parameter (it reads M->clen) does not report success from
    "the head fragment is empty" alone: from the zero edge of a test of M->used no return of a non-negative value is reachable
    without a read of M->clen.  Data may sit behind an empty first fragment."""
    res = Result("FRAGALL")
    files = set(ctx.get("files", [])) if ctx else None
    for f in funcs_of(prog, files):
        mparams = {}
        for p in f.params:
            T = f.T(p["t"])
            to = f.T(T.get("to")) if T.get("k") == "ptr" else {}
            if to.get("k") == "record" and to.get("name", "").split("::")[-1] in ("mpt_message", "message"):
                mparams[p["id"]] = p["n"]
        if not mparams:
            continue

        def is_field(n, fld):
            n = strip(n, all_casts=True)
            if n.get("k") == "bin" and n.get("op") == "=":
                n = strip(n["b"], all_casts=True)
            if n.get("k") == "mem" and n.get("arrow") and n.get("f") == fld:
                x = strip(n["b"], all_casts=True)
                return x.get("k") == "ref" and x["d"].get("id") in mparams
            return False
        readers = set()
        for b, i, n in f.walk_all():
            if n.get("k") == "mem" and is_field(n, "clen"):
                readers.add(b.id)
        if not readers:
            continue
        succ_rets = []
        for b, i, e in f.elements():
            if e.get("k") == "ret" and e.get("e") is not None:
                v = cval(e["e"])
                if v is not None and v < 0:
                    continue
                if f.T(f.ret).get("k") == "ptr" and v == 0:
                    continue
                succ_rets.append((b, e))
        # zero edges of tests of M->used
        for bid, blk in f.blocks.items():
            if not (blk.term and blk.term.get("cond") is not None and len(blk.succ) == 2):
                continue
            c = blk.term["cond"]
            cs = strip(c, all_casts=True)
            if blk.term.get("cls") != "BinaryOperator":
                while cs.get("k") == "bin" and cs.get("op") in ("&&", "||"):
                    cs = strip(cs["b"], all_casts=True)
            neg = False
            while cs.get("k") == "un" and cs.get("op") == "!":
                neg = not neg
                cs = strip(cs["e"], all_casts=True)
            zero_edge = None
            if is_field(cs, "used"):
                zero_edge = 0 if neg else 1
            elif cs.get("k") == "bin" and cs.get("op") in ("==", "!=") and cval(cs["b"]) == 0 and is_field(cs["a"], "used"):
                z = 0 if cs["op"] == "==" else 1
                zero_edge = z if not neg else 1 - z
            if zero_edge is None or blk.succ[zero_edge] is None:
                continue
            z = blk.succ[zero_edge]
            reach = f.reachable_from(z, avoid=readers) if z not in readers else set()
            bad = [e for rb, e in succ_rets if rb.id in reach]
            res.ob("%s:empty head at %s" % (f.qn, norm(show(c, f))[:40]), not bad, f, c.get("l", f.line),
                   "" if not bad else "when the head fragment is empty `%s` is reached without a look at %s->clen: data behind an empty first fragment is ignored" % (
                       norm(show(bad[0], f))[:40], list(mparams.values())[0]))
    return res


def run_cursorpair(prog, ctx=None):
    """CURSORPAIR: a cursor kept as the pair (X.base, X.used) of a local message moves in both members: when X.used is reduced
    in a block that does not also move X.base, X.base is assigned again before it is read.  Consuming bytes through a side
    pointer and then searching from the stale X.base re-reads what was consumed and misses the tail."""
    res = Result("CURSORPAIR")
    files = set(ctx.get("files", [])) if ctx else None
    for f in funcs_of(prog, files):
        # local structs with members base and used
        cand = {}
        for b, i, n in f.walk_all():
            if n.get("k") == "mem" and not n.get("arrow") and n.get("f") in ("base", "used"):
                x = strip(n["b"], lvalue_to_rvalue=False)
                if x.get("k") == "ref" and x["d"].get("dk") == "local" and "id" in x["d"]:
                    cand.setdefault(x["d"]["id"], [x["d"]["n"], set()])[1].add(n["f"])
        cand = {k: v[0] for k, v in cand.items() if v[1] == {"base", "used"}}
        if not cand:
            continue

        def member(n, fld):
            n = strip(n, lvalue_to_rvalue=False)
            if n.get("k") == "mem" and not n.get("arrow") and n.get("f") == fld:
                x = strip(n["b"], lvalue_to_rvalue=False)
                if x.get("k") == "ref" and x["d"].get("id") in cand:
                    return x["d"]["id"]
            return None

        def block_effects(bid):
            dec, mov = set(), set()
            for e in f.blocks[bid].el:
                for n in walk_own(e):
                    if n.get("k") == "un" and n.get("op") == "--":
                        v = member(n["e"], "used")
                        if v is not None:
                            dec.add(v)
                    elif n.get("k") == "bin" and n.get("op") == "-=":
                        v = member(n["a"], "used")
                        if v is not None:
                            dec.add(v)
                    if n.get("k") == "bin" and n.get("op") in ("=", "+="):
                        v = member(n["a"], "base")
                        if v is not None:
                            mov.add(v)
                    # the whole struct handed to a callee that moves both (mpt_message_read(&X, ..))
                    if n.get("k") == "call":
                        for a in n.get("args", []):
                            a = strip(a, all_casts=True)
                            if a.get("k") == "un" and a.get("op") == "&":
                                x = strip(a["e"], lvalue_to_rvalue=False)
                                if x.get("k") == "ref" and x["d"].get("id") in cand:
                                    mov.add(x["d"]["id"])
            return dec, mov
        eff = {bid: block_effects(bid) for bid in f.blocks}
        # forward may-analysis: X is "behind" after a block that reduced used without moving base
        inn = {b: set() for b in f.blocks}
        changed = True
        while changed:
            changed = False
            for bid in sorted(f.blocks, reverse=True):
                dec, mov = eff[bid]
                out = (inn[bid] - mov) | (dec - mov)
                for sx in f.blocks[bid].succ:
                    if sx is not None and not out <= inn[sx]:
                        inn[sx] |= out
                        changed = True
        for vid, name in sorted(cand.items()):
            bad = None
            for bid in sorted(f.blocks, reverse=True):
                if vid not in inn[bid]:
                    continue
                behind = True
                for e in f.blocks[bid].el:
                    for n in walk_own(e):
                        if n.get("k") == "bin" and n.get("op") in ("=", "+=") and member(n["a"], "base") == vid:
                            behind = False
                        if n.get("k") == "call":
                            for a in n.get("args", []):
                                a = strip(a, all_casts=True)
                                if a.get("k") == "un" and a.get("op") == "&" and strip(a["e"], lvalue_to_rvalue=False).get("d", {}).get("id") == vid:
                                    behind = False
                    if not behind:
                        break
                    for n in walk_own(e):
                        if n.get("k") == "cast" and n.get("ck") == "LValueToRValue" and member(n["e"], "base") == vid:
                            bad = bad or e
                if bad:
                    break
            res.ob("%s:%s.base keeps up with %s.used" % (f.qn, name, name), bad is None, f, (bad.get("l") if bad else f.line) or f.line,
                   "" if bad is None else "%s.used was reduced on a path to `%s` without moving %s.base: the read starts at bytes that were consumed already" % (name, norm(show(bad, f))[:60], name))
    return res


def run_snprintffit(prog, ctx=None):
    """SNPRINTFFIT: the result r of (v)snprintf(buf, n, ..) says "fits" only when r < n (r == n means the last character was
    cut off for the terminator): a test that accepts r <= n, or rejects only r > n, keeps a truncated text as complete"""
    res = Result("SNPRINTFFIT")
    files = set(ctx.get("files", [])) if ctx else None
    for f in funcs_of(prog, files):
        sites = []        # (result var id, size text, call)
        for b, i, n in f.walk_all():
            if n.get("k") == "bin" and n.get("op") == "=":
                l = strip(n["a"], lvalue_to_rvalue=False)
                r = strip(n["b"], all_casts=True)
                if l.get("k") == "ref" and "id" in l["d"] and r.get("k") == "call" and (callee_name(r) or "").split("::")[-1] in ("snprintf", "vsnprintf") and len(r.get("args", [])) >= 2:
                    sites.append((l["d"]["id"], l["d"]["n"], norm(show(strip(r["args"][1], all_casts=True), f)), r))
        if not sites:
            continue
        for vid, vn, ntext, call in sites:
            verdicts = []
            for b, i, n in f.walk_all():
                if n.get("k") == "bin" and n.get("op") in ("<", "<=", ">", ">="):
                    a = strip(n["a"], all_casts=True)
                    c = strip(n["b"], all_casts=True)
                    op = n["op"]
                    if c.get("k") == "ref" and c["d"].get("id") == vid and norm(show(a, f)) == ntext:
                        a, c = c, a
                        op = {"<": ">", "<=": ">=", ">": "<", ">=": "<="}[op]
                    if a.get("k") == "ref" and a["d"].get("id") == vid and norm(show(c, f)) == ntext:
                        verdicts.append((op, n))
            for op, n in verdicts:
                ok = op in ("<", ">=")
                if not ok and op == ">":
                    # clamping  if (r > n) r = n;  keeps the terminated buffer: same text as for r == n
                    for bid, blk in f.blocks.items():
                        if blk.term and blk.term.get("cond") is not None and any(x is n for x in walk(blk.term["cond"])) and blk.succ and blk.succ[0] is not None:
                            for el in f.blocks[blk.succ[0]].el:
                                for y in walk_own(el):
                                    if y.get("k") == "bin" and y.get("op") == "=":
                                        t = strip(y["a"], lvalue_to_rvalue=False)
                                        if t.get("k") == "ref" and t["d"].get("id") == vid:
                                            ok = True
                res.ob("%s:%s %s %s" % (f.qn, vn, op, ntext), ok, f, n.get("l", f.line),
                       "" if ok else "`%s` compares the result of %s(.., %s, ..) with its size using %s: a result equal to the size is a truncated text, it fits only below the size" % (
                           norm(show(n, f)), callee_name(call), ntext, op))
    return res


def run_fragstate(prog, ctx=None):
    """FRAGSTATE: a scanner that walks several fragments carries what it learnt from the bytes (previous byte, open quote) across
    the fragment boundary: in a loop that reloads its byte pointer W from an iovec element (W = X[i].iov_base), a variable that
    is otherwise set from *W inside the loop is not reset where W is reloaded"""
    res = Result("FRAGSTATE")
    files = set(ctx.get("files", [])) if ctx else None
    for f in funcs_of(prog, files):
        loops = natural_loops(f)
        if not loops:
            continue
        # pointers reloaded from iov_base, per block
        reload_blocks = {}
        for b, i, n in f.walk_all():
            if n.get("k") == "bin" and n.get("op") == "=":
                l = strip(n["a"], lvalue_to_rvalue=False)
                r = strip(n["b"], all_casts=True)
                if l.get("k") == "ref" and "id" in l["d"] and r.get("k") == "mem" and r.get("f") == "iov_base":
                    reload_blocks.setdefault(l["d"]["id"], set()).add(b.id)
        if not reload_blocks:
            continue
        for w, rblocks in reload_blocks.items():
            inloop = [h for h, body in loops.items() if rblocks & body]
            if not inloop:
                continue
            body = set()
            for h in inloop:
                body |= loops[h]
            # variables set from *W (or *(W++)) inside the loop
            carried = {}
            for bid in body:
                for el in f.blocks[bid].el:
                    for n in walk_own(el):
                        if n.get("k") == "bin" and n.get("op") == "=":
                            l = strip(n["a"], lvalue_to_rvalue=False)
                            r = strip(n["b"], all_casts=True)
                            if l.get("k") == "ref" and "id" in l["d"] and r.get("k") == "un" and r.get("op") == "*":
                                p = strip(r["e"], all_casts=True)
                                if p.get("k") == "un" and p.get("op") in ("++", "--"):
                                    p = strip(p["e"], lvalue_to_rvalue=False)
                                if p.get("k") == "ref" and p["d"].get("id") == w:
                                    carried[l["d"]["id"]] = l["d"]["n"]
            if not carried:
                continue
            bad = None
            for bid in rblocks & body:
                for el in f.blocks[bid].el:
                    for n in walk_own(el):
                        if n.get("k") == "bin" and n.get("op") == "=":
                            l = strip(n["a"], lvalue_to_rvalue=False)
                            if l.get("k") == "ref" and l["d"].get("id") in carried and cval(n["b"]) is not None:
                                bad = (carried[l["d"]["id"]], n)
            res.ob("%s:state of the scan survives the fragment switch" % f.qn, bad is None, f, (bad[1].get("l") if bad else f.line) or f.line,
                   "" if bad is None else "`%s` is reset (`%s`) where the byte pointer is reloaded from the next fragment: what the previous fragment's last byte said is forgotten at every boundary" % (bad[0], norm(show(bad[1], f))))
    return res


def run_queryrest(prog, ctx=None):
    """QUERYREST: mpt_node_query(n, &P) returns the deepest node that matches a prefix of the path and leaves the unmatched rest
    in P.len; every one of its callers looks at P.len before it follows the result (all 6 do): a caller that dereferences the
    result on a path without a read of P.len treats the nearest existing ancestor as the node that was asked for"""
    res = Result("QUERYREST")
    files = set(ctx.get("files", [])) if ctx else None
    n = 0
    for f in funcs_of(prog, files):
        for b, i, e in f.elements():
            if not (e.get("k") == "call" and callee_name(e) == "mpt_node_query" and len(e.get("args", [])) >= 2):
                continue
            a1 = strip(e["args"][1], all_casts=True)
            pvar = None
            arrow = False
            if a1.get("k") == "un" and a1.get("op") == "&":
                x = strip(a1["e"], lvalue_to_rvalue=False)
                if x.get("k") == "ref" and "id" in x["d"]:
                    pvar = x["d"]["id"]
            elif a1.get("k") == "ref" and "id" in a1["d"]:
                pvar = a1["d"]["id"]
                arrow = True
            if pvar is None:
                continue
            # the variable that receives the result (assignment around the call, in this block)
            rvar = None
            for el in b.el:
                for x in walk_own(el):
                    if x.get("k") == "bin" and x.get("op") == "=" and strip(x["b"], all_casts=True).get("sid") == e.get("sid") and e.get("sid") is not None:
                        l = strip(x["a"], lvalue_to_rvalue=False)
                        if l.get("k") == "ref" and "id" in l["d"]:
                            rvar = l["d"]
            if rvar is None:
                continue
            readers = set()
            derefs = []
            for b2, i2, x in f.walk_all():
                if x.get("k") == "mem" and x.get("f") == "len" and bool(x.get("arrow")) == arrow:
                    y = strip(x["b"], all_casts=True) if arrow else strip(x["b"], lvalue_to_rvalue=False)
                    if y.get("k") == "ref" and y["d"].get("id") == pvar:
                        readers.add(b2.id)
                if x.get("k") == "mem" and x.get("arrow"):
                    y = strip(x["b"], all_casts=True)
                    if y.get("k") == "ref" and y["d"].get("id") == rvar["id"]:
                        derefs.append((b2, x))
            reach = set()
            for sx in b.succ:
                if sx is not None:
                    reach |= f.reachable_from(sx, avoid=readers)
            bad = [x for b2, x in derefs if b2.id in reach and b2.id not in readers]
            n += 1
            res.ob("%s:%s = mpt_node_query(.., %s)" % (f.qn, rvar["n"], norm(show(e["args"][1], f))), not bad, f, e.get("l", f.line),
                   "" if not bad else "`%s` follows the result on a path that never looked at the unmatched rest of the path (%s.len): a partial match is taken for the node itself" % (
                       norm(show(bad[0], f)), norm(show(e["args"][1], f)).lstrip("&")))
    return res


RELEASE_SUFFIX = ("_fini", "_clear", "_close")


def run_localfini(prog, ctx=None):
    """LOCALFINI: a local object that a loop keeps handing to callees (`&L`: it accumulates what they allocate) and that the
    function releases behind the loop (`X_fini(&L)`, `mpt_node_clear(&L)`, `mpt_stream_close(&L)`) is released on every way
    out of the loop: from each such call inside a loop no return is reachable without passing the release call."""
    res = Result("LOCALFINI")
    from .rules_node import _natural_loops
    for f in sorted(prog.functions.values(), key=lambda f: (f.file, f.line, f.qn)):
        if f.nocfg or f.file.startswith("examples/"):
            continue
        inloop = set()
        for h, body in _natural_loops(f).items():
            inloop |= body
        rel = {}      # local id -> (name, release callee, blocks)
        for b, i, e in f.elements():
            if e.get("k") == "call" and e.get("args"):
                nm = callee_name(e) or ""
                a = strip(e["args"][0], all_casts=True)
                if nm.endswith(RELEASE_SUFFIX) and a.get("k") == "un" and a.get("op") == "&":
                    x = strip(a["e"], lvalue_to_rvalue=False)
                    if x.get("k") == "ref" and x["d"].get("dk") == "local" and f.T(x.get("t")).get("k") == "record":
                        r = rel.setdefault(x["d"]["id"], (x["d"]["n"], nm, set()))
                        r[2].add(b.id)
        for lid, (lname, rname, rblocks) in sorted(rel.items()):
            arms = []
            for b, i, e in f.elements():
                if e.get("k") == "call":
                    nm = callee_name(e) or ""
                    if nm == rname:
                        continue
                    for a in e.get("args", []):
                        a = strip(a, all_casts=True)
                        if a.get("k") == "un" and a.get("op") == "&":
                            x = strip(a["e"], lvalue_to_rvalue=False)
                            if x.get("k") == "ref" and x["d"].get("id") == lid and b.id in inloop:
                                arms.append((b, i, e))
            if not arms:
                continue
            bad = None
            for b, i, e in arms:
                # the rest of this block, then everything reachable without a release block
                if b.id in rblocks:
                    continue
                seen = set()
                stack = [s for s in b.succ if s is not None]
                leak = any(x.get("k") == "ret" for x in f.blocks[b.id].el[i + 1:])
                while stack and not leak:
                    x = stack.pop()
                    if x in seen or x in rblocks:
                        continue
                    seen.add(x)
                    blk = f.blocks[x]
                    if x == f.exit or any(el.get("k") == "ret" for el in blk.el):
                        leak = True
                        break
                    stack.extend(s for s in blk.succ if s is not None)
                if leak:
                    bad = e
                    break
            ok = bad is None
            res.ob("%s:%s" % (f.qn, lname), ok, f, (bad or {}).get("l", f.line),
                   "" if ok else "%s: after `%s` (line %s) a return is reachable without %s(&%s), which other ways out of the function call" % (
                       f.qn, norm(show(bad, f))[:50], bad.get("l"), rname, lname))
            res.count("locals")
    if res.counters.get("locals", 0) < 1:
        raise Broken("LOCALFINI: no local that is used in a loop and released behind it found")
    return res


def _reads_field(g, pidx, field, _memo={}):
    """callee g reads member `field` of the object its parameter pidx points to (anywhere, not as the target of a plain store)"""
    key = (g.key(), pidx, field)
    if key in _memo:
        return _memo[key]
    out = False
    if not g.nocfg and pidx < len(g.params):
        pid = g.params[pidx]["id"]
        lhs = set()
        for b, i, n in g.walk_all():
            if n.get("k") == "bin" and n.get("op") == "=":
                l = strip(n["a"], lvalue_to_rvalue=False)
                lhs.add(id(l))
        writes = False
        # locals that only ever hold the entry value of the member (`sep = path->sep`): storing them back changes nothing
        holds = {}
        for b, i, n in g.walk_all():
            src = None
            if n.get("k") == "bin" and n.get("op") == "=":
                l = strip(n["a"], lvalue_to_rvalue=False)
                if l.get("k") == "ref" and l["d"].get("dk") == "local":
                    src = (l["d"]["id"], n["b"])
            elif n.get("k") == "decl":
                for v in n.get("vars", []):
                    if v.get("init") is not None:
                        holds.setdefault(v["id"], []).append(v["init"])
            if src:
                holds.setdefault(src[0], []).append(src[1])

        def is_entry_copy(e):
            e = strip(e, all_casts=True)
            if e.get("k") != "ref" or e["d"].get("id") not in holds:
                return False
            for r in holds[e["d"]["id"]]:
                r = strip(r, all_casts=True)
                if not (r.get("k") == "mem" and r.get("f") == field and strip(r["b"], all_casts=True).get("k") == "ref"
                        and strip(r["b"], all_casts=True)["d"].get("id") == pid):
                    return False
            return True
        restores = set()
        for b, i, n in g.walk_all():
            if n.get("k") == "bin" and n.get("op") == "=":
                l = strip(n["a"], lvalue_to_rvalue=False)
                if l.get("k") == "mem" and l.get("f") == field and is_entry_copy(n["b"]):
                    restores.add(id(l))
        for b, i, n in g.walk_all():
            if n.get("k") == "mem" and n.get("f") == field:
                bs = strip(n["b"], all_casts=True)
                if bs.get("k") == "ref" and bs["d"].get("id") == pid:
                    if id(n) in restores:
                        continue
                    if id(n) in lhs:
                        writes = True
                    else:
                        out = True
            if n.get("k") in ("un",) and n.get("op") in ("++", "--"):
                t = strip(n["e"], lvalue_to_rvalue=False)
                if t.get("k") == "mem" and t.get("f") == field:
                    writes = True
            if n.get("k") == "bin" and n.get("op", "").endswith("=") and n["op"] not in ("=", "==", "!=", "<=", ">="):
                t = strip(n["a"], lvalue_to_rvalue=False)
                if t.get("k") == "mem" and t.get("f") == field:
                    writes = True
        if writes:
            out = False       # an in/out member: the caller may well set it again afterwards
    _memo[key] = out
    return out


def run_setbeforeuse(prog, ctx=None):
    """SETBEFOREUSE: a member of a local object that the function sets from one of its own parameters is set before the object
    is first handed to a callee that reads that member (`where.sep = sep` before `mpt_path_set(&where, ..)`): a call that can run
    ahead of the store works with the initialiser's value instead of the caller's."""
    res = Result("SETBEFOREUSE")
    files = set(ctx.get("files", [])) if ctx else None
    for f in funcs_of(prog, files):
        pids = {p["id"] for p in f.params}
        stores = []
        for b, i, e in f.elements():
            for n in walk_own(e):
                if n.get("k") == "bin" and n.get("op") == "=":
                    l = strip(n["a"], lvalue_to_rvalue=False)
                    if l.get("k") == "mem" and not l.get("arrow"):
                        base = strip(l["b"], lvalue_to_rvalue=False)
                        if base.get("k") == "ref" and base["d"].get("dk") == "local" and f.T(base.get("t")).get("k") == "record":
                            if any(m.get("k") == "ref" and m["d"].get("id") in pids for m in walk(n["b"])):
                                stores.append((b, i, n, base["d"]["id"], base["d"]["n"], l["f"]))
        if not stores:
            continue
        calls = []
        for b, i, e in f.elements():
            if e.get("k") == "call" and e.get("fn"):
                for k, a in enumerate(e.get("args", [])):
                    a = strip(a, all_casts=True)
                    if a.get("k") == "un" and a.get("op") == "&":
                        x = strip(a["e"], lvalue_to_rvalue=False)
                        if x.get("k") == "ref" and x["d"].get("dk") == "local":
                            calls.append((b, i, e, x["d"]["id"], k))
        for b, i, n, lid, lname, fld in stores:
            bad = None
            for cb, ci, c, clid, k in calls:
                if clid != lid:
                    continue
                gs = [g for g in prog.resolve_call(f, c) if _reads_field(g, k, fld)]
                if not gs:
                    continue
                # can the call run before the store?  (same block: earlier element; else the store is reachable from the call)
                before = (cb.id == b.id and ci < i) or (cb.id != b.id and b.id in f.reachable_from(cb.id))
                after_possible = (cb.id == b.id and ci > i) or (cb.id != b.id and cb.id in f.reachable_from(b.id))
                if before and not (cb.id != b.id and after_possible and cb.id in f.reachable_from(b.id) and b.id in f.reachable_from(cb.id)):
                    bad = (c, gs[0])
                    break
            ok = bad is None
            res.ob("%s:%s.%s" % (f.qn, lname, fld), ok, f, n.get("l", f.line),
                   "" if ok else "%s: `%s` comes after `%s` (line %s), and %s() reads ->%s: the call works with the initial value, not the caller's" % (
                       f.qn, norm(show(n, f))[:40], norm(show(bad[0], f))[:50], bad[0].get("l"), bad[1].name, fld))
            res.count("stores")
    return res


def run_destindep(prog, ctx=None):
    """DESTINDEP: a function whose destination pointer is optional (it tests the parameter for null) counts the same with and
    without it: no store to an integer local that the return value is computed from happens only on paths where the
    destination is non-null (skipping must advance and count exactly like copying)."""
    res = Result("DESTINDEP")
    files = set(ctx.get("files", [])) if ctx else None
    for f in funcs_of(prog, files):
        tv = sorted(tested_pointers(f))
        pids = {p["id"]: p["n"] for p in f.params if f.T(p["t"]).get("k") == "ptr" and not f.T(f.T(p["t"]).get("to")).get("const")
                and f.T(f.T(p["t"]).get("to")).get("k") in ("void", "int")}
        cand = [(k, vid) for k, vid in enumerate(tv) if vid in pids]
        if not cand:
            continue
        # integer locals the return value reads
        rl = set()
        for b, i, e in f.elements():
            if e.get("k") == "ret" and e.get("e") is not None:
                for n in walk(e["e"]):
                    if n.get("k") == "ref" and n["d"].get("dk") == "local" and f.T(n.get("t")).get("k") == "int":
                        rl.add(n["d"]["id"])
        if not rl:
            continue
        stores = []
        for b, i, e in f.elements():
            for n in walk_own(e):
                tgt = None
                if n.get("k") == "bin" and n.get("op", "").endswith("=") and n["op"] not in ("==", "!=", "<=", ">="):
                    tgt = strip(n["a"], lvalue_to_rvalue=False)
                elif n.get("k") == "un" and n.get("op") in ("++", "--"):
                    tgt = strip(n["e"], lvalue_to_rvalue=False)
                if tgt is not None and tgt.get("k") == "ref" and tgt["d"].get("id") in rl:
                    stores.append((b, i, n, tgt["d"]["n"]))
        if not stores:
            continue
        an = null_partitioned(prog, f)
        for k, vid in cand:
            # the function is entered with the destination null at all?
            everN = any(isinstance(key, str) and len(key) > k and key[k] == "N" for parts in an.pre_parts.values() for key in parts)
            if not everN:
                continue
            for b, i, n, lname in stores:
                keys = [key for key in an.pre_parts.get((b.id, i), {}) if isinstance(key, str) and len(key) > k]
                if not keys:
                    continue
                ok = not all(key[k] == "P" for key in keys)
                res.ob("%s:%s:%s" % (f.qn, pids[vid], norm(show(n, f))[:40]), ok, f, n.get("l", f.line),
                       "" if ok else "%s: `%s` runs only when `%s` is non-null, but `%s` goes into the return value: without a destination the function counts differently" % (
                           f.qn, norm(show(n, f))[:40], pids[vid], lname))
                res.count("stores")
    return res


def repeated_calls(prog, f):
    """(callee, argument texts) -> number of calls with literally these arguments in function f (callees called >= 3 times)"""
    groups = {}
    for b, i, e in f.elements():
        if e.get("k") == "call" and len(e.get("args", [])) >= 2:
            nm = callee_name(e)
            if nm:
                groups.setdefault(nm, []).append(e)
    out = {}
    for nm, calls in groups.items():
        if len(calls) < 3:
            continue
        for c in calls:
            t = tuple(norm(show(strip(a, all_casts=True), f)) for a in c["args"])
            out.setdefault(nm, {})
            out[nm][t] = out[nm].get(t, 0) + 1
    return out


def run_argdeviant(prog, ctx=None):
    """ARGDEVIANT (copy and paste inside one function): mustcheck.json lists the functions that call one callee three times or
    more with literally the same arguments every time (a repeated block, e.g. the three `memcmp(ident, cid, len)` of the node
    lookup).  Such a block stays uniform: exactly one call that now differs from the others in exactly one argument is the odd
    one of the block."""
    import json as _json, os as _os
    res = Result("ARGDEVIANT")
    ref = _json.load(open(_os.path.join(_os.path.dirname(_os.path.abspath(__file__)), "mustcheck.json"))).get("repeated", {})
    byname = {f.file + ":" + f.qn: f for f in prog.functions.values()}
    for k, callees in sorted(ref.items()):
        f = byname.get(k)
        if f is None or f.nocfg:
            continue
        cur = repeated_calls(prog, f)
        for nm, (args, cnt) in sorted(callees.items()):
            args = tuple(args)
            now = cur.get(nm)
            if not now or args not in now:
                continue
            ok, msg = True, ""
            others = {t: c for t, c in now.items() if t != args}
            if len(others) == 1 and sum(others.values()) == 1 and now[args] >= 2:
                t = list(others)[0]
                diff = [j for j in range(min(len(t), len(args))) if t[j] != args[j]]
                if len(t) == len(args) and len(diff) == 1:
                    ok = False
                    msg = "%s called %s %d times with (%s) in the reference tree; now %d times, and once with `%s` in place of `%s`: the odd one of a repeated block" % (
                        f.qn, nm, cnt, ", ".join(args), now[args], t[diff[0]], args[diff[0]])
            res.ob("%s:%s" % (k.split(":", 1)[1], nm), ok, f, f.line, msg)
    return res


def index_steps(prog, f):
    """index variable name -> [loops in which every way round passes its single unit step, loops in which some way round avoids it]
    for the loops of f that subscript with a local stepped by `++` / `+= c` in exactly one block of the loop and not assigned
    otherwise inside it"""
    from .rules_node import _natural_loops
    out = {}
    loops = _natural_loops(f)
    for h, body in sorted(loops.items()):
        idx_vars, steps, other = {}, {}, set()
        for bid in body:
            blk = f.blocks[bid]
            trees = list(blk.el)
            if blk.term and isinstance(blk.term.get("cond"), dict):
                trees.append(blk.term["cond"])
            for t in trees:
                for n in walk(t):
                    if n.get("k") == "idx":
                        iv = strip(n["i"], all_casts=True)
                        if iv.get("k") == "ref" and iv["d"].get("dk") == "local":
                            idx_vars[iv["d"]["id"]] = iv["d"]["n"]
                    tgt = None
                    if n.get("k") == "un" and n.get("op") == "++":
                        tgt = strip(n["e"], lvalue_to_rvalue=False)
                    elif n.get("k") == "bin" and n.get("op") == "+=" and cval(n["b"]) is not None:
                        tgt = strip(n["a"], lvalue_to_rvalue=False)
                    elif n.get("k") == "bin" and n.get("op") == "=":
                        t2 = strip(n["a"], lvalue_to_rvalue=False)
                        if t2.get("k") == "ref" and "id" in t2["d"]:
                            other.add(t2["d"]["id"])
                    if tgt is not None and tgt.get("k") == "ref" and "id" in tgt["d"]:
                        steps.setdefault(tgt["d"]["id"], set()).add(bid)
        srcs = [s for s in body if h in f.blocks[s].succ]
        for vid, vname in sorted(idx_vars.items()):
            sb = steps.get(vid)
            if not sb or h in sb or vid in other or len(sb) != 1:
                continue
            reach = {h} | {x for x in f.reachable_from(h, avoid=sb) if x in body}
            bad = [s for s in srcs if s in reach and s not in sb]
            ent = out.setdefault(vname, [0, 0])
            ent[1 if bad else 0] += 1
    return out


def run_indexstep(prog, ctx=None):
    """INDEXSTEP: in a loop that walks an array by an index it steps itself once per round (`i++` at the end of the body), every
    way round the loop takes that step: a `continue` in front of the step examines the same element again and again until the
    loop's other counter runs out.  The loops that are uniformly stepped in the unchanged tree are listed in mustcheck.json; a
    function that now has more loops with a way round its step than the reference has lost that uniformity."""
    import json as _json, os as _os
    res = Result("INDEXSTEP")
    ref = _json.load(open(_os.path.join(_os.path.dirname(_os.path.abspath(__file__)), "mustcheck.json"))).get("stepped", {})
    byname = {f.file + ":" + f.qn: f for f in prog.functions.values()}
    for k, vars_ in sorted(ref.items()):
        f = byname.get(k)
        if f is None or f.nocfg:
            continue
        cur = index_steps(prog, f)
        for vname, (good0, bad0) in sorted(vars_.items()):
            if vname not in cur:
                continue
            good1, bad1 = cur[vname]
            ok = bad1 <= bad0
            res.ob("%s:%s" % (k.split(":", 1)[1], vname), ok, f, f.line,
                   "" if ok else "%s: a loop that indexes with `%s` and steps it once in its body now has a way round (a continue) that does not pass the step; in the reference tree every round took it" % (f.qn, vname))
    return res


def _iov_member(e, field, f=None):
    """X of the expression X->field / X[i].field / (*X).field when field is an iovec member, else None; with the function given also
    through an assignment `(v = X->field)` and through a local whose every definition is X->field (a temporary for the load)"""
    e = strip(e, all_casts=True)
    if e.get("k") == "mem" and e.get("f") == field:
        return e["b"]
    if e.get("k") == "bin" and e.get("op") == "=":
        return _iov_member(e["b"], field, None)
    if f is not None and e.get("k") == "ref" and e["d"].get("dk") == "local":
        vid = e["d"]["id"]
        srcs = []
        for b, i, n in f.walk_all():
            if n.get("k") == "bin" and n.get("op", "").endswith("=") and n["op"] not in ("==", "!=", "<=", ">="):
                l = strip(n["a"], lvalue_to_rvalue=False)
                if l.get("k") == "ref" and l["d"].get("id") == vid:
                    srcs.append(n["b"] if n["op"] == "=" else None)
            elif n.get("k") == "decl":
                for v in n["vars"]:
                    if v["id"] == vid and v.get("init") is not None:
                        srcs.append(v["init"])
        xs = [(_iov_member(x, field, None) if x is not None else None) for x in srcs]
        if xs and all(x is not None for x in xs) and len({norm(show(strip(x, all_casts=True), f)) for x in xs}) == 1:
            return xs[0]
    return None


def run_fraglocate(prog, ctx=None):
    """FRAGLOCATE: a loop that turns an offset P into the fragment list into (fragment X, offset inside X) by
    `while (P op X->iov_len) { P -= X->iov_len; ++X; }` ends with P inside X only when op is >=: P is the index of a byte
    (found by a search over the list), and with > the loop stops one fragment early whenever that byte is the first of a
    fragment, so P == X->iov_len addresses the byte behind X instead of the byte that was found."""
    res = Result("FRAGLOCATE")
    files = set(ctx.get("files", [])) if ctx else None
    for f in funcs_of(prog, files):
        loops = natural_loops(f)
        for h, body in sorted(loops.items()):
            blk = f.blocks[h]
            cond = blk.term.get("cond") if blk.term else None
            if cond is None:
                continue
            c = strip(cond, all_casts=True)
            if not (c.get("k") == "bin" and c.get("op") in (">", ">=", "<", "<=")):
                continue
            a, b, op = strip(c["a"], all_casts=True), strip(c["b"], all_casts=True), c["op"]
            if _iov_member(a, "iov_len", f) is not None and _iov_member(b, "iov_len", f) is None:
                a, b = b, a
                op = {"<": ">", "<=": ">=", ">": "<", ">=": "<="}[op]
            xb = _iov_member(b, "iov_len", f)
            if xb is None or a.get("k") != "ref" or "id" not in a["d"]:
                continue
            xs = strip(xb, all_casts=True)
            if xs.get("k") != "ref" or "id" not in xs["d"]:
                continue
            pid, xid = a["d"]["id"], xs["d"]["id"]
            reduced = stepped = False
            for x in body:
                for e in f.blocks[x].el:
                    for n in walk_own(e):
                        if n.get("k") == "bin" and n.get("op") == "-=":
                            l = strip(n["a"], lvalue_to_rvalue=False)
                            r = _iov_member(n["b"], "iov_len", f)
                            if l.get("k") == "ref" and l["d"].get("id") == pid and r is not None:
                                rs = strip(r, all_casts=True)
                                if rs.get("k") == "ref" and rs["d"].get("id") == xid:
                                    reduced = True
                        if n.get("k") == "un" and n.get("op") == "++":
                            l = strip(n["e"], lvalue_to_rvalue=False)
                            if l.get("k") == "ref" and l["d"].get("id") == xid:
                                stepped = True
            if not (reduced and stepped) or op not in (">", ">="):
                continue
            ok = op == ">="
            res.ob("%s:%s located in %s" % (f.qn, a["d"]["n"], xs["d"]["n"]), ok, f, c.get("l", f.line) or f.line,
                   "" if ok else "`%s` leaves %s == %s->iov_len when the located byte is the first byte of a fragment: the loop stops one fragment early and %s addresses the byte behind %s" % (
                       norm(show(c, f)), a["d"]["n"], xs["d"]["n"], a["d"]["n"], xs["d"]["n"]))
    return res


def run_fragadopt(prog, ctx=None):
    """FRAGADOPT: a message is its base part followed by the `clen` fragments at `cont`.  Where a function makes a fragment of
    the continuation list the new base part (M->base = X->iov_base [+ off], X being M->cont or a local walking from it), the
    fragment leaves the list on every path to the exit: M->cont is stepped past X (++M->cont, M->cont = X + k, M->cont = ++X,
    or X stepped and then stored).  A fragment that is base part and list member at once is read twice."""
    res = Result("FRAGADOPT")
    files = set(ctx.get("files", [])) if ctx else None

    def is_cont_of(e, mid):
        e = strip(e, all_casts=True)
        if e.get("k") == "mem" and e.get("f") == "cont":
            bb = strip(e["b"], all_casts=True)
            return bb.get("k") == "ref" and bb["d"].get("id") == mid
        return False

    for f in funcs_of(prog, files):
        sites = []
        for b, i, n in f.walk_all():
            if not (n.get("k") == "bin" and n.get("op") == "="):
                continue
            l = strip(n["a"], lvalue_to_rvalue=False)
            if not (l.get("k") == "mem" and l.get("f") == "base"):
                continue
            m = strip(l["b"], all_casts=True)
            if m.get("k") != "ref" or "id" not in m["d"] or "message" not in str(f.T(f.pointee(m.get("t")) if f.pointee(m.get("t")) is not None else m.get("t")).get("name", "")):
                continue
            mid = m["d"]["id"]
            kind = None
            for y in walk(n["b"]):
                xb = _iov_member(y, "iov_base") if y.get("k") == "mem" else None
                if xb is None:
                    continue
                src = strip(xb, all_casts=True)
                if is_cont_of(src, mid):
                    kind = ("member", None, "%s->cont" % m["d"]["n"])
                elif src.get("k") == "ref" and "id" in src["d"] and f.T(src.get("t")).get("k") == "ptr":
                    kind = ("local", src["d"]["id"], src["d"]["n"])
            if kind is None:
                continue
            sites.append((b.id, i, n, m, kind))
        for bid, idx, n, m, kind in sites:
            mid = m["d"]["id"]
            stepped_local = False

            def passes(e):
                """element e steps M->cont past X"""
                for y in walk_own(e):
                    if y.get("k") == "un" and y.get("op") == "++":
                        t = strip(y["e"], lvalue_to_rvalue=False)
                        if kind[0] == "member" and is_cont_of(t, mid):
                            return True
                    if y.get("k") == "bin" and y.get("op") in ("+=",) and is_cont_of(strip(y["a"], lvalue_to_rvalue=False), mid):
                        if (cval(y["b"]) or 0) >= 1:
                            return True
                    if y.get("k") == "bin" and y.get("op") == "=" and is_cont_of(strip(y["a"], lvalue_to_rvalue=False), mid):
                        r = strip(y["b"], all_casts=True)
                        if r.get("k") == "bin" and r.get("op") == "+" and (cval(r["b"]) or 0) >= 1:
                            ra = strip(r["a"], all_casts=True)
                            if (kind[0] == "local" and ra.get("k") == "ref" and ra["d"].get("id") == kind[1]) or (kind[0] == "member" and is_cont_of(ra, mid)):
                                return True
                        if r.get("k") == "un" and r.get("op") == "++" and not r.get("post"):
                            ra = strip(r["e"], lvalue_to_rvalue=False)
                            if kind[0] == "local" and ra.get("k") == "ref" and ra["d"].get("id") == kind[1]:
                                return True
                        if kind[0] == "local" and r.get("k") == "ref" and r["d"].get("id") == kind[1] and stepped_local:
                            return True
                return False

            # walk forward from the site; a path that reaches the exit without a passing element is a finding
            bad = None
            seen = set()
            work = [(bid, idx + 1, False)]
            while work and bad is None:
                x, start, stepped_local = work.pop()
                if (x, start, stepped_local) in seen:
                    continue
                seen.add((x, start, stepped_local))
                blk = f.blocks[x]
                done = False
                for e in blk.el[start:]:
                    if kind[0] == "local":
                        for y in walk_own(e):
                            if y.get("k") == "un" and y.get("op") == "++":
                                t = strip(y["e"], lvalue_to_rvalue=False)
                                if t.get("k") == "ref" and t["d"].get("id") == kind[1]:
                                    stepped_local = True
                    if passes(e):
                        done = True
                        break
                if done:
                    continue
                succ = [s for s in blk.succ if s is not None]
                if not succ:
                    bad = x
                for s in succ:
                    work.append((s, 0, stepped_local))
            ok = bad is None
            res.ob("%s:%s adopted as base at line %s" % (f.qn, kind[2], n.get("l", f.line)), ok, f, n.get("l", f.line) or f.line,
                   "" if ok else "`%s` makes the fragment at %s the base part, and a path reaches the end of %s without moving %s->cont past it: the fragment is base part and first continuation fragment at once, its bytes are read twice" % (
                       norm(show(n, f))[:100], kind[2], f.name, m["d"]["n"]))
    return res


def run_lazyread(prog, ctx=None):
    """LAZYREAD: a file-level table pointer that is created on first use (`if (!table) init();` with init() storing it) is read
    by a function only behind such a test of that table in the same function (or, for a file-local helper, in front of every
    call of it) - the functions that create or release the table themselves excepted.  A reader that only looks whether the table exists (and skips its work when it does not)
    depends on which lookup the process happened to make first."""
    from .ival import global_effects
    res = Result("LAZYREAD")
    files = set(ctx.get("files", [])) if ctx else None
    ge = global_effects(prog)
    fs = funcs_of(prog, files)
    lazy = {}        # (file, global name) -> set of init function keys
    guards = {}      # function key -> {global name: [block ids]}
    for f in fs:
        for bid, b in f.blocks.items():
            if not b.term or b.term.get("cond") is None or len(b.succ) != 2:
                continue
            c = strip(b.term["cond"], all_casts=True)
            if b.term.get("cls") == "BinaryOperator":
                if c.get("k") == "bin" and c.get("op") in ("&&", "||"):
                    c = strip(c["a"], all_casts=True)
            else:
                while c.get("k") == "bin" and c.get("op") in ("&&", "||"):
                    c = strip(c["b"], all_casts=True)
            if not (c.get("k") == "un" and c.get("op") == "!"):
                continue
            g = strip(c["e"], all_casts=True)
            if g.get("k") == "bin" and g.get("op") == "=":
                g = strip(g["b"], all_casts=True)
            if not (g.get("k") == "ref" and g["d"].get("dk") == "global" and b.succ[0] is not None):
                continue
            for e in f.blocks[b.succ[0]].el:
                if e.get("k") == "call" and e.get("fn", {}).get("inroot"):
                    for cal in prog.resolve_call(f, e):
                        if (f.file, g["d"]["n"]) in ge.get(cal.key(), {}):
                            lazy.setdefault((f.file, g["d"]["n"]), set()).add(cal.key())
                            guards.setdefault(f.key(), {}).setdefault(g["d"]["n"], []).append(bid)
    for f in fs:
        dom = None
        for (file, gname), inits in sorted(lazy.items()):
            if file != f.file or f.key() in inits:
                continue
            # functions that store the table (release / re-create it) manage it
            if (file, gname) in ge.get(f.key(), {}) and not guards.get(f.key(), {}).get(gname):
                direct = False
                for b, i, n in f.walk_all():
                    if n.get("k") == "bin" and n.get("op") == "=":
                        l = strip(n["a"], lvalue_to_rvalue=False)
                        if l.get("k") == "ref" and l["d"].get("dk") == "global" and l["d"]["n"] == gname:
                            direct = True
                if direct:
                    continue
            first = None
            for b in sorted(f.blocks.values(), key=lambda b: -b.id):
                els = list(b.el) + ([b.term["cond"]] if b.term and b.term.get("cond") is not None else [])
                for e in els:
                    for n in walk(e):
                        if n.get("k") == "ref" and n["d"].get("dk") == "global" and n["d"]["n"] == gname:
                            gb = guards.get(f.key(), {}).get(gname, [])
                            if b.id in gb:
                                continue
                            if dom is None:
                                dom = f.dominators()
                            if not any(x in dom[b.id] for x in gb):
                                if first is None:
                                    first = (b, n)
            if first is not None and f.static:
                # a file-local helper: every call of it sits behind the first-use test in its caller
                sites = []
                for g2 in fs:
                    if g2.file != f.file or g2.key() == f.key():
                        continue
                    d2 = None
                    for b2, i2, e2 in g2.elements():
                        for n2 in walk_own(e2):
                            if n2.get("k") == "call" and any(c2.key() == f.key() for c2 in prog.resolve_call(g2, n2)):
                                if d2 is None:
                                    d2 = g2.dominators()
                                gb2 = guards.get(g2.key(), {}).get(gname, [])
                                sites.append(any(x in d2[b2.id] and x != b2.id for x in gb2))
                if sites and all(sites):
                    first = None
            reads = any(n.get("k") == "ref" and n["d"].get("dk") == "global" and n["d"]["n"] == gname for b, i, n in f.walk_all())
            if not reads and first is None:
                continue
            res.ob("%s:reads %s behind its first-use test" % (f.qn, gname), first is None, f, (first[1].get("l") if first else f.line) or f.line,
                   "" if first is None else "%s reads the table %s, which is created on first use by %s, without the first-use test in front of it: what it sees depends on the lookups made before" % (
                       f.qn, gname, ", ".join(sorted(k[2] if isinstance(k, tuple) and len(k) > 2 else str(k) for k in inits))))
    return res


def run_fragzero(prog, ctx=None):
    """FRAGZERO: a function that looks at the bytes of a fragment one by one through an index (`tmp = data[i].iov_base; ..
    tmp[pos]`) looks at byte 0 of the fragment as well: over all indexed reads through that pointer the interval analysis
    gives an index range that starts at 0.  A count-down that stops in front of index 0 (`while (--pos)`) makes the answer
    depend on where the fragment borders are: the first byte of every fragment is never examined."""
    from .ival import Analysis
    res = Result("FRAGZERO")
    files = set(ctx.get("files", [])) if ctx else None
    for f in funcs_of(prog, files):
        bases = {}
        for b, i, n in f.walk_all():
            pairs = []
            if n.get("k") == "decl":
                pairs = [(v["id"], v.get("n") or v.get("name"), v["init"]) for v in n["vars"] if v.get("init") is not None]
            elif n.get("k") == "bin" and n.get("op") == "=":
                l = strip(n["a"], lvalue_to_rvalue=False)
                if l.get("k") == "ref" and "id" in l["d"]:
                    pairs = [(l["d"]["id"], l["d"].get("n"), n["b"])]
            for vid, name, rhs in pairs:
                r = strip(rhs, all_casts=True)
                if r.get("k") == "mem" and r.get("f") == "iov_base":
                    bases[vid] = name
        if not bases:
            continue
        reads = {}
        for b, i, e in f.elements():
            for n in walk(e):
                if n.get("k") == "idx":
                    a = strip(n["a"], all_casts=True)
                    if a.get("k") == "ref" and a["d"].get("id") in bases and cval(n["i"]) is None:
                        reads.setdefault(a["d"]["id"], []).append((b.id, i, n))
        if not reads:
            continue
        an = Analysis(prog, f).run()
        for vid, rs in sorted(reads.items()):
            lo = None
            for bid, i, n in rs:
                v = an.value_at(bid, i, n["i"])
                if v is None:
                    lo = 0
                    break
                lo = v.lo if lo is None else min(lo, v.lo)
            ok = lo is not None and lo <= 0
            n0 = rs[0][2]
            res.ob("%s:%s[..] reaches byte 0" % (f.qn, bases[vid] or "?"), ok, f, n0.get("l") or f.line,
                   "" if ok else "the indexed reads `%s` of the fragment's bytes use indices from %s up: byte 0 of a fragment is never looked at" % (norm(show(n0, f)), lo))
    return res


def run_deadloop(prog, ctx=None):
    """DEADLOOP: every loop of the functions in scope can be entered: the interval analysis (an over-approximation of the
    reachable states) does not show the whole body of a loop unreachable.  A count that is computed from a value that was
    overwritten a statement earlier (`len = len % N; parts = len / N;`) makes the loop that moves the full blocks a loop that
    never runs: the function still returns, with part of its work not done."""
    from .ival import Analysis
    res = Result("DEADLOOP")
    files = set(ctx.get("files", [])) if ctx else None
    for f in funcs_of(prog, files):
        loops = natural_loops(f)
        if not loops:
            continue
        try:
            an = Analysis(prog, f).run()
        except Exception as ex:
            res.notes.append("%s: interval analysis failed (%s)" % (f.qn, ex))
            continue
        for hd, body in sorted(loops.items()):
            if not an.reachable(hd):
                continue      # the loop itself lies in code the analysis does not reach (judged where that starts)
            inner = [b for b in body if b != hd and (f.blocks[b].el or f.blocks[b].term)]
            if not inner:
                continue
            dead = not any(an.reachable(b) for b in inner)
            t = f.blocks[hd].term or {}
            line = t.get("l") or f.line
            res.ob("%s:loop %d can be entered" % (f.qn, sorted(loops).index(hd)), not dead, f, line,
                   "" if not dead else "no state the interval analysis finds at the loop head enters the body of this loop (condition `%s`): the loop never runs" % (
                       norm(show(t["cond"], f)) if t.get("cond") is not None else "?"))
    return res


def run_maxstore(prog, ctx=None):
    """MAXSTORE: the capacity `max` of a ring queue decides where the bytes behind the storage end continue (offset 0): a
    store that gives `max` another value is made only while the content does not wrap - on every path to it the
    not-fragmented edge of a fragmentation test (`len > max - off` false) of that queue was taken, or mpt_queue_align(q, 0)
    ran, with no store to len / off / max of it in between; the all-zero reset is exempt.  Growing the capacity first and
    testing afterwards finds nothing to move: the wrapped part stays at the storage start while readers look for it behind
    the old end."""
    res = Result("MAXSTORE")
    files = set(ctx.get("files", [])) if ctx else None
    n = 0
    for f in funcs_of(prog, files):
        stores = []
        for b, i, e in f.elements():
            for m in walk_own(e):
                if m.get("k") == "bin" and m.get("op") == "=":
                    l = strip(m["a"], lvalue_to_rvalue=False)
                    if l.get("k") == "mem" and l.get("f") == "max" and l.get("rec", "").split("::")[-1] in ("mpt_queue", "queue"):
                        stores.append((b.id, i, m, l))
        if not stores:
            continue

        def is_frag(c):
            """`len > max - off`, `off > max - len`, `(max - len) < off` ..: the object the test is about"""
            c = strip(c, all_casts=True)
            if c.get("k") != "bin" or c.get("op") not in (">", "<"):
                return None
            big, small = (c["a"], c["b"]) if c["op"] == ">" else (c["b"], c["a"])
            big, small = strip(big, all_casts=True), strip(small, all_casts=True)
            if big.get("k") == "mem" and big.get("f") in ("len", "off") and small.get("k") == "bin" and small.get("op") == "-":
                x, y = strip(small["a"], all_casts=True), strip(small["b"], all_casts=True)
                if x.get("k") == "mem" and x.get("f") == "max" and y.get("k") == "mem" and {y.get("f"), big.get("f")} == {"len", "off"}:
                    return norm(show(big["b"], f))
            return None

        for sb, si, sn, sl in stores:
            n += 1
            obj = norm(show(sl["b"], f))
            if cval(sn["b"]) == 0:
                res.ob("%s:%s" % (f.qn, norm(show(sn, f))[:50]), True, f, sn.get("l") or f.line)
                continue
            # forward may-analysis: can the store be reached in state "may wrap"?
            IN = {bid: set() for bid in f.blocks}
            IN[f.entry] = {"W"}
            work = [f.entry]
            done = {}
            bad = False
            while work:
                bid = work.pop()
                st = set(IN[bid])
                blk = f.blocks[bid]
                for i, e in enumerate(blk.el):
                    if bid == sb and i == si and "W" in st:
                        bad = True
                    for m in walk_own(e):
                        if m.get("k") == "call" and callee_name(m) == "mpt_queue_align" and len(m.get("args", [])) == 2 and cval(m["args"][1]) == 0:
                            a0 = strip(m["args"][0], all_casts=True)
                            if norm(show(a0, f)) == obj or (a0.get("k") == "un" and a0.get("op") == "&" and norm(show(a0["e"], f)) == obj):
                                st = {"L"}
                        if m.get("k") == "bin" and m.get("op") in ("=", "+=", "-="):
                            l = strip(m["a"], lvalue_to_rvalue=False)
                            if l.get("k") == "mem" and l.get("f") in ("len", "off", "max") and norm(show(l["b"], f)) == obj and not (bid == sb and m is sn):
                                st = {"W"}
                    if bid == sb and i == si:
                        st = {"W"}
                key = frozenset(st)
                outs = []
                fr = is_frag(blk.term["cond"]) if blk.term and blk.term.get("cond") is not None and len(blk.succ) == 2 else None
                for k, s2 in enumerate(blk.succ):
                    if s2 is None:
                        continue
                    o = st
                    if fr == obj and k == 1:
                        o = {"L"}
                    outs.append((s2, o))
                if done.get(bid) == key:
                    continue
                done[bid] = key
                for s2, o in outs:
                    if not o <= IN[s2]:
                        IN[s2] |= o
                        work.append(s2)
                    elif s2 not in done:
                        work.append(s2)
            res.ob("%s:%s #%d" % (f.qn, norm(show(sn, f))[:50], n), not bad, f, sn.get("l") or f.line,
                   "" if not bad else "`%s` changes the capacity on a path where the content of %s may wrap (no not-fragmented edge of a `max - len < off` test and no mpt_queue_align(.., 0) since the last change): the wrapped bytes are not where the new capacity says" % (norm(show(sn, f)), obj))
    if n < 1:
        raise Broken("MAXSTORE: no store to a queue capacity found")
    return res


def run_fragfirst(prog, ctx=None):
    """FRAGFIRST: a function that is handed a fragment list (a `struct iovec *` parameter with a count) does not decide an
    exit by the length of the first fragment alone: no branch outside every loop tests `V->iov_len` / `V[0].iov_len` of
    the unmoved parameter with an edge that leads straight to a return.  An empty first fragment says nothing about the
    fragments behind it; the same bytes cut differently would be searched."""
    res = Result("FRAGFIRST")
    files = set(ctx.get("files", [])) if ctx else None
    for f in funcs_of(prog, files):
        vecs = {}
        for k, p in enumerate(f.params):
            T = f.T(p.get("t"))
            if T.get("k") == "ptr" and "iovec" in f.T(T.get("to")).get("s", "") and "id" in p and k + 1 < len(f.params):
                # a list: the pointer is followed by its count (an unsigned 64-bit parameter); a lone `const struct iovec *` is one area
                NT = f.T(f.params[k + 1].get("t"))
                if NT.get("k") == "int" and not NT.get("signed") and NT.get("bits", 0) >= 64:
                    vecs[p["id"]] = p.get("n")
        if not vecs:
            continue
        # parameters that are stepped are cursors, not the list head
        for b, i, n in f.walk_all():
            if n.get("k") == "un" and n.get("op") in ("++", "--", "post++", "post--", "pre++", "pre--"):
                x = strip(n["e"], lvalue_to_rvalue=False)
                if x.get("k") == "ref":
                    vecs.pop(x["d"].get("id"), None)
            if n.get("k") == "bin" and n.get("op") in ("=", "+=", "-="):
                x = strip(n["a"], lvalue_to_rvalue=False)
                if x.get("k") == "ref":
                    vecs.pop(x["d"].get("id"), None)
        if not vecs:
            continue
        loops = natural_loops(f)
        inloop = set()
        for body in loops.values():
            inloop |= set(body)
        bad = None
        for bid, blk in sorted(f.blocks.items()):
            if bid in inloop or not (blk.term and blk.term.get("cond") is not None and len(blk.succ) == 2):
                continue
            c = strip(blk.term["cond"], all_casts=True)
            if blk.term.get("cls") == "BinaryOperator":
                if c.get("k") == "bin" and c.get("op") in ("&&", "||"):
                    c = strip(c["a"], all_casts=True)
            else:
                while c.get("k") == "bin" and c.get("op") in ("&&", "||"):
                    c = strip(c["b"], all_casts=True)
            hit = None
            for m in walk(c):
                if m.get("k") == "mem" and m.get("f") == "iov_len":
                    base = strip(m["b"], all_casts=True)
                    if m.get("arrow") and base.get("k") == "ref" and base["d"].get("id") in vecs:
                        hit = m
                    if base.get("k") == "idx" and cval(base["i"]) == 0 and strip(base["a"], all_casts=True).get("k") == "ref" \
                            and strip(base["a"], all_casts=True)["d"].get("id") in vecs:
                        hit = m
                    if base.get("k") == "un" and base.get("op") == "*" and strip(base["e"], all_casts=True).get("k") == "ref" \
                            and strip(base["e"], all_casts=True)["d"].get("id") in vecs:
                        hit = m
            if hit is None:
                continue
            for s2 in blk.succ:
                if s2 is not None and any(e.get("k") == "ret" for e in f.blocks[s2].el) and s2 not in inloop:
                    bad = (blk, hit)
        res.ob("%s:no exit on the first fragment alone" % f.qn, bad is None, f, (bad[1].get("l") if bad else f.line) or f.line,
               "" if bad is None else "an exit of %s is decided by `%s`, the length of the first fragment only: the fragments behind an empty first one are never looked at" % (f.qn, norm(show(bad[1], f))))
    return res


def run_roomcode(prog, ctx=None):
    """ROOMCODE (contradiction inside one function): the local whose zero test leads to `return MissingBuffer` somewhere in a
    function is its count of room for output; every other exit taken on that same zero test reports MissingBuffer as well.
    The COBS decoder leaves its loops on `!proc` twice: once with MissingBuffer, which makes the caller provide room, once
    with 0, which says "incomplete, feed me more" although the byte at hand was read and dropped - the caller retries for
    ever and a well-formed frame is neither delivered nor refused."""
    res = Result("ROOMCODE")
    files = set(ctx.get("files", [])) if ctx else None
    for f in funcs_of(prog, files):
        groups = {}
        for bid, blk in sorted(f.blocks.items()):
            t = blk.term
            if not (t and t.get("cond") is not None and len(blk.succ) == 2 and blk.succ[0] is not None and t.get("cls") == "IfStmt"):
                continue
            c = strip(t["cond"], all_casts=True)
            if not (c.get("k") == "un" and c.get("op") == "!"):
                continue
            v = strip(c["e"], all_casts=True)
            if not (v.get("k") == "ref" and v["d"].get("dk") in ("local", "param") and "id" in v["d"]):
                continue
            tb = f.blocks[blk.succ[0]]
            rets = [e for e in tb.el if e.get("k") == "ret" and e.get("e") is not None and cval(e["e"]) is not None]
            if not rets:
                continue
            groups.setdefault((v["d"]["id"], v["d"].get("n")), []).append((int(cval(rets[0]["e"])), rets[0]))
        for (vid, name), exits in sorted(groups.items(), key=lambda kv: str(kv[0][1])):
            if not any(v == -0x11 for v, _ in exits):
                continue
            for k, (v, e) in enumerate(sorted(exits, key=lambda x: x[1].get("l") or 0)):
                ok = v == -0x11
                res.ob("%s:exit %d on !%s reports the missing room" % (f.qn, k, name), ok, f, e.get("l") or f.line,
                       "" if ok else "%s answers %d where `!%s` holds, and MissingBuffer for the same condition elsewhere: without room the call cannot make progress, an answer that asks for more input makes the caller retry for ever" % (f.qn, v, name))
    return res


def run_alignidle(prog, ctx=None):
    """ALIGNIDLE: the COBS decoders move the start of the message forward to an aligned address (`done += post; proc -= post`)
    while the message is still empty.  That gives away room for decoded bytes, which is harmless between frames only: the
    statement that lowers the room counter inside the branch taken for an empty message is guarded by a test that no block is
    open (`!code`) as well.  On re-entry with an open block and no byte decoded yet the padding would eat the slot of the
    consumed code byte, the only room for the first data byte."""
    res = Result("ALIGNIDLE")
    files = set(ctx.get("files", [])) if ctx else None
    n = 0
    for f in funcs_of(prog, files):
        # the room counter: the local whose zero test leads to `return MissingBuffer`
        ec = prog.enum_consts
        mb = ec.get("MPT_ERROR(MissingBuffer)", ec.get("MissingBuffer", -0x11))
        room = set()
        for bid, blk in f.blocks.items():
            t = blk.term
            if not (t and t.get("cond") is not None and len(blk.succ) == 2 and blk.succ[0] is not None):
                continue
            c = strip(t["cond"], all_casts=True)
            if c.get("k") == "un" and c.get("op") == "!":
                v = strip(c["e"], all_casts=True)
                if v.get("k") == "ref" and "id" in v["d"]:
                    for e in f.blocks[blk.succ[0]].el:
                        if e.get("k") == "ret" and e.get("e") is not None and cval(e["e"]) == -0x11:
                            room.add(v["d"]["id"])
        if not room:
            continue
        dom = f.dominators()
        for b, i, e in f.elements():
            for m in walk_own(e):
                if not (m.get("k") == "bin" and m.get("op") == "-="):
                    continue
                l = strip(m["a"], lvalue_to_rvalue=False)
                if not (l.get("k") == "ref" and l["d"].get("id") in room):
                    continue
                if cval(m["b"]) is not None:
                    continue
                # guarded by an empty-message test?  then a no-open-block test has to guard it too
                texts = []
                for pb in dom[b.id]:
                    pblk = f.blocks[pb]
                    if pblk.term and pblk.term.get("cond") is not None and pb != b.id:
                        texts.append(norm(show(pblk.term["cond"], f)))
                empty = [t for t in texts if "!mlen" in t.replace(" ", "") or "mlen==0" in t.replace(" ", "")]
                if not empty:
                    continue
                n += 1
                idle = any("!code" in t.replace(" ", "") or "code==0" in t.replace(" ", "") for t in texts)
                res.ob("%s:%s between frames only" % (f.qn, norm(show(m, f))), idle, f, m.get("l") or f.line,
                       "" if idle else "`%s` gives away room for decoded bytes in the branch for an empty message without a test that no block is open (`!code`): on re-entry inside a frame the slot of the consumed code byte is lost" % norm(show(m, f)))
    if n < 1:
        raise Broken("ALIGNIDLE: no alignment step found in the decoders")
    return res


def run_deadcopy(prog, ctx=None):
    """DEADCOPY: a memcpy / memmove / memset whose length the interval analysis pins to zero on every state that reaches it copies
    nothing - the statement is there to move bytes, so the length is the wrong variable (a parameter that is 0 in this
    branch where the local count was meant).  Calls in code the analysis does not reach are not judged."""
    from .ival import Analysis
    res = Result("DEADCOPY")
    files = set(ctx.get("files", [])) if ctx else None
    for f in funcs_of(prog, files):
        sites = []
        for b, i, e in f.elements():
            for n in walk_own(e):
                if n.get("k") == "call" and callee_name(n) in ("memcpy", "memmove", "memset") and len(n.get("args", [])) == 3:
                    sites.append((b.id, i, n))
        if not sites:
            continue
        try:
            an = Analysis(prog, f).run()
        except Exception as ex:
            res.notes.append("%s: interval analysis failed (%s)" % (f.qn, ex))
            continue
        for k, (bid, i, n) in enumerate(sites):
            if not an.reachable(bid) or cval(n["args"][2]) is not None:
                continue
            v = an.value_at(bid, i, n["args"][2])
            if v is None:
                continue
            dead = v.lo == 0 and v.hi == 0
            res.ob("%s:%s #%d moves something" % (f.qn, callee_name(n), k), not dead, f, n.get("l") or f.line,
                   "" if not dead else "the length `%s` of `%s` is 0 in every state that reaches it: nothing is copied" % (norm(show(n["args"][2], f)), norm(show(n, f))[:80]))
    return res


def run_readbase(prog, ctx=None):
    """READBASE: mpt_message_read(&M, n, buf) copies the next n bytes to buf and moves the cursor M behind them.  What follows
    works on buf: a later call that is handed `M.base` together with the same length n takes the bytes *behind* what was
    read for the bytes that were read (and may read past the fragment).  The contiguous branch next to it, where nothing was
    read, rightly uses `M.base` - the slip is a copy between the two."""
    res = Result("READBASE")
    files = set(ctx.get("files", [])) if ctx else None
    for f in funcs_of(prog, files):
        reads = []
        for b, i, e in f.elements():
            if e.get("k") == "call" and callee_name(e) == "mpt_message_read" and len(e.get("args", [])) == 3 and cval(e["args"][2]) != 0:
                a0 = strip(e["args"][0], all_casts=True)
                if a0.get("k") == "un" and a0.get("op") == "&":
                    m = strip(a0["e"], lvalue_to_rvalue=False)
                    if m.get("k") == "ref" and "id" in m["d"]:
                        reads.append((b.id, i, e, m["d"]["id"], m["d"].get("n"), norm(show(strip(e["args"][1], all_casts=True), f))))
        for k, (bid, i, e, mid, mname, ntext) in enumerate(reads):
            later = set()
            for s0 in f.blocks[bid].succ:
                if s0 is not None:
                    later |= set(f.reachable_from(s0))
            bad = None
            for b2, i2, e2 in f.elements():
                if not (b2.id in later or (b2.id == bid and i2 > i)):
                    continue
                if e2.get("k") != "call" or (callee_name(e2) or "").startswith("mpt_message_"):
                    continue
                args = e2.get("args", [])
                has_base = any(strip(a, all_casts=True).get("k") == "mem" and strip(a, all_casts=True).get("f") == "base"
                               and strip(strip(a, all_casts=True)["b"], all_casts=True).get("k") == "ref"
                               and strip(strip(a, all_casts=True)["b"], all_casts=True)["d"].get("id") == mid for a in args)
                same_n = any(norm(show(strip(a, all_casts=True), f)) == ntext for a in args)
                if has_base and same_n and bad is None:
                    bad = e2
            res.ob("%s:read %d of %s" % (f.qn, k, mname), bad is None, f, (bad.get("l") if bad else e.get("l")) or f.line,
                   "" if bad is None else "`%s` is handed %s.base with the length %s that mpt_message_read() (line %s) has already consumed into its buffer: the cursor stands behind those bytes" % (
                       norm(show(bad, f))[:70], mname, ntext, e.get("l")))
    return res


def run_deadcall(prog, ctx=None):
    """DEADCALL: a call whose result is ignored is made for its effect.  Where the interval analysis of the callee with the
    caller's arguments reaches only returns that refuse (`return 0` / false as a literal, or a wrapper's `return g(..) ? true
    : false` around a call of which the same holds), while the callee has other returns, the statement can only be refused
    and does nothing: `curr->set_name(0)` ("mark element as unused") passes the default length -1 with a null name, which
    mpt_identifier_set() refuses before it touches the identifier - the removed element keeps its name."""
    from .ival import Analysis, Summaries, join
    from .rules_effect import call_sites
    res = Result("DEADCALL")
    files = set(ctx.get("files", [])) if ctx else None
    sm = Summaries(prog)

    def refusal_only(g, argvals, depth=0):
        if g.nocfg or len(g.blocks) > 80 or len(g.params) != len(argvals) or depth > 2:
            return False
        try:
            an = Analysis(prog, g, summaries=sm)
            st = an.entry_state()
            for p, v in zip(g.params, argvals):
                if p["id"] in an._tracked:
                    st[("v", p["id"])] = an.convert(v, g.T(p["t"]))
            an.run(state=st)
        except Exception:
            return False
        rets = [(b, i, e) for b, i, e in g.elements() if e.get("k") == "ret" and e.get("e") is not None]
        reached = [(b, i, e) for b, i, e in rets if an.reachable(b.id) and (b.id, i) in an.pre]
        if not reached:
            return False
        # a function that refuses has other ways out as well; a forwarder with a single return is judged by what it forwards to
        if len(reached) == len(rets) and not (len(rets) == 1 and cval(rets[0][2]["e"]) is None):
            return False
        for b, i, e in reached:
            x = strip(e["e"], all_casts=True)
            if cval(x) == 0:
                continue
            if x.get("k") == "cond" and cval(x["a"]) not in (None, 0) and cval(x["b"]) == 0:
                x = strip(x["c"], all_casts=True)
            if x.get("k") == "call" and x.get("fn"):
                gs = prog.resolve_call(g, x)
                if gs:
                    vals = [an.value_at(b.id, i, a) for a in x.get("args", [])]
                    if all(v is not None for v in vals) and refusal_only(gs[0], vals, depth + 1):
                        continue
            return False
        return True

    for f in funcs_of(prog, files):
        an = None
        k = 0
        # calls whose result is ignored: statements of their own (not part of another element, not a branch operand) or cast to void
        els = [e for b, i, e in f.elements()]
        nested = set()
        for e0 in els:
            first = True
            for n0 in walk(e0):
                if first:
                    first = False
                    continue
                if "sid" in n0 and not (e0.get("k") == "cast" and e0.get("ck") == "ToVoid"):
                    nested.add(n0["sid"])
        for blk in f.blocks.values():
            if blk.term and isinstance(blk.term.get("cond"), dict):
                for n0 in walk(blk.term["cond"]):
                    if "sid" in n0:
                        nested.add(n0["sid"])
        for e in els:
            if e.get("k") != "call" or not e.get("fn") or e.get("sid") in nested:
                continue
            nm = callee_name(e) or "?"
            gs = prog.resolve_call(f, e)
            if not gs or gs[0].nocfg or gs[0].T(gs[0].ret).get("k") not in ("ptr", "bool"):
                continue
            pos = None
            for b, i, e3 in f.elements():
                if e3 is e:
                    pos = (b.id, i)
            if pos is None:
                continue
            if an is None:
                try:
                    an = Analysis(prog, f, summaries=sm).run()
                except Exception:
                    an = False
            if not an or not an.reachable(pos[0]):
                continue
            if any(f.T(strip(a, all_casts=True).get("t")).get("k") not in ("int", "ptr", "bool", "enum") and cval(a) is None for a in e.get("args", [])):
                continue          # objects handed over by value or reference are not modelled
            vals = [an.value_at(pos[0], pos[1], a) for a in e.get("args", [])]
            if any(v is None for v in vals):
                continue
            dead = refusal_only(gs[0], vals)
            k += 1
            res.ob("%s:%s #%d can succeed" % (f.qn, (callee_name(e) or nm), k), not dead, f, e.get("l") or f.line,
                   "" if not dead else "`%s` ignores its result, and with these arguments (%s) the callee reaches only its refusing returns: the statement has no effect" % (
                       norm(show(e, f))[:70], ", ".join(str(v) for v in vals)))
    return res
