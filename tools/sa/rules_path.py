"""Path / effect rules shared by several properties: DIVZERO, OUTPARAM, STATUSPOLARITY, DECWRAP, NARROW."""
from .facts import strip, cval, walk, walk_own, show, callee_name
from .ival import Analysis, AV, Summaries, join, type_range
from .core import Result, Broken, norm
from .rules_effect import root_of, is_deref_store


def funcs_of(prog, files=None, names=None):
    out = []
    for f in prog.functions.values():
        if f.nocfg:
            continue
        if files is not None and f.file not in files:
            continue
        if names is not None and f.name not in names and f.qn not in names:
            continue
        out.append(f)
    return sorted(out, key=lambda f: (f.file, f.line))


def run_divzero(prog, ctx=None):
    """DIVZERO: the divisor of every / and % excludes 0 on every path"""
    res = Result("DIVZERO")
    files = set(ctx.get("files", [])) if ctx else None
    for f in funcs_of(prog, files):
        divs = [n for b, i, n in f.walk_all() if n.get("k") == "bin" and n.get("op") in ("/", "%", "/=", "%=") and cval(n) is None
                and f.T(n.get("t")).get("k") != "float"]
        if not divs:
            continue
        an = Analysis(prog, f).run()
        seen = set()
        for (bid, idx), pre in sorted(an.pre.items()):
            el = f.blocks[bid].el[idx]
            for n in walk_own(el):
                if n.get("k") == "bin" and n.get("op") in ("/", "%", "/=", "%=") and cval(n) is None and id(n) not in seen \
                        and f.T(n.get("t")).get("k") != "float":
                    seen.add(id(n))
                    if cval(n["b"]) is not None:
                        ok = cval(n["b"]) != 0
                        v = AV(cval(n["b"]), cval(n["b"]))
                    else:
                        v = an.val(bid, idx, n["b"])
                        ok = v is not None and not v.contains(0)
                    res.ob("%s:%s" % (f.qn, norm(show(n, f))), ok, f, n.get("l", 0),
                           "" if ok else "divisor %s may be zero (%s)" % (norm(show(n["b"], f)), v), {"divisor": v.tojson() if v else None})
    return res


# ---- out-parameter summaries -------------------------------------------------

class OutSummary:
    """per function: for every pointer parameter, the return classes on which it is / is not written"""

    def __init__(self, prog):
        self.prog = prog
        self.memo = {}

    def get(self, g):
        k = g.key()
        if k in self.memo:
            return self.memo[k]
        self.memo[k] = None
        if g.nocfg or len(g.blocks) > 150:
            return None
        pids = {p["id"]: i for i, p in enumerate(g.params) if g.T(p["t"]).get("k") == "ptr" and not g.T(g.pointee(p["t"])).get("const")}
        if not pids:
            self.memo[k] = {}
            return {}
        PK = Analysis.PK

        def hook(an, b, i, el, st):
            w = st.get(PK) or frozenset()
            for n in walk(el):
                tgt = None
                if n.get("k") == "bin" and n["op"].endswith("=") and n["op"] not in ("==", "!=", "<=", ">="):
                    tgt = n["a"]
                elif n.get("k") == "un" and n.get("op") in ("++", "--"):
                    tgt = n["e"]
                if tgt is not None and is_deref_store(tgt):
                    r = root_of(tgt)
                    if r in pids:
                        w = w | {pids[r]}
                if n.get("k") == "call" and callee_name(n) in ("memcpy", "memset", "memmove") and n.get("args"):
                    r = root_of(n["args"][0])
                    if r in pids:
                        w = w | {pids[r]}
            st[PK] = w

        an = Analysis(self.prog, g, hook=hook)
        st0 = an.entry_state()
        st0[PK] = frozenset()
        an.run(state=st0)
        out = {i: {"written": None, "unwritten": None} for i in pids.values()}
        from .rules_effect import return_cases
        for el, vexpr, pos, parts in return_cases(an, g):
            for pk, st in parts:
                if pk is None or pk == "*":
                    continue
                rv = an.ev(vexpr, dict(st), True, g.blocks[pos[0]].el[pos[1]])
                for i in pids.values():
                    # a parameter that is null on this path cannot be written
                    pv = st.get(("v", g.params[i]["id"]))
                    if pv is not None and pv.lo == 0 and pv.hi == 0:
                        continue
                    slot = "written" if i in pk else "unwritten"
                    out[i][slot] = join(out[i][slot], rv)
        self.memo[k] = out
        return out


def run_outparam_ignored(prog, ctx=None):
    """OUTPARAM (caller side): the result of a callee that can return without writing *out is not discarded
    when the caller then reads the (otherwise uninitialised) local it passed"""
    res = Result("OUTPARAM")
    files = set(ctx.get("files", [])) if ctx else None
    osum = OutSummary(prog)
    for f in funcs_of(prog, files):
        # uninitialised locals
        uninit = {}
        for b, i, n in f.walk_all():
            if n.get("k") == "decl":
                for v in n["vars"]:
                    if v.get("init") is None and not v.get("static") and f.T(v["t"]).get("k") in ("int", "ptr", "float", "enum", "bool"):
                        uninit[v["id"]] = v["n"]
        if not uninit:
            continue
        assigned = set()
        for b, i, n in f.walk_all():
            if n.get("k") == "bin" and n["op"].endswith("=") and n["op"] not in ("==", "!=", "<=", ">="):
                l = strip(n["a"], lvalue_to_rvalue=False)
                if l.get("k") == "ref" and "id" in l["d"]:
                    assigned.add(l["d"]["id"])
        for b, i, el in f.elements():
            if el.get("k") != "call" or not el.get("fn", {}).get("inroot"):
                continue
            cs = prog.resolve_call(f, el)
            if not cs:
                continue
            outs = []
            for ai, a in enumerate(el.get("args", [])):
                s = strip(a, all_casts=True)
                if s.get("k") == "un" and s.get("op") == "&":
                    x = strip(s["e"], lvalue_to_rvalue=False)
                    if x.get("k") == "ref" and x["d"].get("id") in uninit and x["d"]["id"] not in assigned:
                        outs.append((ai, x["d"]["id"]))
            if not outs:
                continue
            summ = osum.get(cs[0])
            if not summ:
                continue
            # is the call's value used?  (a root CFG element that is not nested in a later element of the block)
            used = False
            for e2 in b.el[i + 1:]:
                for n in walk(e2):
                    if n is not el and n.get("sid") == el.get("sid") and n.get("k") == "call":
                        used = True
            if b.term and b.term.get("cond") is not None:
                for n in walk(b.term["cond"]):
                    if n.get("sid") == el.get("sid"):
                        used = True
            for ai, vid in outs:
                s = summ.get(ai)
                if s is None:
                    continue
                unw = s["unwritten"]
                key = "%s:%s:out %s" % (f.qn, norm(show(el, f)), uninit[vid])
                if unw is None:
                    res.ob(key, True, f, el.get("l", 0), detail={"callee_writes": "on every return"})
                    continue
                # read later?
                read = any(n.get("k") == "ref" and n["d"].get("id") == vid for bb, ii, n in f.walk_all()
                           if not (n.get("k") == "ref" and False))
                ok = used or not read
                res.ob(key, ok, f, el.get("l", 0),
                       "" if ok else "%s() can return %s without writing *%s, its result is discarded and %s is read afterwards" % (
                           cs[0].qn, unw, cs[0].params[ai]["n"], uninit[vid]),
                       {"unwritten_on_return": unw.tojson()})
    return res


def run_statuspolarity(prog, ctx=None):
    """STATUSPOLARITY: callees that return negative errors *and* positive success values are not tested by truthiness"""
    res = Result("STATUSPOLARITY")
    files = set(ctx.get("files", [])) if ctx else None
    callees = set(ctx.get("callees", [])) if ctx and ctx.get("callees") else None
    sm = Summaries(prog)
    cache = {}

    def retsum(g):
        k = g.key()
        if k not in cache:
            cache[k] = None
            if g.nocfg or len(g.blocks) > 120:
                return None
            an = Analysis(prog, g, summaries=sm).run()
            r = None
            for (bid, idx), pre in an.pre.items():
                el = g.blocks[bid].el[idx]
                if el.get("k") == "ret" and el.get("e") is not None:
                    r = join(r, an.val(bid, idx, el["e"]))
            cache[k] = r
        return cache[k]

    for f in funcs_of(prog, files):
        for bid, b in f.blocks.items():
            if not b.term or b.term.get("cond") is None:
                continue
            c = strip(b.term["cond"], all_casts=True)
            while c.get("k") == "bin" and c.get("op") in ("||", "&&"):
                c = strip(c["b"], all_casts=True)
            neg = False
            while c.get("k") == "un" and c.get("op") == "!":
                neg = not neg
                c = strip(c["e"], all_casts=True)
            accepted = False
            if c.get("k") == "bin" and c.get("op") in ("<", ">=", "<=", ">") and cval(c["b"]) == 0:
                # the accepted forms `call < 0` / `call >= 0` are counted as instances of the rule
                inner = strip(c["a"], all_casts=True)
                if inner.get("k") == "bin" and inner.get("op") == "=":
                    inner = strip(inner["b"], all_casts=True)
                if inner.get("k") == "call":
                    c = inner
                    accepted = True
            if c.get("k") != "call" or not c.get("fn", {}).get("inroot"):
                continue
            cs = prog.resolve_call(f, c)
            if not cs:
                continue
            g = cs[0]
            if callees is not None and g.name not in callees:
                continue
            RT = g.T(g.ret)
            if RT.get("k") != "int" or not RT.get("signed"):
                continue
            r = retsum(g)
            if r is None:
                continue
            mixed = r.lo < 0 and r.hi > 0
            if accepted:
                if mixed:
                    res.ob("%s:%s compared with 0" % (f.qn, norm(show(c, f))), True, f, c.get("l", 0))
                continue
            res.ob("%s:%s%s" % (f.qn, "!" if neg else "", norm(show(c, f))), not mixed, f, c.get("l", 0),
                   "" if not mixed else "%s() returns %s (negative = error, 0 and positive = success) but is tested by truthiness" % (g.qn, r),
                   {"returns": r.tojson()})
    return res


def run_decwrap(prog, ctx=None):
    """DECWRAP: no unsigned pre/post decrement of a value that may be 0 in a loop condition"""
    res = Result("DECWRAP")
    files = set(ctx.get("files", [])) if ctx else None
    for f in funcs_of(prog, files):
        cands = []
        for bid, b in f.blocks.items():
            if b.term and b.term.get("cls") in ("WhileStmt", "ForStmt", "DoStmt") and b.term.get("cond") is not None:
                for n in walk(b.term["cond"]):
                    if n.get("k") == "un" and n.get("op") == "--" and not n.get("post"):
                        T = f.T(n["e"].get("t"))
                        if T.get("k") == "int" and not T.get("signed"):
                            cands.append((bid, b, n))
        if not cands:
            continue
        an = Analysis(prog, f).run()
        for bid, b, n in cands:
            # state before the condition element
            idx = len(b.el) - 1
            v = an.val(bid, idx, n["e"]) if idx >= 0 else None
            ok = v is not None and not v.contains(0)
            res.ob("%s:%s" % (f.qn, norm(show(b.term["cond"], f))), ok, f, n.get("l", 0),
                   "" if ok else "loop condition pre-decrements unsigned %s which may be 0 (%s): wraps to the maximum and skips the last element otherwise" % (
                       norm(show(n["e"], f)), v), {"value": v.tojson() if v else None})
    return res
