"""C15 reference counting: REFWRITE (who may write the counter), REFSHAPE (raise/lower), UNREFIMPL, REFREPLACE; vtable extraction."""
from .facts import strip, cval, walk, walk_own, show, callee_name
from .ival import Analysis, AV, join
from .core import Result, Broken, norm
from .rules_path import funcs_of
from .rules_effect import root_of, return_cases


def vtables(prog):
    """[(global dict, unit, vtable record name, slot path, Func or None, fn name)] for every initialiser of a struct of function pointers"""
    out = []
    for u, g in prog.globals:
        T = u.types[g["t"]]
        if T.get("k") != "record":
            continue
        init = g.get("init")
        if not init or init.get("k") != "init":
            continue

        def rec(init, rname, prefix):
            r = prog.records.get(rname)
            if not r:
                return
            for idx, e in enumerate(init.get("elts", [])):
                if idx >= len(r["fields"]):
                    break
                fld = r["fields"][idx]
                FT = r["unit"].types[fld["t"]]
                if e.get("k") == "init" and FT.get("k") == "record":
                    rec(e, FT["name"], prefix + fld["n"] + ".")
                    continue
                s = strip(e, all_casts=True)
                if s.get("k") == "ref" and s["d"].get("dk") == "fn":
                    qn = s["d"].get("qn") or s["d"]["n"]
                    cands = prog.by_qn.get(qn, [])
                    fn = None
                    for c in cands:
                        if c.file == g["file"] or not c.static:
                            fn = c
                            break
                    out.append((g, u, rname, prefix + fld["n"], fn, qn))
                elif cval(e) == 0 or s.get("k") == "zero":
                    out.append((g, u, rname, prefix + fld["n"], None, None))

        rec(init, T["name"], "")
    return out


def is_refcount_mem(n):
    return n.get("k") == "mem" and n.get("f") == "_val" and n.get("rec", "").split("::")[-1] in ("mpt_refcount", "refcount")


def run_refwrite(prog, ctx=None):
    """REFWRITE: the counter field of struct refcount is written only by the refcount primitives, or set to a positive constant when an object is created"""
    res = Result("REFWRITE")
    n = 0
    for f in sorted(prog.functions.values(), key=lambda f: (f.file, f.line)):
        if f.nocfg:
            continue
        for b, i, e in f.elements():
            for m in walk_own(e):
                tgt = None
                const_init = False
                if m.get("k") == "bin" and m["op"].endswith("=") and m["op"] not in ("==", "!=", "<=", ">="):
                    tgt = strip(m["a"], lvalue_to_rvalue=False)
                    const_init = m["op"] == "=" and (cval(m["b"]) or 0) > 0
                elif m.get("k") == "un" and m.get("op") in ("++", "--"):
                    tgt = strip(m["e"], lvalue_to_rvalue=False)
                elif m.get("k") == "ctorinit" and m.get("f") == "_val" and "refcount" in f.d.get("cls", ""):
                    n += 1
                    res.ob("%s:ctor-init" % f.qn, True, f, m.get("l", 0))
                    continue
                if tgt is None or not is_refcount_mem(tgt):
                    continue
                n += 1
                inprim = f.file.endswith("misc/refcount.c") or f.d.get("cls", "").split("::")[-1] == "refcount"
                ok = inprim or const_init
                res.ob("%s:%s" % (f.qn, norm(show(m, f))), ok, f, m.get("l", 0),
                       "" if ok else "reference counter written outside mpt_refcount_raise/lower (only a positive constant on creation is accepted)")
    if n < 6:
        raise Broken("REFWRITE: %d counter writes found" % n)
    return res


def run_refshape(prog, ctx=None):
    """REFSHAPE: raise refuses a dead (0) counter and an overflowing one (undoing the increment), lower refuses at 0;
    checked as interval facts with a ghost net-change counter as partition key"""
    res = Result("REFSHAPE")
    for name, succ_delta in (("mpt_refcount_raise", 1), ("mpt_refcount_lower", -1)):
        f = prog.func(name)
        if f is None:
            raise Broken("anchor missing: " + name)
        PK = Analysis.PK
        pre_val = {}

        def hook(an, b, i, el, st):
            d = st.get(PK) or 0
            for m in walk_own(el):
                if m.get("k") == "un" and m.get("op") in ("++", "--") and is_refcount_mem(strip(m["e"], lvalue_to_rvalue=False)):
                    d += 1 if m["op"] == "++" else -1
            st[PK] = d

        an = Analysis(prog, f, hook=hook)
        st0 = an.entry_state()
        st0[PK] = 0
        an.run(state=st0)
        # every increment / decrement happens with the counter known non-zero
        for (bid, idx), parts in sorted(an.pre_parts.items()):
            el = f.blocks[bid].el[idx]
            for m in walk_own(el):
                if m.get("k") == "un" and m.get("op") in ("++", "--") and is_refcount_mem(strip(m["e"], lvalue_to_rvalue=False)):
                    for pk, st in parts.items():
                        if pk != 0:
                            continue      # the undo step after a detected wrap
                        v = an.ev(m["e"], dict(st), True, el)
                        ok = v.lo >= 1
                        res.ob("%s:%s on live counter" % (name, norm(show(m, f))), ok, f, m.get("l", 0),
                               "" if ok else "counter modified while it may be 0 (%s): a dead object is revived / the count wraps below zero" % v)
        for el, vexpr, pos, parts in return_cases(an, f):
            for pk, st in parts:
                rv = an.ev(vexpr, dict(st), True, f.blocks[pos[0]].el[pos[1]])
                key = "%s:return %s [net %+d]" % (name, norm(show(vexpr, f)), pk or 0)
                if name == "mpt_refcount_raise":
                    if pk == 0:
                        ok = rv.lo == 0 and rv.hi == 0
                        why = "returns %s without having kept an increment: callers take any non-zero result as a new reference" % rv
                    else:
                        ok = pk == 1 and rv.lo >= 1
                        why = "keeps a net change of %+d and returns %s: success must return a non-zero count" % (pk, rv)
                else:
                    if pk == 0:
                        ok = rv.lo > 0        # error marker (all ones), never 0 = "last reference gone"
                        why = "returns %s without lowering the counter: 0 would make the caller destroy a live object" % rv
                    else:
                        ok = pk == -1
                        why = "net change %+d" % pk
                res.ob(key, ok, f, vexpr.get("l", 0), "" if ok else why, {"returns": rv.tojson(), "net_change": pk})
    return res


TEARDOWN = ("free", "close", "fclose", "dlclose", "munmap")


def run_unrefimpl(prog, ctx=None):
    """UNREFIMPL: in every function stored in an `unref` slot whose object carries a refcount, teardown is reachable only
    on the edge where mpt_refcount_lower() returned 0"""
    res = Result("UNREFIMPL")
    seen = set()
    n = 0
    vt = vtables(prog)
    for g, u, rname, slot, fn, qn in vt:
        if not slot.endswith("unref") or fn is None or fn.key() in seen:
            continue
        seen.add(fn.key())
        # counted objects only: the sibling addref slot raises a counter (unique objects answer addref with 0 and unref destroys them)
        sib = [x for x in vt if x[0] is g and x[3] == slot[:-len("unref")] + "addref" and x[4] is not None]
        counted = False
        for x in sib:
            for b, i, e in x[4].elements():
                if e.get("k") == "call" and (callee_name(e) == "mpt_refcount_raise" or (callee_name(e) or "").endswith("refcount::raise")):
                    counted = True
        if not counted:
            continue
        lowers = []
        for b, i, e in fn.elements():
            if e.get("k") == "call" and (callee_name(e) == "mpt_refcount_lower" or (callee_name(e) or "").endswith("refcount::lower")):
                lowers.append((b, i, e))
        tear = [(b, i, e) for b, i, e in fn.elements() if (e.get("k") == "call" and callee_name(e) in TEARDOWN) or e.get("k") == "delete"]
        if not tear:
            continue
        n += 1
        key = "%s (%s.%s)" % (fn.qn, g["n"], slot)
        if not lowers:
            res.ob(key + ":counts", False, fn, fn.line, "releases the object (%s) without consulting a reference count" % norm(show(tear[0][2], fn))[:40])
            continue
        # the branch on the lower() result
        lb, li, le = lowers[0]
        dom = fn.dominators()
        tb = None
        for bid, b in fn.blocks.items():
            if b.term and b.term.get("cond") is not None and len(b.succ) == 2:
                c = b.term["cond"]
                if any(m.get("k") == "call" and m.get("sid") == le.get("sid") for m in walk(c)):
                    tb = b
        if tb is None:
            res.ob(key + ":tested", False, fn, le.get("l", 0), "result of the counter decrement is not tested before the teardown")
            continue
        c = strip(tb.term["cond"], all_casts=True)
        neg = False
        while c.get("k") == "un" and c.get("op") == "!":
            neg = not neg
            c = strip(c["e"], all_casts=True)
        if c.get("k") == "bin" and c.get("op") in ("==", "!=") and cval(c["b"]) == 0:
            if c["op"] == "==":
                neg = not neg
        # edge taken when references remain (result non-zero)
        remain = tb.succ[1] if neg else tb.succ[0]
        bad = []
        if remain is not None:
            reach = fn.reachable_from(remain, avoid={tb.id})
            gone = tb.succ[0] if neg else tb.succ[1]
            for b, i, e in tear:
                if b.id in reach and not (gone is not None and b.id in fn.reachable_from(gone) and b.id not in fn.reachable_from(remain, avoid={gone})):
                    bad.append(e)
                if tb.id not in dom[b.id]:
                    bad.append(e)
        ok = not bad
        res.ob(key + ":teardown-only-at-zero", ok, fn, le.get("l", 0),
               "" if ok else "%s is reachable while other references remain (counter result non-zero)" % norm(show(bad[0], fn))[:50])
    if n < 4:
        raise Broken("UNREFIMPL: only %d refcounted unref implementations found" % n)
    return res


def run_refreplace(prog, ctx=None):
    """REFREPLACE: when a slot holding a counted reference is overwritten, the value loaded from it before is released with
    unref (never addref); a retain of the new value has its result tested"""
    res = Result("REFREPLACE")
    files = set(ctx.get("files", [])) if ctx else None
    for f in funcs_of(prog, files):
        # calls through vtable slots addref / unref on local variables
        calls = {}
        for b, i, e in f.elements():
            if e.get("k") == "call" and e.get("callee") is not None:
                cal = strip(e["callee"], all_casts=True)
                if cal.get("k") == "mem" and cal.get("f") in ("addref", "unref") and e.get("args"):
                    x = strip(e["args"][0], all_casts=True)
                    if x.get("k") == "ref" and "id" in x["d"]:
                        calls.setdefault(x["d"]["id"], []).append((cal["f"], b, i, e))
            elif e.get("k") == "call" and e.get("mcall") and (e.get("fn", {}).get("n") in ("addref", "unref")):
                x = strip(e.get("obj"), all_casts=True)
                if x and x.get("k") == "ref" and "id" in x["d"]:
                    calls.setdefault(x["d"]["id"], []).append((e["fn"]["n"], b, i, e))
        if not calls:
            continue
        # old = *slot ; ... ; *slot = new
        loads = {}
        for b, i, n in f.walk_all():
            pairs = []
            if n.get("k") == "bin" and n.get("op") == "=":
                l = strip(n["a"], lvalue_to_rvalue=False)
                if l.get("k") == "ref" and "id" in l["d"]:
                    pairs.append((l["d"]["id"], l["d"]["n"], n["b"]))
            elif n.get("k") == "decl":
                for v in n["vars"]:
                    if v.get("init") is not None:
                        pairs.append((v["id"], v["n"], v["init"]))
            for vid, nm, rhs in pairs:
                r = strip(rhs, all_casts=True)
                if r.get("k") in ("un", "mem", "idx") and (r.get("k") != "un" or r.get("op") == "*"):
                    loads[vid] = (nm, norm(show(r, f)))
        stores = {}
        for b, i, e in f.elements():
            for n in walk_own(e):
                if n.get("k") == "bin" and n.get("op") == "=":
                    l = strip(n["a"], lvalue_to_rvalue=False)
                    if l.get("k") in ("un", "mem", "idx"):
                        stores.setdefault(norm(show(l, f)), []).append((b, i, n))
        for vid, (nm, slot) in loads.items():
            if slot not in stores or vid not in calls:
                continue
            kinds = {k for k, b, i, e in calls[vid]}
            # the variable is the *old* value when the slot is overwritten with something else
            over = [s for s in stores[slot] if norm(show(strip(s[2]["b"], all_casts=True), f)) != nm]
            if not over:
                continue
            ok = "addref" not in kinds
            res.ob("%s:old %s of %s" % (f.qn, nm, slot), ok, f, calls[vid][0][3].get("l", 0),
                   "" if ok else "%s holds the reference that %s is about to lose, yet it is retained (addref) instead of released" % (nm, slot))
        # addref result tested
        for vid, cs in calls.items():
            for k, b, i, e in cs:
                if k != "addref":
                    continue
                if vid in loads and loads[vid][1] in stores and any(norm(show(strip(s[2]["b"], all_casts=True), f)) != loads[vid][0] for s in stores[loads[vid][1]]):
                    continue   # reported above
                used = False
                if b.term and b.term.get("cond") is not None:
                    used = any(m.get("sid") == e.get("sid") for m in walk(b.term["cond"]))
                for e2 in b.el[i + 1:]:
                    if any(m.get("sid") == e.get("sid") and m is not e for m in walk(e2)):
                        used = True
                res.ob("%s:%s" % (f.qn, norm(show(e, f))[:60]), used, f, e.get("l", 0),
                       "" if used else "result of addref() ignored: a counter that cannot be raised (0 or overflow) is taken as a new reference")
    return res


def run_reforder(prog, ctx=None):
    """REFORDER: when a reference slot is replaced, the new referent is retained before the old one is released
    (the addref call dominates the unref call): otherwise assigning an object to the handle that holds its last
    reference destroys it first"""
    res = Result("REFORDER")
    files = set(ctx.get("files", [])) if ctx else None
    for f in funcs_of(prog, files):
        adds, unrefs = [], []
        for b, i, e in f.elements():
            if e.get("k") == "call" and e.get("callee") is not None:
                cal = strip(e["callee"], all_casts=True)
                if cal.get("k") == "mem" and cal.get("f") in ("addref", "unref") and e.get("args"):
                    x = strip(e["args"][0], all_casts=True)
                    if x.get("k") == "ref" and "id" in x["d"]:
                        (adds if cal["f"] == "addref" else unrefs).append((b, i, e, x["d"]))
        if not adds or not unrefs:
            continue
        # slot stores *p = v  /  X->slot = v  where v is the addref'ed variable
        dom = f.dominators()
        for ab, ai, ae, av in adds:
            stored = False
            for b, i, e in f.elements():
                for n in walk_own(e):
                    if n.get("k") == "bin" and n.get("op") == "=":
                        l = strip(n["a"], lvalue_to_rvalue=False)
                        r = strip(n["b"], all_casts=True)
                        if l.get("k") in ("un", "mem") and r.get("k") == "ref" and r["d"].get("id") == av["id"]:
                            stored = (b, i, l)
            if not stored:
                continue
            slot_txt = norm(show(stored[2], f))
            for ub, ui, ue, uv in unrefs:
                if uv["id"] == av["id"]:
                    continue
                # the released variable was loaded from that slot
                loaded = False
                for b, i, n in f.walk_all():
                    if n.get("k") == "bin" and n.get("op") == "=":
                        l = strip(n["a"], lvalue_to_rvalue=False)
                        if l.get("k") == "ref" and l["d"].get("id") == uv["id"] and norm(show(strip(n["b"], all_casts=True), f)) == slot_txt:
                            loaded = True
                if not loaded:
                    continue
                # order on the CFG: the release must not be able to run before the retain
                # (the retain may be skipped for a NULL new value, so dominance is not required)
                ok = (ab.id == ub.id and ai < ui) or (ab.id != ub.id and ub.id in f.reachable_from(ab.id) and ab.id not in f.reachable_from(ub.id))
                res.ob("%s:retain %s before release %s" % (f.qn, av["n"], uv["n"]), ok, f, ue.get("l", 0),
                       "" if ok else "%s (old value of %s) is released before %s is retained: if both are the same object and this was its last reference it is destroyed and then used" % (
                           uv["n"], slot_txt, av["n"]))
    return res


def run_lowerfail(prog, ctx=None):
    """LOWERFAIL: a function that gives up a reference with mpt_refcount_lower(R) while others remain (non-zero result) and then
    fails (returns null / a negative status) has taken it back with mpt_refcount_raise(R) on that path: otherwise the caller
    still holds its pointer but the count no longer says so — the object looks unshared and is released twice"""
    res = Result("LOWERFAIL")
    files = set(ctx.get("files", [])) if ctx else None
    from .rules_path import funcs_of
    n = 0
    for f in funcs_of(prog, files):
        T = f.T(f.ret)
        if T.get("k") not in ("ptr", "int"):
            continue
        for bid, blk in f.blocks.items():
            if not (blk.term and blk.term.get("cond") is not None and len(blk.succ) == 2):
                continue
            c = strip(blk.term["cond"], all_casts=True)
            neg = False
            while c.get("k") == "un" and c.get("op") == "!":
                neg = not neg
                c = strip(c["e"], all_casts=True)
            if not (c.get("k") == "call" and callee_name(c) == "mpt_refcount_lower" and c.get("args")):
                continue
            arg = norm(show(c["args"][0], f))
            remain = blk.succ[1 if neg else 0]
            if remain is None:
                continue
            raises = set()
            for b2, i2, e2 in f.elements():
                if e2.get("k") == "call" and callee_name(e2) == "mpt_refcount_raise" and e2.get("args") and norm(show(e2["args"][0], f)) == arg:
                    raises.add(b2.id)
            reach = f.reachable_from(remain, avoid=raises)
            bad = None
            for b2, i2, e2 in f.elements():
                if b2.id in reach and e2.get("k") == "ret" and e2.get("e") is not None:
                    v = cval(e2["e"])
                    if v is not None and (v < 0 or (v == 0 and T.get("k") == "ptr")):
                        bad = e2
            n += 1
            res.ob("%s:lower(%s)" % (f.qn, arg), bad is None, f, (bad.get("l") if bad else c.get("l")) or f.line,
                   "" if bad is None else "after mpt_refcount_lower(%s) left other references, `%s` reports failure without mpt_refcount_raise(%s): the caller keeps a pointer the count no longer covers" % (arg, norm(show(bad, f)), arg))
    return res


def run_raisefail(prog, ctx=None):
    """RAISEFAIL: a function that took a reference with mpt_refcount_raise(R) (non-zero result) and then reports failure
    (returns null / a negative status) has given it back with mpt_refcount_lower(R) — or handed the object on — on that path.
    Checked where the function can also return a non-failure value after the raise (the reference then travels with it)."""
    res = Result("RAISEFAIL")
    files = set(ctx.get("files", [])) if ctx else None
    from .rules_path import funcs_of
    for f in funcs_of(prog, files):
        T = f.T(f.ret)
        if T.get("k") not in ("ptr", "int"):
            continue
        for bid, blk in f.blocks.items():
            if not (blk.term and blk.term.get("cond") is not None and len(blk.succ) == 2):
                continue
            c = strip(blk.term["cond"], all_casts=True)
            if blk.term.get("cls") != "BinaryOperator":
                while c.get("k") == "bin" and c.get("op") in ("&&", "||"):
                    c = strip(c["b"], all_casts=True)
            neg = False
            while c.get("k") == "un" and c.get("op") == "!":
                neg = not neg
                c = strip(c["e"], all_casts=True)
            if not (c.get("k") == "call" and callee_name(c) == "mpt_refcount_raise" and c.get("args")):
                continue
            arg = norm(show(c["args"][0], f))
            held = blk.succ[1 if neg else 0]
            if held is None:
                continue
            lowers = set()
            for b2, i2, e2 in f.elements():
                if e2.get("k") == "call" and callee_name(e2) in ("mpt_refcount_lower",) and e2.get("args") and norm(show(e2["args"][0], f)) == arg:
                    lowers.add(b2.id)
                # an unref of the object that owns the counter gives the reference back as well
                if e2.get("k") == "call" and (callee_name(e2) or "").endswith("unref"):
                    lowers.add(b2.id)
            reach = f.reachable_from(held, avoid=lowers)
            fails, succ = [], []
            for b2, i2, e2 in f.elements():
                if b2.id in reach and e2.get("k") == "ret" and e2.get("e") is not None:
                    v = cval(e2["e"])
                    if v is not None and (v < 0 or (v == 0 and T.get("k") == "ptr")):
                        fails.append(e2)
                    else:
                        succ.append(e2)
            if not succ:
                continue      # every exit after the raise reports failure?  not the shape this rule is about
            bad = fails[0] if fails else None
            res.ob("%s:raise(%s)" % (f.qn, arg), bad is None, f, (bad.get("l") if bad else c.get("l")) or f.line,
                   "" if bad is None else "after mpt_refcount_raise(%s) succeeded `%s` reports failure without mpt_refcount_lower(%s): the count stays one too high and the object is never released" % (arg, norm(show(bad, f)), arg))
    return res


def run_clonefree(prog, ctx=None):
    """CLONEFREE: an object that received a shared buffer (`mpt_array_clone(&X->member, src)`, src not null) is not handed to
    free() before that reference was given back: on every path from the clone to `free(X)` a release runs (a clone of null into
    the same member, or a call whose name says unref / fini / clear that is handed X or a member of X)."""
    res = Result("CLONEFREE")
    n = 0
    for f in sorted(prog.functions.values(), key=lambda f: (f.file, f.line, f.qn)):
        if f.nocfg or f.file.startswith("examples/"):
            continue
        clones, frees, rel_blocks = [], [], {}

        def root(e):
            e = strip(e, all_casts=True)
            while True:
                if e.get("k") == "un" and e.get("op") == "&":
                    e = strip(e["e"], lvalue_to_rvalue=False)
                elif e.get("k") == "mem":
                    e = strip(e["b"], all_casts=True)
                elif e.get("k") == "cast":
                    e = strip(e["e"], all_casts=True)
                else:
                    break
            return e["d"].get("id") if e.get("k") == "ref" and "id" in e.get("d", {}) else None
        for b, i, e in f.elements():
            if e.get("k") != "call":
                continue
            nm = callee_name(e) or ""
            ce = strip(e["callee"], all_casts=True) if e.get("callee") is not None else {}
            slot = ce.get("f") if ce.get("k") == "mem" else ""
            args = e.get("args", [])
            if nm == "mpt_array_clone" and len(args) == 2:
                r = root(args[0])
                a0 = strip(args[0], all_casts=True)
                if r is not None and a0.get("k") == "un" and a0.get("op") == "&" and strip(a0["e"], lvalue_to_rvalue=False).get("k") == "mem":
                    if cval(args[1]) == 0:
                        rel_blocks.setdefault(r, set()).add(b.id)
                    else:
                        clones.append((b, i, e, r))
                continue
            if nm == "free" and args:
                r = root(args[0])
                if r is not None and strip(args[0], all_casts=True).get("k") == "ref":
                    frees.append((b, i, e, r))
                continue
            low = (nm + " " + (slot or "")).lower()
            if any(w in low for w in ("unref", "fini", "clear", "close", "destroy")):
                for a in args:
                    r = root(a)
                    if r is not None:
                        rel_blocks.setdefault(r, set()).add(b.id)
        for cb, ci, ce_, r in clones:
            for fb, fi, fe, r2 in frees:
                if r2 != r:
                    continue
                avoid = rel_blocks.get(r, set())
                reach = (fb.id == cb.id and fi > ci) or (cb.id not in avoid and fb.id in f.reachable_from(cb.id, avoid=avoid) and fb.id not in avoid)
                n += 1
                ok = not reach
                res.ob("%s:%s" % (f.qn, norm(show(fe, f))[:40]), ok, f, fe.get("l", f.line),
                       "" if ok else "%s: `%s` is reachable after `%s` took a reference on the source's buffer, with no release in between: the buffer keeps a count nobody gives back" % (
                           f.qn, norm(show(fe, f))[:30], norm(show(ce_, f))[:50]))
        for cb, ci, ce_, r in clones:
            n += 1
            res.ob("%s:%s:site" % (f.qn, norm(show(ce_, f))[:40]), True, f, ce_.get("l", f.line))
    if n < 3:
        raise Broken("CLONEFREE: only %d clone-into-member sites" % n)
    return res


def run_raisetest(prog, ctx=None):
    """RAISETEST: taking a reference (a call through an `addref` slot, mpt_refcount_raise) answers with the new count, an
    unsigned value of pointer width, and 0 when the counter cannot be raised.  Whatever decides on that answer separates 0
    from the rest: it is a zero test on the full-width value.  A `< 0` test (directly, or on a signed variable that took the
    answer) lets the failure value through as a reference taken; a variable narrower than the answer reads counts whose
    low bits are zero as failures after the counter was raised."""
    res = Result("RAISETEST")
    files = set(ctx.get("files", [])) if ctx else None
    from .rules_path import funcs_of
    for f in funcs_of(prog, files):
        par = {}

        def link(n):
            from .facts import children
            for c in children(n):
                if isinstance(c, dict):
                    par[id(c)] = n
                    link(c)
        calls = []
        for b, i, e in f.elements():
            link(e)
        for b in f.blocks.values():
            if b.term and b.term.get("cond") is not None:
                link(b.term["cond"])
        for b, i, n in f.walk_all():
            if n.get("k") != "call":
                continue
            nm = callee_name(n)
            slot = None
            if n.get("callee") is not None:
                cal = strip(n["callee"], all_casts=True)
                if cal.get("k") == "mem":
                    slot = cal.get("f")
            if n.get("mcall"):
                slot = (n.get("fn") or {}).get("n")
            if not (nm == "mpt_refcount_raise" or slot == "addref"):
                continue
            RT = f.T(n.get("t"))
            if RT.get("k") != "int":
                continue
            calls.append((b, n, RT))
        for b, n, RT in calls:
            what = norm(show(n, f))[:60]
            # climb through casts / parentheses
            cur = n
            p = par.get(id(cur))
            while p is not None and p.get("k") in ("cast", "paren"):
                cur, p = p, par.get(id(p))
            verdict = None        # (ok, message)
            var = None
            if p is None:
                continue
            if p.get("k") == "bin" and p.get("op") in ("<", "<=", ">", ">=", "==", "!="):
                other = p["b"] if strip(p["a"], all_casts=True) is strip(cur, all_casts=True) or p["a"] is cur else p["a"]
                cv = cval(other)
                op = p["op"] if other is p["b"] else {"<": ">", "<=": ">=", ">": "<", ">=": "<=", "==": "==", "!=": "!="}[p["op"]]
                if cv == 0 and op == "<":
                    verdict = (False, "`%s` is never true for an unsigned count: the failure answer 0 passes as a reference taken" % norm(show(p, f)))
                elif cv == 0 and op == ">=":
                    verdict = (False, "`%s` is always true for an unsigned count: the failure answer 0 is not told apart" % norm(show(p, f)))
                elif cv == 0:
                    verdict = (True, "")
            elif p.get("k") == "bin" and p.get("op") == "=" and (p["b"] is cur or strip(p["b"], all_casts=True) is strip(cur, all_casts=True)):
                l = strip(p["a"], lvalue_to_rvalue=False)
                if l.get("k") == "ref" and "id" in l["d"]:
                    var = (l["d"]["id"], l["d"]["n"], f.T(l.get("t")), p)
            elif p.get("k") == "decl":
                for v in p.get("vars", []):
                    if v.get("init") is not None and any(x is n for x in walk(v["init"])):
                        var = (v["id"], v["n"], f.T(v.get("t")), p)
            if var is not None:
                vid, vn, VT, site = var
                if VT.get("k") == "int" and (VT.get("sz") or 0) < (RT.get("sz") or 0):
                    verdict = (False, "the answer of %s is kept in `%s` (%s, %d bytes), narrower than the count (%d bytes): a count whose low bits read as zero or negative is taken for a failure after the counter was raised" % (
                        what, vn, VT.get("s"), VT.get("sz") or 0, RT.get("sz") or 0))
                else:
                    # the assignment itself may be the operand of a comparison: (ret = addref()) < 0
                    tests = []
                    q = par.get(id(site))
                    s2 = site
                    while q is not None and q.get("k") in ("cast", "paren"):
                        s2, q = q, par.get(id(q))
                    if q is not None and q.get("k") == "bin" and q.get("op") in ("<", "<=", ">", ">="):
                        tests.append((q, q["a"] is s2 or strip(q["a"], all_casts=True) is strip(s2, all_casts=True)))
                    for b2, i2, m in f.walk_all():
                        if m.get("k") == "bin" and m.get("op") in ("<", "<=", ">", ">="):
                            for side, first in ((m["a"], True), (m["b"], False)):
                                s = strip(side, all_casts=True)
                                if s.get("k") == "ref" and s["d"].get("id") == vid:
                                    tests.append((m, first))
                    for m, first in tests:
                        other = m["b"] if first else m["a"]
                        op = m["op"] if first else {"<": ">", "<=": ">=", ">": "<", ">=": "<="}[m["op"]]
                        if cval(other) == 0 and op in ("<", ">="):
                            verdict = (False, "the answer of %s is tested with `%s`: the failure answer is 0, which this test takes for a reference taken" % (what, norm(show(m, f))))
                    if verdict is None:
                        verdict = (True, "")
            if verdict is None:
                # boolean use (!x, condition, && / ||) or result not looked at (REFREPLACE reports ignored answers)
                verdict = (True, "")
            res.ob("%s:%s" % (f.qn, what), verdict[0], f, n.get("l", f.line) or f.line, verdict[1])
    return res


def run_addreffail(prog, ctx=None):
    """ADDREFFAIL: a reference taken through an `addref` slot is given back on the way to a refusal.  From the edge on which
    `X->_vptr->addref(X)` answered non-zero, every path to a `return <negative constant>` / `return 0` of a pointer function
    passes `unref(X)`, a store of X into memory (the reference travels with the slot) or a call that is handed X.  A
    refusal behind a successful addref leaves a count no handle owns: the object is never destroyed and reports itself as
    shared."""
    res = Result("ADDREFFAIL")
    from .rules_path import funcs_of
    files = set(ctx.get("files", [])) if ctx else None
    for f in funcs_of(prog, files):
        T = f.T(f.ret)
        if T.get("k") not in ("ptr", "int"):
            continue
        for bid, blk in sorted(f.blocks.items()):
            if not (blk.term and blk.term.get("cond") is not None and len(blk.succ) == 2):
                continue
            c = strip(blk.term["cond"], all_casts=True)
            if blk.term.get("cls") != "BinaryOperator":
                while c.get("k") == "bin" and c.get("op") in ("&&", "||"):
                    c = strip(c["b"], all_casts=True)
            neg = False
            while c.get("k") == "un" and c.get("op") == "!":
                neg = not neg
                c = strip(c["e"], all_casts=True)
            if c.get("k") != "call" or c.get("callee") is None or not c.get("args"):
                continue
            cal = strip(c["callee"], all_casts=True)
            if not (cal.get("k") == "mem" and cal.get("f") == "addref"):
                continue
            x = strip(c["args"][0], all_casts=True)
            if x.get("k") != "ref" or "id" not in x["d"]:
                continue
            xid, xn = x["d"]["id"], x["d"]["n"]
            held = blk.succ[1 if neg else 0]
            if held is None:
                continue
            gives = set()
            for b2, i2, e2 in f.elements():
                for n in walk_own(e2):
                    if n.get("k") == "call":
                        ce = strip(n["callee"], all_casts=True) if n.get("callee") is not None else {}
                        isunref = (ce.get("k") == "mem" and ce.get("f") == "unref") or (callee_name(n) or "").endswith("unref")
                        handed = any(strip(a, all_casts=True).get("k") == "ref" and strip(a, all_casts=True)["d"].get("id") == xid for a in n.get("args", []))
                        if handed and (isunref or not (ce.get("k") == "mem" and ce.get("f") in ("addref", "get_flags"))):
                            gives.add(b2.id)
                    if n.get("k") == "bin" and n.get("op") == "=":
                        l = strip(n["a"], lvalue_to_rvalue=False)
                        r = strip(n["b"], all_casts=True)
                        if l.get("k") in ("mem", "un", "idx") and r.get("k") == "ref" and r["d"].get("id") == xid:
                            gives.add(b2.id)
                if e2.get("k") == "ret" and e2.get("e") is not None:
                    r = strip(e2["e"], all_casts=True)
                    if any(m.get("k") == "ref" and m["d"].get("id") == xid for m in walk(r)):
                        gives.add(b2.id)
            # X is non-null on the held edge: branches on X itself go one way only
            reach = set()
            work = [held]
            while work:
                b3 = work.pop()
                if b3 in reach or b3 in gives:
                    continue
                reach.add(b3)
                blk3 = f.blocks[b3]
                succ = list(blk3.succ)
                if blk3.term and blk3.term.get("cond") is not None and len(succ) == 2:
                    c3 = strip(blk3.term["cond"], all_casts=True)
                    n3 = False
                    while c3.get("k") == "un" and c3.get("op") == "!":
                        n3 = not n3
                        c3 = strip(c3["e"], all_casts=True)
                    if c3.get("k") == "ref" and c3["d"].get("id") == xid:
                        succ = [succ[1 if n3 else 0]]
                work.extend(s3 for s3 in succ if s3 is not None)
            bad = None
            for b2, i2, e2 in f.elements():
                if b2.id in reach and e2.get("k") == "ret" and e2.get("e") is not None:
                    v = cval(e2["e"])
                    if v is not None and (v < 0 or (v == 0 and T.get("k") == "ptr")):
                        bad = e2
            res.ob("%s:addref(%s)" % (f.qn, xn), bad is None, f, (bad.get("l") if bad else c.get("l")) or f.line,
                   "" if bad is None else "after %s->addref() succeeded `%s` refuses the call without giving the reference back (no unref(%s), no store of %s on that path): the count stays one above the number of handles" % (
                       xn, norm(show(bad, f)), xn, xn))
    return res


def run_ownedref(prog, ctx=None):
    """OWNEDREF: a reference that was stored into a member of an object (`X->member = m`) travels with that object: the
    function does not release it again through the local (`m->_vptr->unref(m)`) on a path behind the store, unless the
    member or the local was given another value in between.  Releasing it there leaves X with a dangling member, and when X
    is torn down afterwards (its destroy function releases its members) the referent is released twice."""
    res = Result("OWNEDREF")
    from .rules_path import funcs_of
    files = set(ctx.get("files", [])) if ctx else None
    for f in funcs_of(prog, files):
        stores = []      # (block, idx, var id, var name, member text, node)
        unrefs = []      # (block, idx, var id, node)
        kills = []       # (block, idx, var id or member text)
        for b, i, e in f.elements():
            for n in walk_own(e):
                if n.get("k") == "bin" and n.get("op") == "=":
                    l = strip(n["a"], lvalue_to_rvalue=False)
                    r = strip(n["b"], all_casts=True)
                    if l.get("k") == "mem" and l.get("arrow") and r.get("k") == "ref" and r["d"].get("dk") == "local" and f.T(r.get("t")).get("k") == "ptr":
                        stores.append((b.id, i, r["d"]["id"], r["d"]["n"], norm(show(l, f)), n))
                    if l.get("k") == "ref" and "id" in l["d"]:
                        kills.append((b.id, i, l["d"]["id"]))
                    if l.get("k") == "mem":
                        kills.append((b.id, i, norm(show(l, f))))
                if n.get("k") == "call" and n.get("callee") is not None and n.get("args"):
                    ce = strip(n["callee"], all_casts=True)
                    if ce.get("k") == "mem" and ce.get("f") == "unref":
                        a = strip(n["args"][0], all_casts=True)
                        if a.get("k") == "ref" and "id" in a["d"]:
                            unrefs.append((b.id, i, a["d"]["id"], n))
        if not stores or not unrefs:
            continue
        for sb, si, vid, vn, mtxt, sn in stores:
            bad = None
            for ub, ui, uvid, un in unrefs:
                if uvid != vid:
                    continue
                after = (ub == sb and ui > si) or (ub != sb and ub in f.reachable_from(sb))
                if not after:
                    continue
                # a kill of the local or of the member on every path between?  (approximation: a kill in a block that
                # dominates the unref and is reachable from the store)
                dom = f.dominators()
                killed = False
                for kb, ki, what in kills:
                    if what not in (vid, mtxt):
                        continue
                    if (kb == sb and ki <= si) or (kb == ub and ki >= ui):
                        continue
                    between = ((kb == sb and ki > si) or (kb != sb and kb in f.reachable_from(sb))) and ((kb == ub and ki < ui) or (kb != ub and kb in dom[ub]))
                    if between:
                        killed = True
                if not killed:
                    bad = un
            res.ob("%s:%s = %s" % (f.qn, mtxt, vn), bad is None, f, (bad.get("l") if bad else sn.get("l")) or f.line,
                   "" if bad is None else "`%s` hands the reference held in %s to the object, and `%s` releases it through the local afterwards: the member dangles, and a teardown of the object releases the referent a second time" % (
                       norm(show(sn, f)), vn, norm(show(bad, f))[:60]))
    return res


def run_detachrelease(prog, ctx=None):
    """DETACHRELEASE: a function installed in the `detach` slot of a buffer interface table is handed the caller's reference
    to the object.  Where it answers with another object (a return value that is neither null nor the argument / a member of
    it), the caller's reference to the old one is consumed: every path to such a return runs a release of the argument
    (mpt_refcount_lower on its counter, free() of it, or an unref call that is handed it).  Without it the old buffer's count
    stays one too high for ever: its remaining holders see it shared, copy on every write, and it is never destroyed.
    DETACHRAW: a memcpy out of the argument's payload is dominated by the zero edge of the mpt_refcount_lower() test on it, or by
    the no-element-type edge of a test of its `_content_traits`."""
    res = Result("DETACHRELEASE")
    seen = set()
    for g, u, rn, slot, fn, qn in vtables(prog):
        if slot.split(".")[-1] != "detach" or fn is None or fn.nocfg or fn.key() in seen:
            continue
        seen.add(fn.key())
        f = fn
        if not f.params:
            continue
        alias = {f.params[0]["id"]}
        changed = True
        while changed:
            changed = False
            for b, i, n in f.walk_all():
                pairs = []
                if n.get("k") == "bin" and n.get("op") == "=":
                    l = strip(n["a"], lvalue_to_rvalue=False)
                    if l.get("k") == "ref" and "id" in l["d"]:
                        pairs.append((l["d"]["id"], n["b"]))
                elif n.get("k") == "decl":
                    for v in n["vars"]:
                        if v.get("init") is not None:
                            pairs.append((v["id"], v["init"]))
                for vid, rhs in pairs:
                    if vid in alias:
                        continue
                    # the same object: pointer arithmetic / casts / member address over an alias, no call and no load through it
                    ok = False
                    calls = False
                    for m in walk(rhs):
                        if m.get("k") == "call":
                            calls = True
                        if m.get("k") == "ref" and m["d"].get("id") in alias:
                            ok = True
                    r = strip(rhs, all_casts=True)
                    if ok and not calls and not (r.get("k") == "mem" and f.T(r.get("t")).get("k") == "ptr" and not _addr_of(rhs)):
                        alias.add(vid)
                        changed = True

        def rooted(e):
            return any(m.get("k") == "ref" and m["d"].get("id") in alias for m in walk(e))

        release = set()
        for b, i, e in f.elements():
            for n in walk_own(e):
                if n.get("k") != "call" or not n.get("args"):
                    continue
                nm = callee_name(n) or ""
                ce = strip(n["callee"], all_casts=True) if n.get("callee") else {}
                if ce.get("k") == "mem":
                    nm = ce.get("f", "")
                if (nm == "mpt_refcount_lower" or nm == "free" or nm.endswith("unref")) and rooted(n["args"][0]):
                    release.add(b.id)
        reach = f.reachable_from(f.entry, avoid=release)
        n_new = 0
        for b, i, e in f.elements():
            if e.get("k") != "ret" or e.get("e") is None:
                continue
            if cval(e["e"]) == 0 or rooted(e["e"]):
                continue
            n_new += 1
            bad = b.id in reach
            res.ob("%s:%s" % (f.qn, norm(show(e, f))), not bad, f, e.get("l") or f.line,
                   "" if not bad else "`%s` answers the detach with another object on a path that never released the caller's reference to the "
                   "argument (no mpt_refcount_lower / free / unref of it): the old object's count stays one too high" % norm(show(e, f)))
        # DETACHRAW: a raw copy out of the old buffer duplicates the references its elements hold; it is made only where the
        # count of the old buffer reached zero (the content moves), not while other holders remain
        zero_starts = []
        for bid, blk in f.blocks.items():
            if not (blk.term and isinstance(blk.term.get("cond"), dict) and len(blk.succ) == 2):
                continue
            c = strip(blk.term["cond"], all_casts=True)
            neg = False
            while c.get("k") == "un" and c.get("op") == "!":
                neg = not neg
                c = strip(c["e"], all_casts=True)
            if c.get("k") == "call" and callee_name(c) == "mpt_refcount_lower" and c.get("args") and rooted(c["args"][0]):
                z = blk.succ[0] if neg else blk.succ[1]
                if z is not None:
                    zero_starts.append(z)
        dom = f.dominators()
        for b, i, e in f.elements():
            for n in walk_own(e):
                if n.get("k") == "call" and callee_name(n) in ("memcpy", "memmove") and len(n.get("args", [])) == 3 and rooted(n["args"][1]):
                    ok = any(z in dom[b.id] for z in zero_starts)
                    if not ok:
                        # raw buffers have no elements: behind a refusal of typed content (`if (b->buf._content_traits) return 0`)
                        for pb in dom[b.id]:
                            pblk = f.blocks[pb]
                            if pblk.term and isinstance(pblk.term.get("cond"), dict) and len(pblk.succ) == 2 and pb != b.id:
                                c2 = strip(pblk.term["cond"], all_casts=True)
                                if c2.get("k") == "mem" and c2.get("f") == "_content_traits" and pblk.succ[1] is not None \
                                        and (pblk.succ[1] == b.id or pblk.succ[1] in dom[b.id]):
                                    ok = True
                    res.ob("%s:%s only when unshared" % (f.qn, norm(show(n, f))[:50]), ok, f, n.get("l") or f.line,
                           "" if ok else "`%s` copies the elements of the old buffer byte by byte on a path where its count did not reach zero: the references they hold are duplicated without being taken (the copy operation of the element type is bypassed)" % norm(show(n, f))[:80])
        res.count("detach implementations")
        if not n_new:
            res.notes.append("%s: answers with the argument or refuses only" % f.qn)
    return res


def _addr_of(e):
    s = strip(e, all_casts=True)
    return s.get("k") == "un" and s.get("op") == "&"


def run_detachdead(prog, ctx=None):
    """DETACHDEAD: `x = b->_vptr->detach(b, n)` consumes the reference the caller held on b: when it answers with a buffer, b may
    have been freed or left to its other holders.  Where the answer is not assigned to the same local (`b = b->detach(b, ..)`
    is the idiom of the tree), the old local is not used again on the paths where the call delivered something: lengths stored
    and bytes copied through it go to the old buffer, the new one keeps its old content and length."""
    res = Result("DETACHDEAD")
    files = set(ctx.get("files", [])) if ctx else None
    from .rules_path import funcs_of
    for f in funcs_of(prog, files):
        for bid, blk in sorted(f.blocks.items()):
            for i, e in enumerate(blk.el):
                if e.get("k") != "call" or e.get("callee") is None or not e.get("args"):
                    continue
                ce = strip(e["callee"], all_casts=True)
                if not (ce.get("k") == "mem" and ce.get("f") == "detach"):
                    continue
                a0 = strip(e["args"][0], all_casts=True)
                if not (a0.get("k") == "ref" and a0["d"].get("dk") in ("local", "param") and "id" in a0["d"]):
                    continue
                vid, vname = a0["d"]["id"], a0["d"].get("n")
                # where does the answer go?
                target = None
                for e2 in blk.el[i + 1:] + ([blk.term["cond"]] if blk.term and isinstance(blk.term.get("cond"), dict) else []):
                    for n in walk(e2):
                        if n.get("k") == "bin" and n.get("op") == "=":
                            r = strip(n["b"], all_casts=True)
                            if r.get("k") == "call" and r.get("sid") == e.get("sid"):
                                target = strip(n["a"], lvalue_to_rvalue=False)
                        if n.get("k") == "decl":
                            for v in n["vars"]:
                                if v.get("init") is not None:
                                    r = strip(v["init"], all_casts=True)
                                    if r.get("k") == "call" and r.get("sid") == e.get("sid"):
                                        target = {"k": "ref", "d": {"id": v["id"], "n": v.get("n")}}
                if target is None:
                    continue
                if target.get("k") == "ref" and target["d"].get("id") == vid:
                    res.ob("%s:%s = detach(%s) line %s" % (f.qn, vname, vname, e.get("l")), True, f, e.get("l") or f.line)
                    continue
                # success successors: the false edge of `!(x = detach())`, the true edge of `(x = detach())`; otherwise all
                starts = [s for s in blk.succ if s is not None]
                if blk.term and isinstance(blk.term.get("cond"), dict) and len(blk.succ) == 2:
                    c = strip(blk.term["cond"], all_casts=True)
                    if blk.term.get("cls") != "BinaryOperator":
                        while c.get("k") == "bin" and c.get("op") in ("&&", "||"):
                            c = strip(c["b"], all_casts=True)
                    neg = False
                    while c.get("k") == "un" and c.get("op") == "!":
                        neg = not neg
                        c = strip(c["e"], all_casts=True)
                    if c.get("k") == "bin" and c.get("op") == "=" and strip(c["b"], all_casts=True).get("sid") == e.get("sid"):
                        starts = [blk.succ[1] if neg else blk.succ[0]]
                        starts = [s for s in starts if s is not None]
                # blocks where the local is assigned again end the search
                kills = set()
                for b2, i2, n in f.walk_all():
                    if n.get("k") == "bin" and n.get("op") == "=":
                        l = strip(n["a"], lvalue_to_rvalue=False)
                        if l.get("k") == "ref" and l["d"].get("id") == vid:
                            kills.add(b2.id)
                reach = set()
                for s0 in starts:
                    reach |= f.reachable_from(s0, avoid=kills)
                bad = None
                for b2 in sorted(reach):
                    for e2 in f.blocks[b2].el:
                        for n in walk_own(e2):
                            if n.get("k") == "ref" and n["d"].get("id") == vid and bad is None:
                                bad = n
                res.ob("%s:%s after detach line %s" % (f.qn, vname, e.get("l")), bad is None, f, (bad.get("l") if bad else e.get("l")) or f.line,
                       "" if bad is None else "%s is used (line %s) after `%s` delivered its answer into `%s`: the call consumed the reference on the old buffer, what is stored or copied through %s does not reach the buffer the handle holds now" % (
                           vname, bad.get("l"), norm(show(e, f))[:60], norm(show(target, f)), vname))
    return res
