"""IDENTOVERLAY (C16) and NARROW (C08, C09, C10, C12, C16)."""
from .facts import strip, cval, walk, walk_own, show, callee_name
from .ival import Analysis, AV, type_range
from .core import Result, Broken, norm
from .rules_path import funcs_of, null_partitioned
from .rules_conv import raw_rhs


def _ident_mem(n, field):
    return n.get("k") == "mem" and n.get("f") == field and n.get("rec", "").split("::")[-1] in ("mpt_identifier", "identifier")


def run_identoverlay(prog, ctx=None):
    """identifier._val[4] is followed by _base: content longer than 4 bytes written at _val overlays the pointer.
       (a) no read of X->_base after a write of possibly more than sizeof(_val) bytes at X->_val, unless _base was assigned in between
       (b) every read of X->_base is under the discriminant X->_len > X->_max (same base), as `?:` arm or dominating branch"""
    res = Result("IDENTOVERLAY")
    rec = prog.records.get("mpt_identifier") or prog.records.get("mpt::identifier")
    if rec is None:
        raise Broken("anchor missing: struct identifier")
    flds = {x["n"]: x for x in rec["fields"]}
    for k in ("_len", "_max", "_val", "_base"):
        if k not in flds:
            raise Broken("anchor missing: identifier.%s" % k)
    vsz = rec["unit"].types[flds["_val"]["t"]].get("sz", 4)
    ok = flds["_base"]["off"] == flds["_val"]["off"] + vsz
    res.ob("layout:_base follows _val", ok, None, rec["line"], "" if ok else "_base no longer directly follows _val[%d]" % vsz, file=rec["file"])
    nread = 0
    for f in sorted(prog.functions.values(), key=lambda f: (f.file, f.line)):
        if f.nocfg:
            continue
        reads = []
        for b, i, e in f.elements():
            ident_cmp = set()
            for n in walk_own(e):
                if n.get("k") == "bin" and n.get("op") in ("==", "!="):
                    for side in (n["a"], n["b"]):
                        x = strip(side, all_casts=True)
                        if _ident_mem(x, "_base"):
                            ident_cmp.add(id(x))     # identity comparison of address-type identifiers: the pointer is not followed
            for n in walk_own(e):
                if n.get("k") == "cast" and n.get("ck") == "LValueToRValue" and _ident_mem(strip(n["e"], lvalue_to_rvalue=False), "_base") \
                        and id(strip(n["e"], lvalue_to_rvalue=False)) not in ident_cmp:
                    reads.append((b, i, e, strip(n["e"], lvalue_to_rvalue=False)))
        # locals that may hold the address of X->_val  (dest = id->_val)
        val_alias = {}
        for b, i, n in f.walk_all():
            if n.get("k") == "bin" and n.get("op") == "=":
                l = strip(n["a"], lvalue_to_rvalue=False)
                r = strip(n["b"], all_casts=True)
                if l.get("k") == "ref" and "id" in l["d"] and _ident_mem(r, "_val"):
                    val_alias[l["d"]["id"]] = r
        writes_val = []
        for b, i, e in f.elements():
            if e.get("k") == "call" and callee_name(e) in ("memcpy", "memset", "memmove", "strcpy", "strncpy") and e.get("args"):
                d = strip(e["args"][0], all_casts=True)
                if _ident_mem(d, "_val"):
                    writes_val.append((b, i, e, d))
                elif d.get("k") == "ref" and d["d"].get("id") in val_alias:
                    writes_val.append((b, i, e, val_alias[d["d"]["id"]]))
        if not reads and not writes_val:
            continue
        PK = Analysis.PK
        an0 = Analysis(prog, f).run() if writes_val else None

        def hook(an, b, i, el, st):
            cl = set(st.get(PK) or ())
            for n in walk_own(el):
                if n.get("k") == "bin" and n.get("op") == "=":
                    l = strip(n["a"], lvalue_to_rvalue=False)
                    if _ident_mem(l, "_base"):
                        cl.discard(norm(show(l["b"], f)))
            for wb, wi, we, wd in writes_val:
                if el is we:
                    ln = we["args"][2] if len(we["args"]) > 2 else None
                    v = an0.val(wb.id, wi, ln) if ln is not None else None
                    if v is None or v.hi > vsz:
                        cl.add(norm(show(wd["b"], f)))
            st[PK] = frozenset(cl)

        an = Analysis(prog, f, hook=hook)
        st0 = an.entry_state()
        st0[PK] = frozenset()
        an.run(state=st0)
        dom = f.dominators()
        for b, i, e, m in reads:
            nread += 1
            base = norm(show(m["b"], f))
            key = "%s:%s@%s" % (f.qn, norm(show(m, f)), norm(show(e, f))[:50])
            # (a)
            clobbered = any(base in (st.get(PK) or ()) for st in an.pre_parts.get((b.id, i), {}).values())
            res.ob(key + ":not-overlaid", not clobbered, f, m.get("l", 0),
                   "" if not clobbered else "%s->_base is read after up to _max bytes were written at %s->_val (which overlays _base beyond %d bytes): the pointer read is name content" % (base, base, vsz))
            # (b) discriminant
            def is_disc(c, truth_needed=True):
                c = strip(c, all_casts=True)
                if c.get("k") == "bin" and c.get("op") in ("&&",):
                    return is_disc(c["a"]) or is_disc(c["b"])
                if c.get("k") == "bin" and c.get("op") == ">":
                    a, bb = strip(c["a"], all_casts=True), strip(c["b"], all_casts=True)
                    return _ident_mem(a, "_len") and _ident_mem(bb, "_max") and norm(show(a["b"], f)) == base and norm(show(bb["b"], f)) == base
                return False
            guarded = False
            for n in walk(e):
                if n.get("k") == "cond" and is_disc(n["c"]):
                    if any(x is m or strip(x, lvalue_to_rvalue=False) is m for x in walk(n["a"])):
                        guarded = True
            if not guarded:
                for pb in dom[b.id]:
                    blk = f.blocks[pb]
                    if blk.term and blk.term.get("cond") is not None and len(blk.succ) == 2 and blk.succ[0] is not None:
                        dc = blk.term["cond"]
                        if is_disc(dc) and (b.id == blk.succ[0] or (blk.succ[0] in dom[b.id])):
                            guarded = True
                # value only saved for a later guarded free: `addr = (len > max) ? base : 0` handled above
            res.ob(key + ":discriminant", guarded, f, m.get("l", 0),
                   "" if guarded else "%s->_base is read without the test %s->_len > %s->_max that says the name is stored externally" % (base, base, base))
    if nread < 5:
        raise Broken("IDENTOVERLAY: only %d reads of _base found" % nread)
    return res


NARROW_FIELDS = {
    # record suffix -> fields
    "mpt_path": ("first",), "path": ("first",),
    "mpt_parser_context": ("valid",), "parser_context": ("valid",),
    "mpt_identifier": ("_len", "_max"), "identifier": ("_len", "_max"),
    "mpt_reply_data": ("len", "_max"), "reply_data": ("len", "_max"),
}
# msgtype.arg (int8 answer code) was tried and dropped: it receives handler results whose range is a protocol convention, not code shape


def run_narrow(prog, ctx=None):
    """NARROW: the mathematical value stored into a designated narrow length/position field lies in the field's range"""
    res = Result("NARROW")
    files = set(ctx.get("files", [])) if ctx else None
    want = ctx.get("records") if ctx else None
    for f in funcs_of(prog, files):
        sites = []
        for b, i, e in f.elements():
            for n in walk_own(e):
                if n.get("k") == "bin" and n.get("op") in ("=", "+=", "-="):
                    l = strip(n["a"], lvalue_to_rvalue=False)
                    if l.get("k") == "mem":
                        r = l.get("rec", "").split("::")[-1]
                        if r in NARROW_FIELDS and l["f"] in NARROW_FIELDS[r] and (want is None or r in want):
                            sites.append((b, i, n, l))
        if not sites:
            continue
        an = null_partitioned(prog, f)      # one path class per outcome of the function's null tests (keeps `x = y + c` facts apart)

        def pval(bid, idx, e):
            r = None
            el = f.blocks[bid].el[idx]
            for st in an.pre_parts.get((bid, idx), {}).values():
                v = an.ev(e, dict(st), True, el)
                r = v if r is None else AV(min(r.lo, v.lo), max(r.hi, v.hi), r.nan or v.nan)
            return r

        for b, i, n, l in sites:
            FT = f.T(l.get("t"))
            r = type_range(FT)
            if n["op"] == "=":
                rhs = raw_rhs(n["b"])
                v = pval(b.id, i, rhs)
            else:
                a = pval(b.id, i, l)
                bb = pval(b.id, i, raw_rhs(n["b"]))
                if a is None or bb is None:
                    continue
                v = AV(a.lo + bb.lo, a.hi + bb.hi) if n["op"] == "+=" else AV(a.lo - bb.hi, a.hi - bb.lo)
            if v is None:
                continue
            ST = f.T(raw_rhs(n["b"]).get("t"))
            if n["op"] == "=" and ST.get("k") in ("int", "bool") and ST.get("sz") == FT.get("sz"):
                # same width: a byte for byte copy (char -> uint8_t), nothing is lost
                res.ob("%s:%s" % (f.qn, norm(show(n, f))[:70]), True, f, n.get("l", 0), detail={"note": "same-width copy"})
                continue
            ok = v.within(r.lo, r.hi)
            res.ob("%s:%s" % (f.qn, norm(show(n, f))[:70]), ok, f, n.get("l", 0),
                   "" if ok else "value %s stored into %s field %s (range %s): silently truncated" % (v, FT.get("s"), l["f"], r),
                   {"value": v.tojson(), "field_range": r.tojson()})
    return res


def run_inlinefit(prog, ctx=None):
    """INLINEFIT: content is placed in X->_val only under a capacity test against the *same* identifier's _max
    (the nearest dominating condition that mentions an identifier's _max names X)"""
    res = Result("INLINEFIT")
    for f in sorted(prog.functions.values(), key=lambda f: (f.file, f.line)):
        if f.nocfg:
            continue
        sites = []
        for b, i, e in f.elements():
            for n in walk_own(e):
                if n.get("k") == "bin" and n.get("op") == "=":
                    r = strip(n["b"], all_casts=True)
                    LT = f.T(strip(n["a"], lvalue_to_rvalue=False).get("t"))
                    if _ident_mem(r, "_val") and LT.get("k") == "ptr" and not f.T(LT.get("to")).get("const"):
                        sites.append((b, i, n, norm(show(r["b"], f))))      # writable pointer to the inline store
                elif n.get("k") == "call" and callee_name(n) in ("memcpy", "memset") and n.get("args"):
                    d = strip(n["args"][0], all_casts=True)
                    if _ident_mem(d, "_val") and cval(n["args"][2]) is None:
                        sites.append((b, i, n, norm(show(d["b"], f))))
        if not sites:
            continue
        dom = f.dominators()
        for b, i, n, base in sites:
            # dominating conditions that mention some identifier's _max, nearest first (largest dominator set = closest)
            conds = []
            for pb in dom[b.id]:
                blk = f.blocks[pb]
                if pb != b.id and blk.term and blk.term.get("cond") is not None:
                    bases = {norm(show(m["b"], f)) for m in walk(blk.term["cond"]) if _ident_mem(m, "_max")}
                    if bases:
                        conds.append((len(dom[pb]), bases, blk.term.get("l", 0)))
            if not conds:
                continue
            conds.sort(reverse=True)
            near = conds[0]
            ok = base in near[1]
            res.ob("%s:%s" % (f.qn, norm(show(n, f))[:60]), ok, f, n.get("l", 0),
                   "" if ok else "content is placed in %s->_val but the capacity test that guards it (line %s) reads %s->_max" % (base, near[2], ", ".join(sorted(near[1]))))
    return res


def run_convnarrow(prog, ctx=None):
    """CONVNARROW: in a property setter a value obtained through convert(src, K, &wide) reaches a narrower local or member only
    inside the narrow type's range: the assignment `narrow = wide` is dominated by a range test (interval of `wide` at the
    assignment lies inside the target type).  Narrowing first and testing the narrow value afterwards accepts every value
    whose low bits happen to be in range."""
    res = Result("CONVNARROW")
    files = set(ctx.get("files", [])) if ctx else None
    for f in funcs_of(prog, files):
        # locals whose address is handed to a convert() call
        conv_locals = {}
        for b, i, e in f.elements():
            if e.get("k") == "call" and e.get("callee") is not None:
                c = strip(e["callee"], all_casts=True)
                if (c.get("k") == "mem" and c.get("f") == "convert") or (callee_name(e) or "").endswith("convert"):
                    for a in e.get("args", [])[-1:]:
                        a = strip(a, all_casts=True)
                        if a.get("k") == "un" and a.get("op") == "&":
                            x = strip(a["e"], lvalue_to_rvalue=False)
                            if x.get("k") == "ref" and "id" in x["d"] and f.T(x.get("t")).get("k") == "int":
                                conv_locals[x["d"]["id"]] = x["d"]["n"]
        if not conv_locals:
            continue
        sites = []
        for b, i, e in f.elements():
            for n in walk_own(e):
                if n.get("k") == "bin" and n.get("op") == "=":
                    r = raw_rhs(n["b"])
                    rs = strip(r, all_casts=True)
                    if rs.get("k") == "ref" and rs["d"].get("id") in conv_locals:
                        LT = f.T(strip(n["a"], lvalue_to_rvalue=False).get("t"))
                        RT = f.T(rs.get("t"))
                        if LT.get("k") == "int" and RT.get("k") == "int" and (LT.get("sz") or 4) < (RT.get("sz") or 4):
                            sites.append((b, i, n, rs))
        if not sites:
            continue
        an = null_partitioned(prog, f)
        for b, i, n, rs in sites:
            v = None
            el = f.blocks[b.id].el[i]
            for st in an.pre_parts.get((b.id, i), {}).values():
                x = an.ev(rs, dict(st), True, el)
                v = x if v is None else AV(min(v.lo, x.lo), max(v.hi, x.hi), v.nan or x.nan)
            if v is None:
                continue
            # the variable's address was given to convert(): the interval engine does not follow it; the guards that
            # dominate the assignment are read directly:  if (x < A || x > B) leave;  /  if (x >= A && x <= B) { here }
            lo, hi = v.lo, v.hi
            dom = f.dominators()
            for did in dom[b.id]:
                D = f.blocks[did]
                if did == b.id or not (D.term and D.term.get("cond") is not None and len(D.succ) == 2):
                    continue
                for edge, sx in enumerate(D.succ):
                    if sx is None or sx not in dom[b.id]:
                        continue       # this edge does not lead (exclusively) here
                    other = D.succ[1 - edge]
                    if other is not None and b.id in f.reachable_from(other, avoid={sx}):
                        continue
                    truth = edge == 0
                    cs = strip(D.term["cond"], all_casts=True)
                    parts = []

                    def flat(c, op):
                        c = strip(c, all_casts=True)
                        if c.get("k") == "bin" and c.get("op") == op:
                            flat(c["a"], op)
                            flat(c["b"], op)
                        else:
                            parts.append(c)
                    if cs.get("k") == "bin" and cs.get("op") == "||" and not truth:
                        flat(cs, "||")
                        neg = True
                    elif cs.get("k") == "bin" and cs.get("op") == "&&" and truth:
                        flat(cs, "&&")
                        neg = False
                    elif D.term.get("cls") != "BinaryOperator" or True:
                        parts.append(cs)
                        neg = not truth
                    for c in parts:
                        if not (c.get("k") == "bin" and c.get("op") in ("<", "<=", ">", ">=")):
                            continue
                        a_ = strip(c["a"], all_casts=True)
                        k_ = cval(c["b"])
                        op = c["op"]
                        if not (a_.get("k") == "ref" and a_["d"].get("id") == rs["d"]["id"] and k_ is not None):
                            continue
                        if neg:
                            op = {"<": ">=", "<=": ">", ">": "<=", ">=": "<"}[op]
                        if op == "<":
                            hi = min(hi, k_ - 1)
                        elif op == "<=":
                            hi = min(hi, k_)
                        elif op == ">":
                            lo = max(lo, k_ + 1)
                        else:
                            lo = max(lo, k_)
            v = AV(lo, hi)
            LT = f.T(strip(n["a"], lvalue_to_rvalue=False).get("t"))
            tr = type_range(LT)
            ok = v.within(tr.lo, tr.hi)
            res.ob("%s:%s" % (f.qn, norm(show(n, f))[:60]), ok, f, n.get("l", f.line),
                   "" if ok else "`%s` (%s, value %s after convert()) is narrowed to %s before any range test: values outside [%s, %s] are cut to their low bits and may pass the later check" % (
                       rs["d"]["n"], f.tstr(rs.get("t")), v, LT.get("s"), tr.lo, tr.hi))
    return res


def run_narrowedge(prog, ctx=None):
    """NARROWEDGE: where a wider integer is stored into a narrower member behind a range test, the test admits the whole range
    of the member: an accepted interval that stops exactly one short of the member's largest (or smallest) value refuses a
    value the member can hold (`x >= UINT8_MAX` written for `x > UINT8_MAX`)."""
    res = Result("NARROWEDGE")
    files = set(ctx.get("files", [])) if ctx else None
    for f in funcs_of(prog, files):
        sites = []
        for b, i, e in f.elements():
            for n in walk_own(e):
                if n.get("k") == "bin" and n.get("op") == "=":
                    l = strip(n["a"], lvalue_to_rvalue=False)
                    r = raw_rhs(n["b"])
                    rs = strip(r, all_casts=True)
                    if l.get("k") != "mem" or rs.get("k") != "ref" or rs["d"].get("dk") != "param":
                        continue
                    LT, RT = f.T(l.get("t")), f.T(rs.get("t"))
                    if LT.get("k") == "int" and RT.get("k") == "int" and (LT.get("sz") or 4) < (RT.get("sz") or 4):
                        sites.append((b, i, n, rs, LT))
        if not sites:
            continue
        an = null_partitioned(prog, f)
        for b, i, n, rs, LT in sites:
            v = None
            el = f.blocks[b.id].el[i]
            for st in an.pre_parts.get((b.id, i), {}).values():
                x = an.ev(rs, dict(st), True, el)
                v = x if v is None else AV(min(v.lo, x.lo), max(v.hi, x.hi), v.nan or x.nan)
            rg = type_range(LT)
            if v is None or rg is None:
                continue
            rg = (rg.lo, rg.hi)
            short_hi = v.hi == rg[1] - 1 and v.lo >= rg[0]
            short_lo = v.lo == rg[0] + 1 and v.hi <= rg[1] and rg[0] != 0
            ok = not (short_hi or short_lo)
            res.ob("%s:%s" % (f.qn, norm(show(n, f))[:50]), ok, f, n.get("l", f.line),
                   "" if ok else "%s: `%s` is stored with an accepted range [%s, %s]; the member holds [%s, %s]: the range test refuses the boundary value" % (
                       f.qn, norm(show(n, f))[:40], v.lo, v.hi, rg[0], rg[1]))
    return res


RAW_INITIALISERS = ("mpt_identifier_init",)


def run_initlive(prog, ctx=None):
    """INITLIVE: mpt_identifier_init() makes raw memory an empty identifier: it resets the length and clears the inline
    area that overlays the pointer to separately allocated content, without releasing that content.  It is applied only to
    memory that holds no identifier yet: inside a constructor, inside a type_traits `init` operation (raw slot by
    contract), on a local of the calling function, or on memory the function allocated itself.  On `*this` of another
    member function, or on an object that came in through a parameter, it forgets (leaks) a long name and breaks
    self-assignment."""
    res = Result("INITLIVE")
    from .rules_effect import root_of
    from .rules_traits import traits_functions
    raw_ok = {g.key() for role, g, key in traits_functions(prog) if role == "init"}
    files = set(ctx.get("files", [])) if ctx else None
    for f in funcs_of(prog, files):
        for b, i, e in f.elements():
            if e.get("k") != "call" or callee_name(e) not in RAW_INITIALISERS or not e.get("args"):
                continue
            a0 = e["args"][0]
            root = root_of(a0)
            why = None
            if f.d.get("ctor"):
                why = "constructor"
            elif f.key() in raw_ok:
                why = "type_traits init operation"
            elif f.name in RAW_INITIALISERS:
                why = "the initialiser itself"
            elif root is not None and root != 0:
                pids = {p["id"] for p in f.params}
                if root not in pids:
                    # a local: either the object itself (&local) or a pointer the function obtained from an allocation
                    alloc = False
                    islocal_obj = False
                    for b2, i2, n in f.walk_all():
                        pairs = []
                        if n.get("k") == "decl":
                            for v in n["vars"]:
                                if v["id"] == root:
                                    if f.T(v.get("t")).get("k") != "ptr":
                                        islocal_obj = True
                                    if v.get("init") is not None:
                                        pairs.append(v["init"])
                        elif n.get("k") == "bin" and n.get("op") == "=":
                            l = strip(n["a"], lvalue_to_rvalue=False)
                            if l.get("k") == "ref" and l["d"].get("id") == root:
                                pairs.append(n["b"])
                        for rhs in pairs:
                            for m in walk(rhs):
                                if m.get("k") == "call" and callee_name(m) in ("malloc", "calloc", "realloc"):
                                    alloc = True
                                if m.get("k") == "new":
                                    alloc = True
                    if islocal_obj:
                        why = "local object"
                    elif alloc:
                        why = "memory allocated here"
            res.ob("%s:%s" % (f.qn, norm(show(e, f))[:60]), why is not None, f, e.get("l", f.line) or f.line,
                   "" if why is not None else "`%s` runs the raw initialiser on %s in %s, which is neither a constructor nor an init operation on raw memory: content the identifier holds (a separately allocated long name) is forgotten, not released" % (
                       norm(show(e, f))[:80], "*this" if root == 0 else "an object that came in from the caller", f.qn))
    return res
