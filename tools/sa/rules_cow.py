"""COWGUARD (C04): a handle-level function writes into the buffer of its array handle only when that buffer is private.

Typestate per buffer pointer local b (ghost facts carried as the partition key of the interval analysis):
  fresh     b is the result of detach() / _mpt_buffer_alloc() / mpt_array_reserve() on this path
  noshared  a get_flags() test on this path excluded BufferShared
  noimm     a get_flags() test on this path excluded BufferImmutable
A write through b (store to b->_used, mem* into memory derived from b, or handing b to a buffer-level mutator) needs
fresh, or noshared together with (noimm or a callee that refuses immutable buffers itself: mpt_buffer_insert).
"""
from .facts import strip, cval, walk, walk_own, show, callee_name
from .ival import Analysis, AV
from .core import Result, Broken, norm
from .rules_effect import root_of, is_deref_store
from .rules_path import funcs_of

FRESH_CALLS = ("_mpt_buffer_alloc", "mpt_array_reserve", "_mpt_buffer_alloc_detach")
MUTATORS = {"mpt_buffer_set": False, "mpt_buffer_cut": False, "mpt_buffer_insert": True}   # True: refuses immutable itself
# handle-level callees that return non-null only with a private buffer installed in the handle (each is itself checked by this rule)
PRIVATE_MAKERS = ("mpt_array_slice", "mpt_array_insert", "mpt_array_set", "mpt_array_reserve", "mpt_array_append")
HANDLES = ("mpt_array", "array", "mpt_slice", "slice", "mpt_encode_array", "encode_array", "mpt_path", "path")


def is_buffer_ptr(f, tid):
    T = f.T(tid)
    if T.get("k") != "ptr":
        return False
    P = f.T(T.get("to"))
    return P.get("k") == "record" and P.get("name", "").split("::")[-1] in ("mpt_buffer", "buffer")


def run(prog, ctx=None):
    res = Result("COWGUARD")
    files = set(ctx.get("files", [])) if ctx else None
    ec = prog.enum_consts
    SH = ec.get("MPT_BufferShared", ec.get("BufferShared"))
    IM = ec.get("MPT_BufferImmutable", ec.get("BufferImmutable"))
    if SH is None or IM is None:
        raise Broken("anchor missing: BufferShared/BufferImmutable flags")
    nfun = 0
    static_ctx = {}      # static callee key -> list of bool (call site holds a private buffer of the handle it passes)
    todo = sorted(funcs_of(prog, files), key=lambda g: (g.static, g.file, g.line))
    for f in todo:
        # handle parameters
        handles = []
        for p in f.params:
            pt = f.pointee(p["t"])
            if pt is not None:
                PT = f.T(pt)
                if PT.get("k") == "record" and PT.get("name", "").split("::")[-1] in HANDLES and not PT.get("const"):
                    handles.append(p["id"])
        if not handles:
            continue
        # buffer locals loaded from a handle:  b = arr->_buf   (or an alias of such a local)
        bufs = set()
        changed = True
        while changed:
            changed = False
            for b, i, n in f.walk_all():
                pairs = []
                if n.get("k") == "bin" and n.get("op") == "=":
                    l = strip(n["a"], lvalue_to_rvalue=False)
                    if l.get("k") == "ref" and "id" in l["d"]:
                        pairs.append((l["d"]["id"], l.get("t"), n["b"]))
                elif n.get("k") == "decl":
                    for v in n["vars"]:
                        if v.get("init") is not None:
                            pairs.append((v["id"], v["t"], v["init"]))
                for vid, t, rhs in pairs:
                    if vid in bufs or not is_buffer_ptr(f, t):
                        continue
                    r = strip(rhs, all_casts=True)
                    src_ok = False
                    if r.get("k") == "mem" and r.get("f") == "_buf" and root_of(r) in handles:
                        src_ok = True
                    elif r.get("k") == "ref" and r["d"].get("id") in bufs:
                        src_ok = True
                    elif r.get("k") == "bin" and r.get("op") == "=":
                        # (b = arr->_buf) nested
                        rr = strip(r["b"], all_casts=True)
                        src_ok = rr.get("k") == "mem" and rr.get("f") == "_buf" and root_of(rr) in handles
                    if src_ok:
                        bufs.add(vid)
                        changed = True
        if not bufs:
            continue
        buf_handle = {}
        for b, i, n in f.walk_all():
            pairs = []
            if n.get("k") == "bin" and n.get("op") == "=":
                l = strip(n["a"], lvalue_to_rvalue=False)
                if l.get("k") == "ref" and l["d"].get("id") in bufs:
                    pairs.append((l["d"]["id"], n["b"]))
            elif n.get("k") == "decl":
                for v in n["vars"]:
                    if v["id"] in bufs and v.get("init") is not None:
                        pairs.append((v["id"], v["init"]))
            for vid, rhs in pairs:
                r = strip(rhs, all_casts=True)
                if r.get("k") == "bin" and r.get("op") == "=":
                    r = strip(r["b"], all_casts=True)
                if r.get("k") == "mem" and r.get("f") == "_buf" and root_of(r) in handles:
                    buf_handle.setdefault(vid, set()).add(root_of(r))
        # data pointers derived from a buffer local: dest = ((uint8_t *)(b + 1)) + used
        derived = {}
        changed = True
        while changed:
            changed = False
            for b, i, n in f.walk_all():
                pairs = []
                if n.get("k") == "bin" and n.get("op") == "=":
                    l = strip(n["a"], lvalue_to_rvalue=False)
                    if l.get("k") == "ref" and "id" in l["d"]:
                        pairs.append((l["d"]["id"], n["b"]))
                elif n.get("k") == "decl":
                    for v in n["vars"]:
                        if v.get("init") is not None:
                            pairs.append((v["id"], v["init"]))
                for vid, rhs in pairs:
                    if vid in bufs or vid in derived:
                        continue
                    if strip(rhs, all_casts=True).get("k") == "call":
                        continue
                    r = root_of(rhs)
                    if r in bufs:
                        derived[vid] = r
                        changed = True
                    elif r in derived:
                        derived[vid] = derived[r]
                        changed = True
        flagvars = {}   # flags local -> buffer local
        for b, i, n in f.walk_all():
            if n.get("k") == "bin" and n.get("op") == "=" or n.get("k") == "decl":
                pairs = []
                if n.get("k") == "bin":
                    l = strip(n["a"], lvalue_to_rvalue=False)
                    if l.get("k") == "ref" and "id" in l["d"]:
                        pairs.append((l["d"]["id"], n["b"]))
                else:
                    for v in n["vars"]:
                        if v.get("init") is not None:
                            pairs.append((v["id"], v["init"]))
                for vid, rhs in pairs:
                    c = strip(rhs, all_casts=True)
                    if c.get("k") == "call" and c.get("callee") is not None:
                        cal = strip(c["callee"], all_casts=True)
                        if cal.get("k") == "mem" and cal.get("f") == "get_flags" and c.get("args"):
                            r = root_of(c["args"][0])
                            if r in bufs:
                                flagvars[vid] = r
        nfun += 1
        PK = Analysis.PK

        def buf_of_flagexpr(e):
            """buffer local whose flags expression e reads, and the mask constant"""
            e = strip(e, all_casts=True)
            if e.get("k") != "bin" or e.get("op") != "&":
                return None, None
            for x, y in ((e["a"], e["b"]), (e["b"], e["a"])):
                m = cval(y)
                if m is None:
                    continue
                xs = strip(x, all_casts=True)
                if xs.get("k") == "ref" and xs["d"].get("id") in flagvars:
                    return flagvars[xs["d"]["id"]], m
                if xs.get("k") == "call" and xs.get("callee") is not None:
                    cal = strip(xs["callee"], all_casts=True)
                    if cal.get("k") == "mem" and cal.get("f") == "get_flags" and xs.get("args"):
                        r = root_of(xs["args"][0])
                        if r in bufs:
                            return r, m
            return None, None

        def edge_hook(an, b, cond, truth, st):
            c = strip(cond, all_casts=True)
            neg = False
            while c.get("k") == "un" and c.get("op") == "!":
                neg = not neg
                c = strip(c["e"], all_casts=True)
            if c.get("k") == "bin" and c.get("op") in ("==", "!=") and cval(c["b"]) == 0:
                if c["op"] == "==":
                    neg = not neg
                c = strip(c["a"], all_casts=True)
            # success of a private-making handle-level callee: `if (!(p = mpt_array_slice(arr, ..))) return`
            cc = c
            if cc.get("k") == "bin" and cc.get("op") == "=":
                cc = strip(cc["b"], all_casts=True)
            if cc.get("k") == "call" and callee_name(cc) in PRIVATE_MAKERS and cc.get("args"):
                h = root_of(cc["args"][0])
                if h in handles and (truth != neg):
                    facts = set(st.get(PK) or ())
                    facts.add((h, "hfresh"))
                    st[PK] = frozenset(facts)
                return
            bv, mask = buf_of_flagexpr(c)
            if bv is None:
                return
            flag_clear = (not truth) != neg      # the masked flags are all zero on this edge
            if not flag_clear:
                return
            facts = set(st.get(PK) or ())
            if mask & SH:
                facts.add((bv, "noshared"))
            if mask & IM:
                facts.add((bv, "noimm"))
            st[PK] = frozenset(facts)

        findings = {}

        def dbuf(st, r):
            """buffer local a data pointer currently points into (flow sensitive)"""
            if r in bufs:
                return r
            for x in (st.get(PK) or ()):
                if x[0] == "d" and x[1] == r:
                    return x[2]
            return None

        restore_vars = set()     # locals that only ever hold a value loaded from a buffer's _used field
        bad_rv = set()
        for b_, i_, n_ in f.walk_all():
            pairs = []
            if n_.get("k") == "bin" and n_["op"].endswith("=") and n_["op"] not in ("==", "!=", "<=", ">="):
                l = strip(n_["a"], lvalue_to_rvalue=False)
                if l.get("k") == "ref" and "id" in l["d"]:
                    pairs.append((l["d"]["id"], n_["b"], n_["op"]))
            elif n_.get("k") == "decl":
                for v in n_["vars"]:
                    if v.get("init") is not None:
                        pairs.append((v["id"], v["init"], "="))
            elif n_.get("k") == "un" and n_.get("op") in ("++", "--"):
                l = strip(n_["e"], lvalue_to_rvalue=False)
                if l.get("k") == "ref" and "id" in l["d"]:
                    bad_rv.add(l["d"]["id"])
            for vid, rhs, op in pairs:
                r = strip(rhs, all_casts=True)
                if r.get("k") == "cond":
                    arms = [strip(r["a"], all_casts=True), strip(r["b"], all_casts=True)]
                else:
                    arms = [r]
                good = op == "=" and all((a.get("k") == "mem" and a.get("f") == "_used") or cval(a) == 0 for a in arms)
                if good:
                    restore_vars.add(vid)
                else:
                    bad_rv.add(vid)
        restore_vars -= bad_rv

        def need(an, st, bv, node, refuses_imm, what):
            facts = st.get(PK) or frozenset()
            if what == "store" and node.get("k") == "bin" and node.get("op") == "=":
                l = strip(node["a"], lvalue_to_rvalue=False)
                v = strip(node["b"], all_casts=True)
                if l.get("k") == "mem" and l.get("f") == "_used" and v.get("k") == "ref" and v["d"].get("id") in restore_vars:
                    # restore idiom: puts back the length read from the buffer before a failed operation (no visible change)
                    key = "%s:%s" % (f.qn, norm(show(node, f))[:90])
                    findings.setdefault(key, (True, node.get("l", 0), "restore", []))
                    return
            ok = (bv, "fresh") in facts or ((bv, "noshared") in facts and ((bv, "noimm") in facts or refuses_imm))
            key = "%s:%s" % (f.qn, norm(show(node, f))[:90])
            miss = []
            if (bv, "noshared") not in facts:
                miss.append("BufferShared")
            if (bv, "noimm") not in facts and not refuses_imm:
                miss.append("BufferImmutable")
            old = findings.get(key)
            if old is None or (old[0] and not ok):
                findings[key] = (ok, node.get("l", 0), what, miss)

        def hook(an, b, i, el, st):
            facts = set(st.get(PK) or ())
            # a private-making function hands its buffer out for writing: what it returns is private
            if el.get("k") == "ret" and el.get("e") is not None and f.name in PRIVATE_MAKERS and cval(el["e"]) is None and is_buffer_ptr(f, el["e"].get("t")):
                r = root_of(el["e"])
                if r in bufs:
                    need(an, st, r, el, False, "return of the handle's buffer to a caller that will write")
            # STALE: dereference of a buffer pointer loaded before a call that may have replaced the handle's buffer
            for n in walk_own(el):
                p = None
                if n.get("k") == "mem" and n.get("arrow"):
                    p = n["b"]
                elif n.get("k") == "un" and n.get("op") == "*":
                    p = n["e"]
                elif n.get("k") == "bin" and n.get("op") in ("+", "-") and f.T(n.get("t")).get("k") == "ptr":
                    p = n["a"]      # (buf + 1): address of the payload of that buffer object
                if p is not None:
                    ps = strip(p, all_casts=True)
                    if ps.get("k") == "ref" and (ps["d"].get("id"), "stale") in facts:
                        key = "%s:stale:%s" % (f.qn, norm(show(n, f))[:60])
                        findings[key] = (False, n.get("l", 0), "stale", ps["d"]["n"])
            for n in walk_own(el):
                k = n.get("k")
                # writes
                if k == "bin" and n["op"].endswith("=") and n["op"] not in ("==", "!=", "<=", ">="):
                    l = strip(n["a"], lvalue_to_rvalue=False)
                    if is_deref_store(l):
                        r = root_of(l)
                        bv = dbuf(st, r)
                        if bv is not None:
                            # header fields other than the used length are bookkeeping of a fresh buffer (traits assignment)
                            if l.get("k") == "mem" and l.get("f") in ("_content_traits",):
                                pass
                            else:
                                need(an, st, bv, n, False, "store")
                elif k == "un" and n.get("op") in ("++", "--") and is_deref_store(n["e"]):
                    r = root_of(n["e"])
                    bv = dbuf(st, r)
                    if bv is not None:
                        need(an, st, bv, n, False, "store")
                elif k == "call":
                    nm = callee_name(n)
                    if nm in ("memcpy", "memset", "memmove") and n.get("args"):
                        r = root_of(n["args"][0])
                        bv = dbuf(st, r)
                        if bv is not None:
                            need(an, st, bv, n, False, nm)
                    elif nm in MUTATORS and n.get("args"):
                        r = root_of(n["args"][0])
                        a0 = strip(n["args"][0], all_casts=True)
                        if r in bufs:
                            need(an, st, r, n, MUTATORS[nm], nm)
                        elif r in handles and a0.get("k") == "mem" and a0.get("f") == "_buf":
                            # buffer taken straight from the handle: private only right after a private-making callee succeeded
                            ok = (r, "hfresh") in facts
                            key = "%s:%s" % (f.qn, norm(show(n, f))[:90])
                            if key not in findings or not ok:
                                findings[key] = (ok, n.get("l", 0), nm, ["BufferShared", "BufferImmutable"])
                    elif n.get("fn", {}).get("inroot") and n.get("args"):
                        # handle passed on: static helpers inherit the caller's guard, everything else may replace the buffer
                        for a in n["args"][:1]:
                            h = root_of(a)
                            sa = strip(a, all_casts=True)
                            # the handle itself (arr, &sl->_a), not a value loaded from it (sl->_a._buf)
                            is_handle = sa.get("k") == "ref" or (sa.get("k") == "un" and sa.get("op") == "&")
                            if h in handles and is_handle:
                                cs = prog.resolve_call(f, n)
                                guarded = any((x[0] in bufs and (x[1] == "fresh" or (x[1] == "noshared" and (x[0], "noimm") in facts))) for x in facts if len(x) == 2)
                                if cs and cs[0].static:
                                    static_ctx.setdefault(cs[0].key(), []).append(guarded)
                                if nm not in PRIVATE_MAKERS:
                                    facts = {x for x in facts if not (len(x) == 2 and x[1] == "hfresh" and x[0] == h)}
                                # the callee may install another buffer in the handle: pointers loaded earlier are stale
                                if cs and not f.T(cs[0].pointee(cs[0].params[0]["t"]) if cs[0].params and cs[0].pointee(cs[0].params[0]["t"]) is not None else -1).get("const"):
                                    for bv, hs in buf_handle.items():
                                        if h in hs:
                                            facts.add((bv, "stale"))
            # assignments to buffer locals change their facts
            for n in walk_own(el):
                pairs = []
                if n.get("k") == "bin" and n.get("op") == "=":
                    l = strip(n["a"], lvalue_to_rvalue=False)
                    if l.get("k") == "ref" and l["d"].get("id") in bufs:
                        pairs.append((l["d"]["id"], n["b"]))
                elif n.get("k") == "decl":
                    for v in n["vars"]:
                        if v["id"] in bufs and v.get("init") is not None:
                            pairs.append((v["id"], v["init"]))
                for vid, rhs in pairs:
                    facts = {x for x in facts if x[0] != vid}
                    c = strip(rhs, all_casts=True)
                    if c.get("k") == "bin" and c.get("op") == "=":
                        c = strip(c["b"], all_casts=True)
                    if c.get("k") == "mem" and c.get("f") == "_buf" and (root_of(c), "hfresh") in facts:
                        facts.add((vid, "fresh"))
                    if c.get("k") == "call":
                        nm = callee_name(c)
                        cal = strip(c["callee"], all_casts=True) if c.get("callee") is not None else {}
                        if nm in FRESH_CALLS or (cal.get("k") == "mem" and cal.get("f") == "detach"):
                            facts.add((vid, "fresh"))
                    elif c.get("k") == "ref" and c["d"].get("id") in bufs:
                        facts |= {(vid, x[1]) for x in facts if x[0] == c["d"]["id"]}
            # data pointers (flow sensitive) and stores of the handle's buffer field
            for n in walk_own(el):
                pairs = []
                if n.get("k") == "bin" and n.get("op") == "=":
                    l = strip(n["a"], lvalue_to_rvalue=False)
                    if l.get("k") == "ref" and "id" in l["d"] and l["d"]["id"] not in bufs:
                        pairs.append((l["d"]["id"], n["b"]))
                    elif l.get("k") == "mem" and l.get("f") == "_buf" and root_of(l) in handles:
                        h = root_of(l)
                        v = strip(n["b"], all_casts=True)
                        facts = {x for x in facts if not (x[0] == h and len(x) == 2 and x[1] == "hfresh")}
                        if v.get("k") == "ref" and (v["d"].get("id"), "fresh") in facts:
                            facts.add((h, "hfresh"))
                elif n.get("k") == "decl":
                    for v in n["vars"]:
                        if v.get("init") is not None and v["id"] not in bufs:
                            pairs.append((v["id"], v["init"]))
                for vid, rhs in pairs:
                    facts = {x for x in facts if not (x[0] == "d" and x[1] == vid)}
                    if strip(rhs, all_casts=True).get("k") == "call":
                        continue
                    r = root_of(rhs)
                    if r is None:
                        continue
                    if r in bufs:
                        facts.add(("d", vid, r))
                    else:
                        for x in list(facts):
                            if x[0] == "d" and x[1] == r:
                                facts.add(("d", vid, x[2]))
            st[PK] = frozenset(facts)

        an = Analysis(prog, f, hook=hook, edge_hook=edge_hook)
        st0 = an.entry_state()
        st0[PK] = frozenset()
        if f.static and static_ctx.get(f.key()) and all(static_ctx[f.key()]):
            # every call site of this file-local helper holds a private buffer of the handle it passes
            st0[PK] = frozenset((h, "hfresh") for h in handles)
        an.run(state=st0)
        for key, (ok, line, what, miss) in sorted(findings.items()):
            if what == "stale":
                res.ob(key, False, f, line, "%s was loaded from the handle before a call that may replace the handle's buffer and is used without re-loading it" % miss)
                continue
            res.ob(key, ok, f, line, "" if ok else "%s into the handle's buffer without a private copy: no detach()/allocation on this path and no get_flags() test excluding %s" % (
                what, " and ".join(miss)))
        if not findings:
            res.ob("%s:no-direct-write" % f.qn, True, f, f.line)
    if nfun < (ctx.get("min_functions", 3) if ctx else 3):
        raise Broken("COWGUARD: only %d handle-level functions found" % nfun)
    return res


def run_sliceoff(prog, ctx=None):
    """SLICEOFF: a slice denotes payload[_off, _off + _len): a copy of _len bytes out of the slice's buffer starts at _off
    (the source expression mentions the slice's _off, directly or through a local loaded from it)"""
    res = Result("SLICEOFF")
    files = set(ctx.get("files", [])) if ctx else None
    for f in funcs_of(prog, files):
        # locals loaded from S->_len / S->_off
        lenv, offv = {}, {}
        for b, i, n in f.walk_all():
            pairs = []
            if n.get("k") == "bin" and n.get("op") == "=":
                l = strip(n["a"], lvalue_to_rvalue=False)
                if l.get("k") == "ref" and "id" in l["d"]:
                    pairs.append((l["d"]["id"], n["b"]))
            elif n.get("k") == "decl":
                for v in n["vars"]:
                    if v.get("init") is not None:
                        pairs.append((v["id"], v["init"]))
            for vid, rhs in pairs:
                r = strip(rhs, all_casts=True)
                if r.get("k") == "bin" and r.get("op") == "=":
                    r = strip(r["b"], all_casts=True)
                if r.get("k") == "mem" and r.get("rec", "").split("::")[-1] in ("mpt_slice", "slice"):
                    if r["f"] == "_len":
                        lenv.setdefault(vid, set()).add(norm(show(r["b"], f)))
                    elif r["f"] == "_off":
                        offv.setdefault(vid, set()).add(norm(show(r["b"], f)))
        for b, i, e in f.elements():
            if e.get("k") != "call" or callee_name(e) not in ("memcpy", "memmove") or len(e.get("args", [])) != 3:
                continue
            ln = strip(e["args"][2], all_casts=True)
            S = None
            if ln.get("k") == "mem" and ln.get("f") == "_len" and ln.get("rec", "").split("::")[-1] in ("mpt_slice", "slice"):
                S = norm(show(ln["b"], f))
            elif ln.get("k") == "ref" and ln["d"].get("id") in lenv and len(lenv[ln["d"]["id"]]) == 1:
                S = list(lenv[ln["d"]["id"]])[0]
            if S is None:
                continue
            src = e["args"][1]
            has_off = False
            for n in walk(src):
                if n.get("k") == "mem" and n.get("f") == "_off" and norm(show(n["b"], f)) == S:
                    has_off = True
                if n.get("k") == "ref" and n["d"].get("id") in offv and S in offv[n["d"]["id"]]:
                    has_off = True
            res.ob("%s:%s" % (f.qn, norm(show(e, f))[:70]), has_off, f, e.get("l", 0),
                   "" if has_off else "copies %s->_len bytes from the start of the buffer, not from %s->_off: consumed bytes reappear and the tail is lost" % (S, S))
    return res


def run_bufinstall(prog, ctx=None):
    """BUFINSTALL: a buffer obtained from detach() or an allocation is installed in a handle (`H->_buf = b`) only where it is
    known to be non-null: a refused detach must leave the handle with the buffer it had (trace partition on the function's own
    null tests of b; an installed null makes the handle read empty and leaks its reference)."""
    from .rules_path import null_partitioned, tested_pointers
    res = Result("BUFINSTALL")
    files = set(ctx.get("files", [])) if ctx and ctx.get("files") else None
    n = 0
    for f in funcs_of(prog, files):
        producers = set()
        for b, i, nn in f.walk_all():
            pairs = []
            if nn.get("k") == "bin" and nn.get("op") == "=":
                l = strip(nn["a"], lvalue_to_rvalue=False)
                if l.get("k") == "ref" and "id" in l["d"]:
                    pairs.append((l["d"]["id"], nn["b"]))
            elif nn.get("k") == "decl":
                for v in nn["vars"]:
                    if v.get("init") is not None:
                        pairs.append((v["id"], v["init"]))
            for vid, rhs in pairs:
                c = strip(rhs, all_casts=True)
                if c.get("k") == "call":
                    nm = callee_name(c) or ""
                    cal = strip(c["callee"], all_casts=True) if c.get("callee") is not None else {}
                    if nm in FRESH_CALLS or (cal.get("k") == "mem" and cal.get("f") == "detach"):
                        producers.add(vid)
        if not producers:
            continue
        stores = []
        for b, i, e in f.elements():
            for nn in walk_own(e):
                if nn.get("k") == "bin" and nn.get("op") == "=":
                    l = strip(nn["a"], lvalue_to_rvalue=False)
                    v = strip(nn["b"], all_casts=True)
                    if l.get("k") == "mem" and l.get("f") == "_buf" and v.get("k") == "ref" and v["d"].get("id") in producers:
                        stores.append((b, i, nn, v["d"]["id"], v["d"]["n"]))
        if not stores:
            continue
        tv = sorted(tested_pointers(f))
        an = null_partitioned(prog, f)
        for b, i, nn, vid, vname in stores:
            n += 1
            if vid not in tv:
                res.ob("%s:%s" % (f.qn, norm(show(nn, f))[:40]), False, f, nn.get("l", f.line),
                       "%s installs `%s`, the result of detach()/an allocation, in the handle without ever testing it for null" % (f.qn, vname))
                continue
            k = tv.index(vid)
            keys = [key for key in an.pre_parts.get((b.id, i), {}) if isinstance(key, str) and len(key) > k]
            ok = bool(keys) and all(key[k] == "P" for key in keys)
            res.ob("%s:%s" % (f.qn, norm(show(nn, f))[:40]), ok, f, nn.get("l", f.line),
                   "" if ok else "%s: `%s` runs on a path where `%s` (result of detach()/an allocation) may be null: the handle loses its buffer when the request is refused" % (
                       f.qn, norm(show(nn, f))[:40], vname))
    if n < 5:
        raise Broken("BUFINSTALL: only %d installs of produced buffers" % n)
    return res


def buf_replacers(prog):
    """{function key: set of parameter positions} whose array's `_buf` the function may replace: it stores to P->_buf itself
    or hands P to a function that does (fixpoint over the resolved call graph)"""
    from .rules_path import funcs_of
    fs = funcs_of(prog, None)
    rep = {}
    arrpar = {}
    for f in fs:
        ps = {}
        for j, p in enumerate(f.params):
            T = f.T(p["t"])
            if T.get("k") == "ptr":
                PT = f.T(T.get("to"))
                if PT.get("k") == "record" and PT.get("name", "").split("::")[-1] in ("mpt_array", "array") and "const" not in (PT.get("s", "").split("struct")[0]):
                    ps[p["id"]] = j
        if ps:
            arrpar[f.key()] = ps
    for f in fs:
        ps = arrpar.get(f.key())
        if not ps:
            continue
        for b, i, n in f.walk_all():
            if n.get("k") == "bin" and n.get("op") == "=":
                l = strip(n["a"], lvalue_to_rvalue=False)
                if l.get("k") == "mem" and l.get("f") == "_buf":
                    bb = strip(l["b"], all_casts=True)
                    if bb.get("k") == "ref" and bb["d"].get("id") in ps:
                        rep.setdefault(f.key(), set()).add(ps[bb["d"]["id"]])
    changed = True
    while changed:
        changed = False
        for f in fs:
            ps = arrpar.get(f.key())
            if not ps:
                continue
            for b, i, e in f.elements():
                if e.get("k") != "call":
                    continue
                for g in prog.resolve_call(f, e):
                    gp = rep.get(g.key())
                    if not gp:
                        continue
                    for j in gp:
                        if j < len(e.get("args", [])):
                            a = strip(e["args"][j], all_casts=True)
                            if a.get("k") == "ref" and a["d"].get("id") in ps and ps[a["d"]["id"]] not in rep.get(f.key(), set()):
                                rep.setdefault(f.key(), set()).add(ps[a["d"]["id"]])
                                changed = True
    return rep


def run_stalebuf(prog, ctx=None):
    """STALEBUF: an address computed from `A->_buf` does not outlive a call that may give A another buffer.  Functions that
    store to their array parameter's `_buf` (directly or through callees: slice, append, insert, set, reserve ..) may
    replace and release the buffer of a shared, immutable or full array; a local that was derived from the old `_buf` (or
    that `A._buf` was computed from) and is read, dereferenced or returned after such a call without being assigned again
    points into the other handles' storage or into freed memory.  Interval analysis with trace partitioning on the sets
    (derived locals, stale locals): paths are kept apart, branches the intervals exclude are not taken."""
    res = Result("STALEBUF")
    from .rules_path import funcs_of
    from .ival import Analysis
    files = set(ctx.get("files", [])) if ctx else None
    rep = buf_replacers(prog)
    if len(rep) < 5:
        raise Broken("STALEBUF: only %d functions found that replace an array's buffer" % len(rep))
    for f in funcs_of(prog, files):
        calls = {}
        for b, i, e in f.elements():
            if e.get("k") != "call":
                continue
            for g in prog.resolve_call(f, e):
                for j2 in rep.get(g.key(), ()):
                    if j2 < len(e.get("args", [])):
                        calls[e.get("sid", id(e))] = (norm(show(strip(e["args"][j2], all_casts=True), f)).lstrip("&"), g.name, e)
        if not calls:
            continue
        if not any(n.get("k") == "mem" and n.get("f") == "_buf" for b, i, n in f.walk_all()):
            continue
        PK = Analysis.PK
        reports = {}
        names = {}

        def buf_owner(e):
            """text of A for a load of A->_buf / A._buf inside e (not through a call)"""
            for m in walk_own(e) if isinstance(e, dict) else []:
                if m.get("k") == "mem" and m.get("f") == "_buf":
                    return norm(show(strip(m["b"], all_casts=True), f)).lstrip("&")
            return None

        def hook(an, blk, idx, el, st):
            derived, stale = st.get(PK) or (frozenset(), frozenset())
            derived, stale = dict(derived), set(stale)
            lhs = set()
            assigns = []
            for n in walk_own(el):
                if n.get("k") == "bin" and n.get("op") == "=":
                    l = strip(n["a"], lvalue_to_rvalue=False)
                    if l.get("k") == "ref" and "id" in l["d"]:
                        lhs.add(id(l))
                        assigns.append((l["d"]["id"], l["d"]["n"], n["b"], l.get("t")))
                    elif l.get("k") == "mem" and l.get("f") == "_buf":
                        # A._buf = E: what E is computed from points into A's buffer
                        key = norm(show(strip(l["b"], all_casts=True), f)).lstrip("&")
                        m = strip(n["b"], all_casts=True)
                        while m.get("k") == "bin" and m.get("op") in ("+", "-") and cval(m["b"]) is not None:
                            m = strip(m["a"], all_casts=True)
                        if m.get("k") == "ref" and m["d"].get("dk") in ("local", "param") and f.T(m.get("t")).get("k") == "ptr":
                            derived[m["d"]["id"]] = key
                            names[m["d"]["id"]] = m["d"]["n"]
                elif n.get("k") == "decl":
                    for v in n["vars"]:
                        if v.get("init") is not None:
                            assigns.append((v["id"], v["n"], v["init"], v.get("t")))
                        else:
                            stale.discard(v["id"])
            for n in walk_own(el):
                if n.get("k") == "ref" and n["d"].get("id") in stale and id(n) not in lhs:
                    reports.setdefault(n["d"]["id"], (el, blk.id))
            for vid, vn, rhs, vt in assigns:
                stale.discard(vid)
                derived.pop(vid, None)
                if f.T(vt).get("k") != "ptr" or not isinstance(rhs, dict):
                    continue
                src = None
                hascall = any(m.get("k") == "call" for m in walk_own(rhs))
                if not hascall:
                    src = buf_owner(rhs)
                    if src is None:
                        for m in walk_own(rhs):
                            if m.get("k") == "ref" and m["d"].get("id") in derived:
                                src = derived[m["d"]["id"]]
                if src is not None:
                    derived[vid] = src
                    names[vid] = vn
            if el.get("k") == "call" and el.get("sid", id(el)) in calls:
                akey = calls[el.get("sid", id(el))][0]
                for vid, src in list(derived.items()):
                    if src == akey:
                        stale.add(vid)
            st[PK] = (frozenset(derived.items()), frozenset(stale))

        an = Analysis(prog, f, hook=hook)
        st0 = an.entry_state()
        st0[PK] = (frozenset(), frozenset())
        an.run(state=st0)
        for sid, (akey, gname, e) in sorted(calls.items(), key=lambda x: (x[1][2].get("l") or 0)):
            bad = [(names.get(vid, "?"), r) for vid, r in reports.items()]
            # attribute a report to the replacing call whose array the stale local was derived from
            mine = []
            for vn, r in bad:
                mine.append((vn, r))
            res.ob("%s:%s(%s) at line %s" % (f.qn, gname, akey, e.get("l", f.line)), not mine, f, (mine[0][1][0].get("l") if mine else e.get("l")) or f.line,
                   "" if not mine else "`%s` was computed from the buffer of %s before %s() may have replaced that buffer and is used in `%s` without being assigned again: it points into the old buffer (shared with other handles, or freed)" % (
                       mine[0][0], akey, gname, norm(show(mine[0][1][0], f))[:80]))
    return res


CXX_MUTATORS = ("set_length", "append", "insert", "skip", "trim", "move", "copy")


def run_cxxcow(prog, ctx=None):
    """CXXCOW: in the C++ array classes a content object obtained from a handle (`d = _buf.instance()`) is changed in place
    (set_length / append / insert / skip / trim) only where `d->shared()` answered false on that path, or d was created
    or detached in this function.  Typestate with trace partitioning on the local: unknown / private; a condition that
    can leave the shared test unevaluated (`traits && shared` for `traits || shared`) keeps it unknown."""
    res = Result("CXXCOW")
    from .ival import Analysis
    files = set(ctx.get("cxx_files") or ctx.get("files") or []) if ctx else set()
    for f in sorted((g for g in prog.functions.values() if not g.nocfg and g.file in files), key=lambda g: (g.file, g.line, g.qn)):
        loc = {}
        for b, i, n in f.walk_all():
            pairs = []
            if n.get("k") == "bin" and n.get("op") == "=":
                l = strip(n["a"], lvalue_to_rvalue=False)
                if l.get("k") == "ref" and l["d"].get("dk") == "local":
                    pairs.append((l["d"]["id"], l["d"]["n"], n["b"]))
            elif n.get("k") == "decl":
                pairs += [(v["id"], v["n"], v["init"]) for v in n["vars"] if v.get("init") is not None]
            for vid, vn, rhs in pairs:
                for m in walk(rhs):
                    if m.get("k") == "call" and m.get("mcall") and (m.get("fn") or {}).get("n") == "instance":
                        loc[vid] = vn
        if not loc:
            continue
        sites = []
        for b, i, e in f.elements():
            if e.get("k") == "call" and e.get("mcall") and (e.get("fn") or {}).get("n") in CXX_MUTATORS and e.get("obj") is not None:
                o = strip(e["obj"], all_casts=True)
                if o.get("k") == "ref" and o["d"].get("id") in loc:
                    sites.append((b, i, e, o["d"]["id"]))
        if not sites:
            continue
        for vid in sorted({s[3] for s in sites}):
            PK = Analysis.PK

            def hook(an, blk, idx, el, st, vid=vid):
                for n in walk_own(el):
                    rhs = None
                    if n.get("k") == "bin" and n.get("op") == "=":
                        l = strip(n["a"], lvalue_to_rvalue=False)
                        if l.get("k") == "ref" and l["d"].get("id") == vid:
                            rhs = n["b"]
                    elif n.get("k") == "decl":
                        for v in n["vars"]:
                            if v["id"] == vid and v.get("init") is not None:
                                rhs = v["init"]
                    if rhs is not None:
                        fresh = any(m.get("k") == "call" and ((m.get("fn") or {}).get("n") in ("create", "detach") or callee_name(m) in ("_mpt_buffer_alloc",)) for m in walk(rhs))
                        if cval(rhs) == 0:
                            st[PK] = "P"          # no object: nothing to change
                        else:
                            st[PK] = "P" if fresh else "?"

            def edge_hook(an, blk, cond, truth, st, vid=vid):
                c = strip(cond, all_casts=True)
                neg = False
                while c.get("k") == "un" and c.get("op") == "!":
                    neg = not neg
                    c = strip(c["e"], all_casts=True)
                if c.get("k") == "call" and c.get("mcall") and (c.get("fn") or {}).get("n") == "shared" and c.get("obj") is not None:
                    o = strip(c["obj"], all_casts=True)
                    if o.get("k") == "ref" and o["d"].get("id") == vid and (truth == neg):
                        st[PK] = "P"
                if c.get("k") == "ref" and c["d"].get("id") == vid and (truth == neg):
                    st[PK] = "P"                  # null: no object

            an = Analysis(prog, f, hook=hook, edge_hook=edge_hook)
            st0 = an.entry_state()
            st0[PK] = "?"
            an.run(state=st0)
            for b, i, e, v2 in sites:
                if v2 != vid:
                    continue
                parts = an.pre_parts.get((b.id, i), {})
                bad = "?" in parts or "*" in parts
                res.ob("%s:%s->%s at line %s" % (f.qn, loc[vid], e["fn"]["n"], e.get("l", f.line)), not bad, f, e.get("l", f.line) or f.line,
                       "" if not bad else "`%s` changes the content object %s got from the handle on a path where %s->shared() was not known false and %s was not created here: other handles of the same buffer see the change" % (
                           norm(show(e, f))[:70], loc[vid], loc[vid], loc[vid]))
    return res


def run_detachfail(prog, ctx=None):
    """DETACHFAIL: a function that asks a buffer for a private copy (`n = c->detach(size)`) and does not get one reports
    that: from the null edge of the test of n no `return true` (bool), non-null pointer or non-negative status is reachable
    unless another detach/create call is made on the way.  A caller that is told the handle is private goes on to change
    the shared buffer in place."""
    res = Result("DETACHFAIL")
    files = set(ctx.get("cxx_files") or ctx.get("files") or []) if ctx else set()
    seen = set()
    for f in sorted((g for g in prog.functions.values() if not g.nocfg and (not files or g.file in files)), key=lambda g: (g.file, g.line, g.qn)):
        T = f.T(f.ret)
        if T.get("k") not in ("bool", "int", "ptr"):
            continue
        for bid, blk in sorted(f.blocks.items()):
            if not (blk.term and blk.term.get("cond") is not None and len(blk.succ) == 2):
                continue
            c = strip(blk.term["cond"], all_casts=True)
            neg = False
            while c.get("k") == "un" and c.get("op") == "!":
                neg = not neg
                c = strip(c["e"], all_casts=True)
            call = None
            if c.get("k") == "bin" and c.get("op") == "=":
                r = strip(c["b"], all_casts=True)
                if r.get("k") == "call":
                    call = r
            elif c.get("k") == "call":
                call = c
            if call is None or not call.get("args"):
                continue
            nm = (call.get("fn") or {}).get("n") if call.get("mcall") else None
            if nm is None and call.get("callee") is not None:
                ce = strip(call["callee"], all_casts=True)
                nm = ce.get("f") if ce.get("k") == "mem" else None
            if nm != "detach":
                continue
            key = (f.file, call.get("l"))
            if key in seen:
                continue
            seen.add(key)
            failed = blk.succ[0 if neg else 1]
            if failed is None:
                continue
            again = set()
            for b2, i2, e2 in f.elements():
                if e2.get("k") == "call" and e2 is not call:
                    n2 = (e2.get("fn") or {}).get("n") or ""
                    if n2 in ("detach", "create", "create_unique") or (callee_name(e2) or "").startswith("_mpt_buffer_alloc"):
                        again.add(b2.id)
            reach = ({failed} | set(f.reachable_from(failed, avoid=again))) - again
            bad = None
            for b2, i2, e2 in f.elements():
                if b2.id in reach and e2.get("k") == "ret" and e2.get("e") is not None:
                    v = cval(e2["e"])
                    if T.get("k") == "bool" and v == 1:
                        bad = e2
                    if T.get("k") == "int" and v is not None and v > 0 and T.get("s") in ("bool", "_Bool"):
                        bad = e2
            if T.get("k") == "int" and T.get("s") not in ("bool", "_Bool"):
                continue
            if T.get("k") == "ptr":
                continue
            res.ob("%s:%s:detach at line %s" % (f.file, f.name, call.get("l")), bad is None, f, (bad.get("l") if bad else call.get("l")) or f.line,
                   "" if bad is None else "`%s` did not deliver a private copy, yet %s() answers `%s`: the caller takes the handle for private and changes the shared buffer in place" % (
                       norm(show(call, f))[:60], f.name, norm(show(bad, f))))
    return res


def run_detachsame(prog, ctx=None):
    """DETACHSAME: a `detach` implementation (the function a buffer's vtable names for making a handle's buffer private and
    large enough) answers with the buffer it was handed only where that buffer has a single holder: at every return of (a
    pointer into) its own argument the interval of the reference counter read there lies below 2.  Returning a buffer that
    other handles hold as "private" lets the caller write into what they read."""
    res = Result("DETACHSAME")
    from .ival import Analysis
    from .rules_ref import vtables, is_refcount_mem
    from .rules_effect import root_of
    seen = set()
    n = 0
    for g, u, rname, slot, fn, qn in vtables(prog):
        if slot != "detach" or fn is None or fn.nocfg or fn.key() in seen or not fn.params:
            continue
        seen.add(fn.key())
        f = fn
        pid = f.params[0]["id"]
        alias = {pid}
        for b, i, m in f.walk_all():
            if m.get("k") == "decl":
                for v in m["vars"]:
                    if v.get("init") is not None and root_of(v["init"]) in alias and f.T(v.get("t")).get("k") == "ptr":
                        alias.add(v["id"])
        cnt = None
        for b, i, m in f.walk_all():
            if m.get("k") == "mem" and is_refcount_mem(m) and root_of(m) in alias:
                cnt = m
        an = Analysis(prog, f).run()
        for b, i, e in f.elements():
            if e.get("k") != "ret" or e.get("e") is None or cval(e["e"]) == 0:
                continue
            if root_of(e["e"]) not in alias:
                continue
            n += 1
            v = an.value_at(b.id, i, cnt) if cnt is not None else None
            ok = v is not None and v.hi <= 1
            res.ob("%s:%s at line %s" % (f.qn, norm(show(e, f)), e.get("l", f.line)), ok, f, e.get("l", f.line) or f.line,
                   "" if ok else "`%s` hands the caller its own buffer back as the private one while the reference counter may be %s: other handles hold the same buffer and will see what the caller writes" % (
                       norm(show(e, f)), "anything (never read)" if v is None else v))
    if not n:
        raise Broken("DETACHSAME: no detach implementation that returns its argument found")
    return res


def run_mustinstall(prog, ctx=None):
    """MUSTINSTALL: a function that works on a handle and obtains a new buffer for it (`b = _mpt_buffer_alloc(..)`,
    `b = old->_vptr->detach(old, ..)`: detach has given up the handle's reference to the old buffer) puts it into the handle
    before it returns: from the non-null edge of the test of b every path to a return passes a store of b into memory
    (`A->_buf = b`), hands b on (`return b`, an unref or another call that is given b), or assigns b again.  A path that
    leaves early keeps the handle on a buffer it no longer owns and loses the new one."""
    res = Result("MUSTINSTALL")
    from .rules_path import funcs_of
    files = set(ctx.get("files", [])) if ctx else None
    for f in funcs_of(prog, files):
        # handle parameters only: the buffer-level API hands the result to its caller
        if not any(f.T(f.pointee(p["t"]) if f.pointee(p["t"]) is not None else -1).get("name", "").split("::")[-1] in HANDLES for p in f.params):
            continue
        for bid, blk in sorted(f.blocks.items()):
            if not (blk.term and blk.term.get("cond") is not None and len(blk.succ) == 2):
                continue
            c = strip(blk.term["cond"], all_casts=True)
            if blk.term.get("cls") != "BinaryOperator":
                while c.get("k") == "bin" and c.get("op") in ("&&", "||"):
                    c = strip(c["b"], all_casts=True)
            neg = False
            while c.get("k") == "un" and c.get("op") == "!":
                neg = not neg
                c = strip(c["e"], all_casts=True)
            if not (c.get("k") == "bin" and c.get("op") == "="):
                continue
            l = strip(c["a"], lvalue_to_rvalue=False)
            r = strip(c["b"], all_casts=True)
            if not (l.get("k") == "ref" and l["d"].get("dk") == "local" and r.get("k") == "call"):
                continue
            nm = callee_name(r) or ""
            slot = None
            if r.get("callee") is not None:
                ce = strip(r["callee"], all_casts=True)
                slot = ce.get("f") if ce.get("k") == "mem" else None
            if not (nm.startswith("_mpt_buffer_alloc") or slot == "detach"):
                continue
            vid, vn = l["d"]["id"], l["d"]["n"]
            got = blk.succ[1 if neg else 0]
            if got is None:
                continue
            gives = set()
            # locals computed from b (addr = (char *) (b + 1)) stand for b where they are stored
            dervs = {vid}
            grew = True
            while grew:
                grew = False
                for b2, i2, n in f.walk_all():
                    pairs = []
                    if n.get("k") == "bin" and n.get("op") == "=":
                        l2 = strip(n["a"], lvalue_to_rvalue=False)
                        if l2.get("k") == "ref" and "id" in l2["d"]:
                            pairs.append((l2["d"]["id"], n["b"]))
                    elif n.get("k") == "decl":
                        pairs += [(v["id"], v["init"]) for v in n["vars"] if v.get("init") is not None]
                    for v2, rhs in pairs:
                        if v2 not in dervs and f.T(strip(rhs, all_casts=True).get("t")).get("k") == "ptr" and not any(m.get("k") == "call" for m in walk(rhs)) \
                                and any(m.get("k") == "ref" and m["d"].get("id") in dervs for m in walk(rhs)):
                            dervs.add(v2)
                            grew = True
            for b2, i2, e2 in f.elements():
                for n in walk_own(e2):
                    if n.get("k") == "bin" and n.get("op") == "=":
                        ll = strip(n["a"], lvalue_to_rvalue=False)
                        rr = strip(n["b"], all_casts=True)
                        if ll.get("k") in ("mem", "un", "idx") and any(m.get("k") == "ref" and m["d"].get("id") in dervs for m in walk(n["b"])):
                            gives.add(b2.id)        # the buffer, or an address inside it (path->base = buf + 1), becomes reachable from an object
                        if ll.get("k") == "ref" and ll["d"].get("id") == vid and not (b2.id == bid):
                            gives.add(b2.id)
                    if n.get("k") == "call" and n is not r:
                        ce2 = strip(n["callee"], all_casts=True) if n.get("callee") is not None else {}
                        if ce2.get("k") == "mem" and ce2.get("f") in ("get_flags", "addref"):
                            continue
                        if any(strip(a, all_casts=True).get("k") == "ref" and strip(a, all_casts=True)["d"].get("id") == vid for a in n.get("args", [])):
                            gives.add(b2.id)
                if e2.get("k") == "ret" and e2.get("e") is not None:
                    rv = strip(e2["e"], all_casts=True)
                    if rv.get("k") == "ref" and rv["d"].get("id") == vid:
                        gives.add(b2.id)
            reach = ({got} | set(f.reachable_from(got, avoid=gives))) - gives
            bad = None
            for b2, i2, e2 in f.elements():
                if b2.id in reach and e2.get("k") == "ret":
                    bad = e2
            res.ob("%s:%s = %s at line %s" % (f.qn, vn, nm or slot, c.get("l", f.line)), bad is None, f, (bad.get("l") if bad else c.get("l")) or f.line,
                   "" if bad is None else "`%s` delivered a buffer into %s, and `%s` is reached without it having been stored into the handle or handed on: the handle keeps a buffer whose reference was given up, the new buffer is lost" % (
                       norm(show(r, f))[:50], vn, norm(show(bad, f))[:40]))
    return res
