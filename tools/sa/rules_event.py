"""FINALISER (C11): a handler slot is overwritten or torn down only after its handler got the end-of-life call handler(arg, NULL)."""
from .facts import strip, cval, walk, walk_own, show, callee_name
from .ival import Analysis
from .core import Result, Broken, norm
from .rules_path import funcs_of

FRESH_SOURCES = ("mpt_command_empty", "mpt_buffer_insert", "mpt_array_insert", "mpt_array_append")


SLOT_RECORDS = set()


def slot_records(prog):
    """records that are handler slots: a function pointer `cmd` taking two arguments next to a user pointer `arg`"""
    out = set()
    for name, r in prog.records.items():
        fl = {x["n"]: x for x in r["fields"]}
        if "cmd" in fl and "arg" in fl:
            T = r["unit"].types[fl["cmd"]["t"]]
            if T.get("k") == "ptr":
                FT = r["unit"].types[T["to"]]
                if FT.get("k") == "func" and (len(FT.get("params", [])) == 2 or FT.get("noproto")):
                    out.add(name)
    return out


def _is_cmd_mem(n):
    return n.get("k") == "mem" and n.get("f") == "cmd" and n.get("rec", "") in SLOT_RECORDS


def _base_text(f, m):
    """text identifying the slot: `dest`, `disp->_err`, `this->_err`, `cmd[i]`"""
    return norm(show(m["b"], f))


def run_finaliser(prog, ctx=None):
    """typestate per command slot S (ghost facts as trace partitions):
       notified  S.cmd(S.arg, 0) ran on this path          empty   a test on this path showed S.cmd == 0
       fresh     S was obtained from mpt_command_empty() or a fresh insert/append on this path
    a store to S.cmd needs one of them (initialisers of a new object are exempt); mpt_command_find() only returns occupied slots"""
    res = Result("FINALISER")
    files = set(ctx.get("files", [])) if ctx else None
    nstores = 0
    SLOT_RECORDS.clear()
    SLOT_RECORDS.update(slot_records(prog))
    if len(SLOT_RECORDS) < 2:
        raise Broken("handler slot records not found")
    for f in funcs_of(prog, files):
        stores = []
        for b, i, e in f.elements():
            for n in walk_own(e):
                if n.get("k") == "bin" and n.get("op") == "=":
                    l = strip(n["a"], lvalue_to_rvalue=False)
                    if _is_cmd_mem(l):
                        stores.append((b, i, n, l))
        if not stores:
            continue
        is_init = f.name.endswith("_init") or f.d.get("ctor")
        PK = Analysis.PK
        verdict = {}

        def hook(an, b, i, el, st):
            facts = set(st.get(PK) or ())
            for n in walk_own(el):
                # finaliser call  S.cmd(S.arg, 0)
                if n.get("k") == "call" and n.get("callee") is not None:
                    c = strip(n["callee"], all_casts=True)
                    if _is_cmd_mem(c) and len(n.get("args", [])) == 2 and cval(n["args"][1]) == 0:
                        facts.add((_base_text(f, c), "notified"))
                # stores
                if n.get("k") == "bin" and n.get("op") == "=":
                    l = strip(n["a"], lvalue_to_rvalue=False)
                    if _is_cmd_mem(l):
                        bt = _base_text(f, l)
                        bs = strip(l["b"], all_casts=True)
                        local_obj = (not l.get("arrow")) and bs.get("k") == "ref" and bs["d"].get("dk") == "local"    # a struct on this function's stack
                        ok = is_init or local_obj or any(x[0] == bt for x in facts)
                        key = "%s:%s" % (f.qn, norm(show(n, f))[:70])
                        if key not in verdict or not ok:
                            verdict[key] = (ok, n.get("l", 0), bt)
                        # the slot now holds the stored handler (or nothing)
                        facts = {x for x in facts if x[0] != bt}
                        if cval(n["b"]) == 0:
                            facts.add((bt, "empty"))
                    elif l.get("k") == "ref" and "id" in l["d"]:
                        # slot variable reassigned: old facts about it die; fresh sources give an empty slot
                        nm = l["d"]["n"]
                        facts = {x for x in facts if x[0] != nm and not x[0].startswith(nm + "[")}
                        r = strip(n["b"], all_casts=True)
                        if r.get("k") == "bin" and r.get("op") == "=":
                            r = strip(r["b"], all_casts=True)
                        if r.get("k") == "call" and callee_name(r) in FRESH_SOURCES:
                            facts.add((nm, "fresh"))
            st[PK] = frozenset(facts)

        def edge_hook(an, b, cond, truth, st):
            c = strip(cond, all_casts=True)
            neg = False
            while c.get("k") == "un" and c.get("op") == "!":
                neg = not neg
                c = strip(c["e"], all_casts=True)
            if c.get("k") == "bin" and c.get("op") == "=":
                # (dest = mpt_command_empty(..)) / (dest = mpt_command_get(..)): nothing to learn about .cmd here
                return
            if _is_cmd_mem(c):
                null_edge = (truth and neg) or (not truth and not neg)
                facts = set(st.get(PK) or ())
                if null_edge:
                    facts.add((_base_text(f, c), "empty"))
                st[PK] = frozenset(facts)

        an = Analysis(prog, f, hook=hook, edge_hook=edge_hook)
        st0 = an.entry_state()
        st0[PK] = frozenset()
        an.run(state=st0)
        for key, (ok, line, bt) in sorted(verdict.items()):
            nstores += 1
            res.ob(key, ok, f, line, "" if ok else "handler slot %s is overwritten without the end-of-life call %s.cmd(%s.arg, 0) on this path (and it is not known to be empty)" % (bt, bt, bt))
    # lookup shape: an emptied slot can never match
    g = prog.func("mpt_command_find")
    if g is None:
        raise Broken("anchor missing: mpt_command_find")
    ok = False
    for b, i, e in g.elements():
        if e.get("k") == "ret" and e.get("e") is not None and cval(e["e"]) != 0:
            # the block returning a slot is dominated by a test of cmd->cmd
            dom = g.dominators()
            for pb in dom[b.id]:
                blk = g.blocks[pb]
                if blk.term and blk.term.get("cond") is not None:
                    c = strip(blk.term["cond"], all_casts=True)
                    for n in walk(c):
                        if _is_cmd_mem(n):
                            ok = True
    res.ob("mpt_command_find:occupied-slots-only", ok, g, g.line, "" if ok else "lookup can return a slot whose handler is NULL (already finalised)")
    # teardown: the traits finaliser notifies, and clear notifies before dropping the used length
    for name in ("mpt_command_clear", "_command_fini"):
        h = prog.func(name)
        if h is None:
            raise Broken("anchor missing: " + name)
        # the handler may be called through a local that was loaded from the slot (`handler = entry->cmd; .. handler(arg, 0)`)
        cmd_locals = set()
        for b, i, n in h.walk_all():
            pairs = []
            if n.get("k") == "decl":
                pairs = [(v["id"], v["init"]) for v in n["vars"] if v.get("init") is not None]
            elif n.get("k") == "bin" and n.get("op") == "=":
                l = strip(n["a"], lvalue_to_rvalue=False)
                if l.get("k") == "ref" and "id" in l["d"]:
                    pairs = [(l["d"]["id"], n["b"])]
            for vid, rhs in pairs:
                if _is_cmd_mem(strip(rhs, all_casts=True)):
                    cmd_locals.add(vid)

        def is_handler(ce):
            ce = strip(ce, all_casts=True)
            return _is_cmd_mem(ce) or (ce.get("k") == "ref" and ce["d"].get("id") in cmd_locals)
        calls = [e for b, i, e in h.elements() if e.get("k") == "call" and e.get("callee") is not None and is_handler(e["callee"])
                 and len(e.get("args", [])) == 2 and cval(e["args"][1]) == 0]
        res.ob("%s:notifies" % name, bool(calls), h, h.line, "" if calls else "teardown path drops handlers without the end-of-life call")
    if nstores < 5:
        raise Broken("FINALISER: only %d handler slot stores found" % nstores)
    return res


def run_finiall(prog, ctx=None):
    """FINIALL: the teardown loops that notify every handler (mpt_command_clear, the traits finaliser) leave the loop only on
    the index bound: an exit that depends on the content of a slot (first empty slot ends the walk) skips the handlers behind it"""
    from .rules_path import natural_loops
    res = Result("FINIALL")
    SLOT_RECORDS.clear()
    SLOT_RECORDS.update(slot_records(prog))
    n = 0
    for name in ("mpt_command_clear", "_command_fini"):
        h = prog.func(name)
        if h is None:
            raise Broken("anchor missing: " + name)
        loops = natural_loops(h)
        calls = [(b, e) for b, i, e in h.elements() if e.get("k") == "call" and e.get("callee") is not None and _is_cmd_mem(strip(e["callee"], all_casts=True))]
        for b, e in calls:
            heads = [hd for hd, body in loops.items() if b.id in body]
            if not heads:
                continue          # a single element is finalised (traits finaliser of one slot)
            body = min((loops[hd] for hd in heads), key=len)
            bad = None
            for bid in body:
                blk = h.blocks[bid]
                if any(s is not None and s not in body for s in blk.succ) and blk.term and blk.term.get("cond") is not None:
                    # the operand deciding at this block
                    c = blk.term["cond"]
                    cs = strip(c, all_casts=True)
                    while blk.term.get("cls") != "BinaryOperator" and cs.get("k") == "bin" and cs.get("op") in ("&&", "||"):
                        cs = strip(cs["b"], all_casts=True)
                    for x in walk(cs):
                        if x.get("k") == "mem" and x.get("rec", "") in SLOT_RECORDS:
                            bad = (blk, cs)
            n += 1
            res.ob("%s:walk ends on the bound only" % name, bad is None, h, (bad[1].get("l") if bad else h.line) or h.line,
                   "" if bad is None else "the loop that notifies the handlers is left on `%s`: handlers behind such a slot get no end-of-life call" % norm(show(bad[1], h)))
    if n < 1:
        raise Broken("FINIALL: no notifying loop found")
    return res


def run_defaultset(prog, ctx=None):
    """DEFAULTSET: where the dispatcher tests the Default flag of the handler's result, every way through the flagged branch
    stores the dispatcher's default id (`_def`) before the function returns: the default follows the flag for every id,
    zero (clear) included."""
    res = Result("DEFAULTSET")
    for f in sorted(prog.functions.values(), key=lambda f: (f.file, f.line)):
        if f.nocfg or not f.file.startswith(("mptcore/event/", "mpt++/")):
            continue
        for bid, b in f.blocks.items():
            t = b.term
            if not (t and isinstance(t.get("cond"), dict) and len(b.succ) == 2 and t.get("cls") == "IfStmt"):
                continue
            c = strip(t["cond"], all_casts=True)
            if not (c.get("k") == "bin" and c.get("op") == "&"):
                continue
            names = [n["d"].get("n", "") for n in walk(c) if n.get("k") == "ref" and n["d"].get("dk") in ("enumc", "enumconst")]
            if not any(n.endswith("Default") for n in names):
                continue
            # the function must deal with the dispatcher default at all
            def_stores = set()
            for b2, i2, n in f.walk_all():
                if n.get("k") == "bin" and n.get("op") == "=":
                    l = strip(n["a"], lvalue_to_rvalue=False)
                    if l.get("k") == "mem" and l.get("f") == "_def":
                        def_stores.add(b2.id if hasattr(b2, "id") else b2)
            if not def_stores or b.succ[0] is None:
                continue
            T = b.succ[0]
            reach = f.reachable_from(T, avoid=def_stores) if T not in def_stores else set()
            leaks = sorted(x for x in reach if x == f.exit or any(e.get("k") == "ret" for e in f.blocks[x].el))
            ok = not leaks
            res.ob("%s:%s" % (f.qn, norm(show(t["cond"], f))[:50]), ok, f, t.get("l", f.line),
                   "" if ok else "%s: a path through the branch taken when the handler returned the Default flag reaches the return without storing the default id (_def); "
                                 "the bookkeeping no longer follows the flag on that path" % f.qn)
            res.count("sites")
    if not res.counters.get("sites"):
        raise Broken("DEFAULTSET: no test of the Default flag next to a store of the default id found")
    return res


def run_finipaths(prog, ctx=None):
    """FINIPATHS: a teardown function (`*_fini`) deals with every member it releases on every way through: for each member of
    the object (first parameter) that the function touches at all, no path from the entry to the return avoids all the blocks
    that mention that member (an early return in front of the release of the fallback handler or the context leaves them alive)."""
    res = Result("FINIPATHS")
    files = set(ctx.get("files", [])) if ctx and ctx.get("files") else None
    n = 0
    for f in sorted(prog.functions.values(), key=lambda f: (f.file, f.line, f.qn)):
        if f.nocfg or not f.name.endswith("_fini") or not f.params or (files and f.file not in files):
            continue
        pid = f.params[0]["id"]
        mention = {}
        for bid, blk in f.blocks.items():
            trees = list(blk.el)
            if blk.term and isinstance(blk.term.get("cond"), dict):
                trees.append(blk.term["cond"])
            for t in trees:
                for m in walk(t):
                    if m.get("k") == "mem" and m.get("arrow"):
                        b = strip(m["b"], all_casts=True)
                        if b.get("k") == "ref" and b["d"].get("id") == pid:
                            mention.setdefault(m["f"], set()).add(bid)
        # members that are released: they occur in the callee or the arguments of a call
        released = set()
        for b_, i_, e in f.elements():
            if e.get("k") == "call":
                for part in [e.get("callee")] + list(e.get("args", [])):
                    if isinstance(part, dict):
                        ps = strip(part, all_casts=True)
                        if ps.get("k") == "un" and ps.get("op") == "&":
                            continue        # the address of a member handed to a helper: working storage, not a resource of its own
                        for m in walk(part):
                            if m.get("k") == "mem" and m.get("arrow"):
                                bb = strip(m["b"], all_casts=True)
                                if bb.get("k") == "ref" and bb["d"].get("id") == pid:
                                    released.add(m["f"])
        mention = {k: v for k, v in mention.items() if k in released}
        exits = {bid for bid, blk in f.blocks.items() if bid == f.exit or any(e.get("k") == "ret" for e in blk.el) or not [s for s in blk.succ if s is not None]}
        for mem, blocks in sorted(mention.items()):
            n += 1
            if f.entry in blocks:
                ok = True
            else:
                reach = {f.entry} | set(f.reachable_from(f.entry, avoid=blocks))
                ok = not (reach & exits)
            res.ob("%s:%s" % (f.qn, mem), ok, f, f.line,
                   "" if ok else "%s: a path from the entry to the return never looks at ->%s, which other paths of the teardown release" % (f.qn, mem))
    if n < 10:
        raise Broken("FINIPATHS: only %d members in teardown functions" % n)
    return res


def run_notifyguard(prog, ctx=None):
    """NOTIFYGUARD: the end-of-life call of a handler slot, `S.cmd(S.arg, 0)`, depends on the handler alone: of the members
    of S only `cmd` is tested by the branch conditions that decide whether the call is made (in the function that makes it).
    A guard on the context (`S.arg`) or on the id skips the notification for handlers that were registered without a
    context, or with id 0: they never learn that they were dropped."""
    res = Result("NOTIFYGUARD")
    files = set(ctx.get("files", [])) if ctx else None
    from .rules_path import funcs_of
    recs = slot_records(prog)
    SLOT_RECORDS.clear()
    SLOT_RECORDS.update(recs)
    for f in funcs_of(prog, files):
        dom = f.dominators()
        for b, i, e in f.elements():
            if e.get("k") != "call" or e.get("callee") is None or len(e.get("args", [])) != 2 or cval(e["args"][1]) != 0:
                continue
            ce = strip(e["callee"], all_casts=True)
            if not _is_cmd_mem(ce):
                continue
            base = _base_text(f, ce)
            bad = None
            for pb in dom[b.id]:
                blk = f.blocks[pb]
                if pb == b.id or not (blk.term and blk.term.get("cond") is not None):
                    continue
                # the condition decides whether b is reached: b is reachable from only one of the successors
                if len(blk.succ) == 2 and all(s is not None for s in blk.succ):
                    r0 = b.id == blk.succ[0] or b.id in f.reachable_from(blk.succ[0])
                    r1 = b.id == blk.succ[1] or b.id in f.reachable_from(blk.succ[1])
                    if r0 and r1:
                        continue
                for m in walk(blk.term["cond"]):
                    if m.get("k") == "mem" and m.get("f") != "cmd" and norm(show(strip(m["b"], all_casts=True), f)) == norm(show(strip(ce["b"], all_casts=True), f)) \
                            and (m.get("rec") or "").split("::")[-1] in {r.split("::")[-1] for r in recs}:
                        bad = (m, blk.term["cond"])
            res.ob("%s:%s" % (f.qn, norm(show(e, f))[:50]), bad is None, f, e.get("l", f.line) or f.line,
                   "" if bad is None else "the end-of-life call `%s` is made only when `%s` lets it: the test of %s.%s skips the notification of handlers for which that member is zero" % (
                       norm(show(e, f))[:60], norm(show(bad[1], f))[:60], base, bad[0]["f"]))
    return res


def run_scanall(prog, ctx=None):
    """SCANALL: tables of handler slots have holes (an unregistered handler leaves an empty slot in front of live ones), so a
    loop that walks the slots is not left because the slot it looks at is empty - unless that empty slot is what the function
    is looking for (the exit returns it, or stores into it).  A search that stops at the first hole does not see the handlers
    behind it: their events go to the fallback and a second registration for their id is accepted."""
    from .rules_path import natural_loops
    res = Result("SCANALL")
    SLOT_RECORDS.clear()
    SLOT_RECORDS.update(slot_records(prog))
    files = set(ctx.get("files", [])) if ctx else None
    for f in funcs_of(prog, files):
        loops = natural_loops(f)
        if not loops:
            continue
        for hd, body in sorted(loops.items()):
            # a loop over slots: it reads the cmd member of a slot record
            reads = False
            for bid in body:
                for e in f.blocks[bid].el:
                    for n in walk(e):
                        if _is_cmd_mem(n):
                            reads = True
            if not reads:
                continue
            bad = None
            for bid in sorted(body):
                blk = f.blocks[bid]
                if not (blk.term and blk.term.get("cond") is not None and len(blk.succ) == 2):
                    continue
                cs = strip(blk.term["cond"], all_casts=True)
                if blk.term.get("cls") == "BinaryOperator":
                    if cs.get("k") == "bin" and cs.get("op") in ("&&", "||"):
                        cs = strip(cs["a"], all_casts=True)
                else:
                    while cs.get("k") == "bin" and cs.get("op") in ("&&", "||"):
                        cs = strip(cs["b"], all_casts=True)
                neg = False
                while True:
                    if cs.get("k") == "un" and cs.get("op") == "!":
                        neg = not neg
                        cs = strip(cs["e"], all_casts=True)
                    elif cs.get("k") == "bin" and cs.get("op") in ("==", "!=") and cval(cs["b"]) == 0:
                        if cs["op"] == "==":
                            neg = not neg
                        cs = strip(cs["a"], all_casts=True)
                    else:
                        break
                if not _is_cmd_mem(cs):
                    continue
                null_edge = blk.succ[0] if neg else blk.succ[1]
                if null_edge is None or null_edge in body:
                    continue
                # the walk ends on an empty slot: fine where the empty slot is the result
                slot = _base_text(f, cs)
                delivered = False
                for b2 in f.reachable_from(null_edge):
                    for e in f.blocks[b2].el:
                        if e.get("k") == "ret" and e.get("e") is not None and cval(e["e"]) is None:
                            delivered = True
                        for n in walk_own(e):
                            if n.get("k") == "bin" and n.get("op") == "=":
                                l = strip(n["a"], lvalue_to_rvalue=False)
                                if l.get("k") == "mem" and l.get("rec", "") in SLOT_RECORDS:
                                    delivered = True
                if not delivered:
                    bad = (blk, cs)
            res.ob("%s:slot walk ends on no hole" % f.qn, bad is None, f,
                   (bad[1].get("l") if bad else f.blocks[hd].term.get("l") if f.blocks[hd].term else f.line) or f.line,
                   "" if bad is None else "the walk over the handler slots is left because `%s` is empty and nothing is done with that slot: live handlers behind a hole are not seen" % norm(show(bad[1], f)))
    return res
