"""Rules decided by the operand types of one expression (type-checked program, no value reasoning):
tests that cannot go both ways, byte comparisons that promote differently, sign extension of bytes, sizeof of a pointer."""
from .facts import strip, cval, walk, walk_own, show, callee_name, children
from .core import Result, Broken, norm
from .rules_path import funcs_of


def _itype(f, e):
    """integer type record of expression e (after value-preserving wrappers) or None"""
    T = f.T(e.get("t")) if isinstance(e, dict) else {}
    return T if T.get("k") == "int" else None


def _is_unsigned(T):
    if "signed" in T:
        return not T["signed"]
    s = T.get("s", "")
    return "unsigned" in s or s in ("_Bool", "bool")


def _under_casts(e):
    """the operand below implicit conversions (integral promotions, usual arithmetic conversions): what the programmer wrote"""
    while isinstance(e, dict) and e.get("k") == "cast" and e.get("ck") in ("NoOp", "LValueToRValue", "IntegralCast", "ArrayToPointerDecay") and not e.get("explicit"):
        e = e["e"]
    return e


def run_unsignedneg(prog, ctx=None):
    """UNSIGNEDNEG: a test that separates failure from success goes both ways.  `x < 0` / `x >= 0` on an operand of
    unsigned type is constant: the refusal (or the error path of a callee that answers with a negative value) it stands
    for is never taken."""
    res = Result("UNSIGNEDNEG")
    files = set(ctx.get("files", [])) if ctx else None
    for f in funcs_of(prog, files):
        for b, i, n in f.walk_all():
            if not (n.get("k") == "bin" and n.get("op") in ("<", ">=", ">", "<=")):
                continue
            for side, other, op in ((n["a"], n["b"], n["op"]), (n["b"], n["a"], {"<": ">", ">": "<", "<=": ">=", ">=": "<="}[n["op"]])):
                if cval(other) != 0 or op not in ("<", ">="):
                    continue
                x = _under_casts(side)
                if cval(x) is not None:
                    continue
                T = _itype(f, x)
                if T is None:
                    continue
                # the comparison is carried out in the converted type: unsigned stays unsigned only at int width or above
                CT = _itype(f, side)
                uns = _is_unsigned(T) and (CT is None or _is_unsigned(CT) or (T.get("sz") or 0) >= (CT.get("sz") or 0))
                res.ob("%s:%s" % (f.qn, norm(show(n, f))[:70]), not uns, f, n.get("l", f.line) or f.line,
                       "" if not uns else "`%s` compares a value of type %s with zero: the test is %s, the path it guards is %s" % (
                           norm(show(n, f))[:100], T.get("s"), "never true" if op == "<" else "always true", "dead" if op == "<" else "the only one"))
    return res


def _is_char_byte(T):
    """plain or signed char (one byte, signed on this target)"""
    return T is not None and T.get("sz") == 1 and not _is_unsigned(T)


def _is_u8(T):
    return T is not None and T.get("sz") == 1 and _is_unsigned(T) and T.get("s") not in ("_Bool", "bool")


def run_bytesign(prog, ctx=None):
    """BYTESIGN: two bytes compared for (in)equality are read with the same signedness.  `unsigned char` promotes to
    0..255 and `char` to -128..127: a comparison of one with the other is false for every byte from 0x80 up, whatever
    the bytes are (equal content compares unequal, a separator or token of 0x80.. is never found)."""
    res = Result("BYTESIGN")
    files = set(ctx.get("files", [])) if ctx else None
    for f in funcs_of(prog, files):
        for b, i, n in f.walk_all():
            if not (n.get("k") == "bin" and n.get("op") in ("==", "!=")):
                continue
            a, c = _under_casts(n["a"]), _under_casts(n["b"])
            if cval(a) is not None or cval(c) is not None:
                continue
            TA, TC = _itype(f, a), _itype(f, c)
            if TA is None or TC is None or TA.get("sz") != 1 or TC.get("sz") != 1:
                continue
            if TA.get("s") in ("_Bool", "bool") or TC.get("s") in ("_Bool", "bool"):
                continue
            bad = (_is_u8(TA) and _is_char_byte(TC)) or (_is_u8(TC) and _is_char_byte(TA))
            res.ob("%s:%s" % (f.qn, norm(show(n, f))[:70]), not bad, f, n.get("l", f.line) or f.line,
                   "" if not bad else "`%s` compares a %s with a %s: the operands promote to 0..255 and -128..127, bytes from 0x80 up never compare equal" % (
                       norm(show(n, f))[:100], TA.get("s"), TC.get("s")))
    return res


def run_flagwidth(prog, ctx=None):
    """FLAGWIDTH: a flag test can see the flag.  In `v & C` (C a constant) every bit of C lies inside the type of v as it was
    declared: a flag word kept in a variable narrower than the flag (`uint8_t flags` against 0x100) has lost the bit when it
    was stored, the test is constantly zero."""
    res = Result("FLAGWIDTH")
    files = set(ctx.get("files", [])) if ctx else None
    for f in funcs_of(prog, files):
        for b, i, n in f.walk_all():
            if not (n.get("k") == "bin" and n.get("op") in ("&", "&=")):
                continue
            for side, other in ((n["a"], n["b"]), (n["b"], n["a"])):
                cv = cval(other)
                if cv is None or cv <= 0 or cval(side) is not None:
                    continue
                x = _under_casts(side)
                T = _itype(f, x)
                if T is None or not T.get("sz") or x.get("k") not in ("ref", "mem", "idx", "un"):
                    continue
                width = 8 * T["sz"]
                lost = cv >> width
                res.ob("%s:%s" % (f.qn, norm(show(n, f))[:70]), not lost, f, n.get("l", f.line) or f.line,
                       "" if not lost else "`%s` tests bits 0x%x of a value kept as %s (%d bits): the bits above the type were dropped when the value was stored, the test is always zero" % (
                           norm(show(n, f))[:100], cv, T.get("s"), width))
    return res


def run_sizeofptr(prog, ctx=None):
    """SIZEOFPTR: a length handed to a function is not `sizeof(P)` of a pointer variable P unless the memory it goes with
    holds pointers (another pointer argument points to pointers: `memset(&p, 0, sizeof(p))`, arrays of pointers).
    The size of the pointer says nothing about what it points to: too short for a record, too long for a small array that
    decayed into P."""
    res = Result("SIZEOFPTR")
    files = set(ctx.get("files", [])) if ctx else None
    for f in funcs_of(prog, files):
        for b, i, e in f.elements():
            if e.get("k") != "call" or not e.get("args"):
                continue
            args = e["args"]
            seen = False
            for ai, a in enumerate(args):
                if f.T(strip(a, all_casts=True).get("t")).get("k") != "int":
                    continue            # inside an address computation the size is an offset, not a length
                for n in walk(a):
                    if n.get("k") != "sizeof" or n.get("trait", 0) != 0:
                        continue
                    seen = True
                    if n.get("ae") is None:
                        continue
                    x = strip(n["ae"], lvalue_to_rvalue=False)
                    XT = f.T(x.get("t"))
                    if XT.get("k") != "ptr" or x.get("k") not in ("ref", "mem"):
                        continue
                    holds = False
                    others = 0
                    for j, o in enumerate(args):
                        if j == ai:
                            continue
                        chain = [o]
                        while chain[-1].get("k") == "cast":
                            chain.append(chain[-1]["e"])
                        ptrs = [f.T(c.get("t")) for c in chain if f.T(c.get("t")).get("k") == "ptr"]
                        if not ptrs:
                            continue
                        others += 1
                        if any(f.T(OT.get("to")).get("k") == "ptr" for OT in ptrs):
                            holds = True
                    if not others:
                        continue
                    res.ob("%s:%s" % (f.qn, norm(show(e, f))[:70]), holds, f, e.get("l", f.line) or f.line,
                           "" if holds else "`%s` passes sizeof(%s), the size of the pointer itself (%s), as the length of memory that does not hold such pointers" % (
                               norm(show(e, f))[:100], norm(show(x, f)), XT.get("s")))
                    seen = None
            if seen:
                res.ob("%s:%s" % (f.qn, norm(show(e, f))[:70]), True, f, e.get("l", f.line) or f.line, "")
    return res


def run_signextend(prog, ctx=None):
    """SIGNEXTEND: a byte read from memory as `char` that becomes an unsigned length, offset or index is converted through
    `unsigned char`: the implicit conversion of a plain `char` to a wider unsigned type sign-extends bytes from 0x80 up
    into huge values (a length byte of 200 reads as 2^64-56)."""
    res = Result("SIGNEXTEND")
    files = set(ctx.get("files", [])) if ctx else None
    for f in funcs_of(prog, files):
        par = {}

        def link(n):
            for c in children(n):
                if isinstance(c, dict):
                    par[id(c)] = n
                    link(c)
        for b, i, e in f.elements():
            link(e)
        for b in f.blocks.values():
            if b.term and b.term.get("cond") is not None:
                link(b.term["cond"])
        for b, i, n in f.walk_all():
            if not (n.get("k") == "cast" and n.get("ck") == "IntegralCast" and not n.get("explicit")):
                continue
            TT = _itype(f, n)
            if TT is None or not _is_unsigned(TT) or (TT.get("sz") or 0) < 4:
                continue
            x = _under_casts(n["e"])
            T = _itype(f, x)
            if T is None or T.get("sz") != 1 or T.get("s") in ("_Bool", "bool") or cval(x) is not None:
                continue
            y = x
            while y.get("k") == "cast" and y.get("explicit"):
                y = _under_casts(y["e"])           # (uint8_t) data[i]: the byte that is loaded
            if y.get("k") not in ("idx", "un", "mem", "ref"):
                continue
            if y.get("k") == "un" and y.get("op") != "*":
                continue
            if not _is_char_byte(T):
                res.ob("%s:%s" % (f.qn, norm(show(n, f))[:70]), True, f, n.get("l", f.line) or f.line, "")
                continue
            # what the converted value is used as: bit patterns (hash mixing, flag tests) read the same either way
            p = par.get(id(n))
            while p is not None and p.get("k") == "cast":
                p = par.get(id(p))
            use = None
            if p is None or p.get("k") == "decl":
                use = "initialises an unsigned variable"
            elif p.get("k") == "bin" and p.get("op") in ("=", "+", "-", "*", "/", "%", "+=", "-=", "<", ">", "<=", ">="):
                use = "operand of `%s`" % p["op"]
            elif p.get("k") in ("idx", "call", "ret"):
                use = "index, argument or result"
            res.ob("%s:%s" % (f.qn, norm(show(n, f))[:70]), use is None, f, n.get("l", f.line) or f.line,
                   "" if use is None else "`%s` (type %s) is converted to %s (%s): bytes from 0x80 up are sign-extended into values near the top of the unsigned range" % (
                       norm(show(x, f))[:80], T.get("s"), TT.get("s"), use))
    return res


def run_localnarrow(prog, ctx=None):
    """LOCALNARROW: a local of one or two bytes that receives a wider integer value (implicit conversion at an
    initialisation or assignment) receives a value inside its range: interval analysis of the function bounds the value
    at that point.  A wider value is cut to its low bits: a 16-bit length kept in a byte compares equal to lengths 256 apart,
    an aligned size of 256 becomes 0."""
    res = Result("LOCALNARROW")
    from .ival import Analysis, type_range
    files = set(ctx.get("files", [])) if ctx else None
    for f in funcs_of(prog, files):
        sites = []
        for b, i, e in f.elements():
            for m in walk_own(e):
                pairs = []
                if m.get("k") == "decl":
                    for v in m["vars"]:
                        if v.get("init") is not None:
                            pairs.append((v["n"], v.get("t"), v["init"]))
                elif m.get("k") == "bin" and m.get("op") == "=":
                    l = strip(m["a"], lvalue_to_rvalue=False)
                    if l.get("k") == "ref" and l["d"].get("dk") == "local":
                        pairs.append((l["d"]["n"], l.get("t"), m["b"]))
                for vn, vt, rhs in pairs:
                    VT = f.T(vt)
                    if VT.get("k") != "int" or (VT.get("sz") or 8) > 2:
                        continue
                    if not (isinstance(rhs, dict) and rhs.get("k") == "cast" and rhs.get("ck") == "IntegralCast" and not rhs.get("explicit")):
                        continue
                    src = rhs["e"]
                    ST = f.T(src.get("t"))
                    if ST.get("k") != "int" or (ST.get("sz") or 0) <= VT["sz"] or cval(src) is not None:
                        continue
                    sites.append((b, i, m, vn, VT, src))
        if not sites:
            continue
        an = Analysis(prog, f).run()
        for b, i, m, vn, VT, src in sites:
            rv = an.value_at(b.id, i, src)
            tr = type_range(VT)
            ok = rv is not None and rv.lo >= tr.lo and rv.hi <= tr.hi
            res.ob("%s:%s = %s" % (f.qn, vn, norm(show(src, f))[:50]), ok, f, m.get("l", f.line) or f.line,
                   "" if ok else "`%s` (%s) receives `%s` whose value %s may leave [%d, %d]: the upper bits are dropped" % (vn, VT.get("s"), norm(show(src, f))[:60], rv, tr.lo, tr.hi))
    return res


def run_deadshadow(prog, ctx=None):
    """DEADSHADOW: a value stored into a local that hides another local of the same name is read somewhere.  Where a block
    declares a second variable of a name that is already in use and the function then assigns to it without any read of it
    being reachable from the assignment, while the hidden variable is read afterwards, the assignment was meant for the
    hidden variable: that one keeps its old value (an unresolved type id, an error code) and the result computed in the
    block is lost."""
    res = Result("DEADSHADOW")
    files = set(ctx.get("files", [])) if ctx else None
    for f in funcs_of(prog, files):
        decls = {}
        order = []
        for b, i, n in f.walk_all():
            if n.get("k") == "decl":
                for v in n["vars"]:
                    if v["id"] not in decls:
                        decls[v["id"]] = (v["n"], n.get("l", 0), v.get("t"))
                        order.append(v["id"])
        for p in f.params:
            decls.setdefault(p["id"], (p["n"], f.line, p.get("t")))
        byname = {}
        for vid, (nm, ln, t) in decls.items():
            byname.setdefault(nm, []).append((ln, vid))
        shadows = {}
        for nm, lst in byname.items():
            if len(lst) < 2:
                continue
            lst.sort()
            for ln, vid in lst[1:]:
                shadows[vid] = lst[0][1]
        if not shadows:
            continue
        reads = {}        # var id -> [(block id, idx)]
        stores = {}       # var id -> [(block id, idx, node)]
        for b, i, e in f.elements():
            lhs = set()
            for n in walk_own(e):
                if n.get("k") == "bin" and n.get("op") == "=":
                    l = strip(n["a"], lvalue_to_rvalue=False)
                    if l.get("k") == "ref" and "id" in l["d"]:
                        lhs.add(id(l))
                        stores.setdefault(l["d"]["id"], []).append((b.id, i, n))
            for n in walk_own(e):
                if n.get("k") == "ref" and "id" in n["d"] and id(n) not in lhs:
                    reads.setdefault(n["d"]["id"], []).append((b.id, i))
        for b in f.blocks.values():
            if b.term and b.term.get("cond") is not None:
                lhs = set()
                for n in walk(b.term["cond"]):
                    if n.get("k") == "bin" and n.get("op") == "=":
                        l = strip(n["a"], lvalue_to_rvalue=False)
                        if l.get("k") == "ref":
                            lhs.add(id(l))
                for n in walk(b.term["cond"]):
                    if n.get("k") == "ref" and "id" in n["d"] and id(n) not in lhs and "sid" not in n:
                        reads.setdefault(n["d"]["id"], []).append((b.id, len(b.el)))
        for inner, outer in sorted(shadows.items()):
            for sb, si, sn in stores.get(inner, []):
                def after(lst):
                    return any((rb == sb and ri > si) or (rb != sb and rb in f.reachable_from(sb)) for rb, ri in lst)
                dead = not after(reads.get(inner, []))
                # the hidden variable is live here: a read of it is reachable without passing an assignment to it
                defs_o = {}
                for ob, oi, on in stores.get(outer, []):
                    defs_o.setdefault(ob, []).append(oi)
                live = False
                if dead:
                    reach = {sb} | set(f.reachable_from(sb, avoid=set(defs_o) - {sb}))
                    for rb, ri in reads.get(outer, []):
                        if rb == sb and ri > si and not any(si < d < ri for d in defs_o.get(sb, [])):
                            live = True
                        elif rb != sb and rb in reach and rb not in defs_o:
                            live = True
                        elif rb != sb and rb in defs_o and any(p in reach for p in f.blocks[rb].preds) and ri <= min(defs_o[rb]):
                            live = True
                bad = dead and live
                res.ob("%s:%s at line %s" % (f.qn, norm(show(sn, f))[:50], sn.get("l", f.line)), not bad, f, sn.get("l", f.line) or f.line,
                       "" if not bad else "`%s` stores into the inner `%s` (declared at line %s) that hides an outer variable of the same name; the value is never read, and the outer `%s` is read afterwards with its old value" % (
                           norm(show(sn, f))[:60], decls[inner][0], decls[inner][1], decls[inner][0]))
    return res


OBJECT_SIZE_FIELDS = {"_used": (1 << 63) - 1, "_size": (1 << 63) - 1, "_off": (1 << 63) - 1, "_len": (1 << 63) - 1, "iov_len": (1 << 63) - 1}


def run_sumwrap(prog, ctx=None):
    """SUMWRAP: a limit test of the form `a + b <relop> c` on 64-bit unsigned operands decides whether lengths may be changed;
    it is only a limit test while the sum cannot wrap.  Interval analysis, with the sizes and offsets stored in buffers,
    slices and fragments bounded by the largest object size (PTRDIFF_MAX): the upper bounds of the two operands stay below
    2^64 wherever a parameter the function has not bounded yet enters the sum (other sums the intervals cannot bound are listed as not decided).  `used + len > size` with a caller-supplied `len` accepts lengths near SIZE_MAX (the sum wraps to a small number)
    where `len > size - used` refuses them."""
    from .ival import Analysis
    from .rules_path import funcs_of
    res = Result("SUMWRAP")
    files = set(ctx.get("files", [])) if ctx else None
    for f in funcs_of(prog, files):
        sites = []
        for b, i, e in f.elements():
            for n in walk(e):
                if n.get("k") == "bin" and n.get("op") in ("<", "<=", ">", ">="):
                    for side in ("a", "b"):
                        x = strip(n[side], all_casts=True)
                        if x.get("k") == "bin" and x.get("op") == "+":
                            T = f.T(x.get("t"))
                            if T.get("k") == "int" and not T.get("signed") and T.get("bits", 0) >= 64:
                                sites.append((b.id, i, n, x))
        if not sites:
            continue
        try:
            an = Analysis(prog, f)
            an.member_caps = OBJECT_SIZE_FIELDS
            an = an.run()
        except Exception as ex:
            res.notes.append("%s: interval analysis failed (%s)" % (f.qn, ex))
            continue
        seen = set()
        for bid, i, n, x in sites:
            if id(n) in seen:
                continue
            seen.add(id(n))
            va, vb = an.value_at(bid, i, x["a"]), an.value_at(bid, i, x["b"])
            if va is None or vb is None:
                continue
            ok = va.hi + vb.hi < (1 << 64)
            if not ok:
                # judged where a caller-supplied, still unbounded length enters the sum; sums of two derived locals need relations
                # between them (avail + off <= size) that intervals do not carry: listed, no verdict
                pids = {p_.get("id") for p_ in f.params}
                free = False
                for side, v in ((x["a"], va), (x["b"], vb)):
                    r = strip(side, all_casts=True)
                    if r.get("k") == "ref" and r["d"].get("id") in pids and v.hi >= (1 << 64) - 1:
                        free = True
                if not free:
                    res.notes.append("%s: `%s` not bounded by intervals (no unbounded parameter in the sum): not decided" % (f.qn, norm(show(n, f))))
                    continue
            res.ob("%s:%s" % (f.qn, norm(show(n, f))[:60]), ok, f, n.get("l") or f.line,
                   "" if ok else "the sum in `%s` can wrap (operands %s and %s): a length near SIZE_MAX passes the limit test" % (norm(show(n, f)), va, vb))
    return res


def run_sentineluse(prog, ctx=None):
    """SENTINELUSE: a narrow member that its module stores as `M = (v > MAX) ? 0 : v` holds a cache of v with 0 standing for
    "does not fit, work it out again".  The files that contain such stores know the encoding; a function of another file
    that uses M as a number (an argument, an operand of arithmetic) takes 0 for the real value whenever v did not fit: a
    name of 256 bytes or more becomes an empty name.  Outside the storing files M is only compared or assigned."""
    res = Result("SENTINELUSE")
    producers = {}      # (record, member) -> set of files
    for f in prog.functions.values():
        if f.nocfg:
            continue
        for b, i, n in f.walk_all():
            if not (n.get("k") == "bin" and n.get("op") == "="):
                continue
            l = strip(n["a"], lvalue_to_rvalue=False)
            r = strip(n["b"], all_casts=True)
            if l.get("k") != "mem" or r.get("k") != "cond":
                continue
            c = strip(r["c"], all_casts=True)
            arms = [strip(r["a"], all_casts=True), strip(r["b"], all_casts=True)]
            if not (c.get("k") == "bin" and c.get("op") in (">", ">=") and cval(c["b"]) is not None):
                continue
            if cval(arms[0]) != 0 or cval(arms[1]) is not None:
                continue
            if norm(show(strip(c["a"], all_casts=True), f)) != norm(show(arms[1], f)):
                continue
            LT = f.T(l.get("t"))
            if LT.get("k") == "int" and LT.get("bits", 64) <= 16:
                producers.setdefault((l.get("rec", ""), l.get("f")), set()).add(f.file)
    if not producers:
        raise Broken("SENTINELUSE: no saturating member store found")
    files = set(ctx.get("files", [])) if ctx and ctx.get("files") else None
    for f in sorted(prog.functions.values(), key=lambda f: (f.file, f.line, f.qn)):
        if f.nocfg or f.file.startswith("examples/"):
            continue
        done = set()
        k = 0
        for b, i, e in f.elements():
            uses = []

            def visit(n, parent, role):
                if not isinstance(n, dict):
                    return
                if n.get("k") == "mem" and (n.get("rec", ""), n.get("f")) in producers and f.file not in producers[(n.get("rec", ""), n.get("f"))]:
                    uses.append((n, parent, role))
                for ch in children(n):
                    visit(ch, n, None)
            visit(e, None, None)
            for n, parent, _ in uses:
                if id(n) in done:
                    continue
                done.add(id(n))
                # climb over casts to the first real user
                par = {}
                for m in walk(e):
                    for ch in children(m):
                        if isinstance(ch, dict):
                            par[id(ch)] = m
                user = par.get(id(n))
                while user is not None and user.get("k") == "cast":
                    user = par.get(id(user))
                if user is None:
                    continue
                kind = user.get("k")
                numeric = False
                if kind == "call" and any(strip(a, all_casts=True) is n or a is n for a in user.get("args", [])):
                    numeric = True
                if kind == "bin" and user.get("op") in ("+", "-", "*", "/", "%", "<<", ">>"):
                    numeric = True
                if kind == "bin" and user.get("op") == "=" and strip(user["a"], lvalue_to_rvalue=False) is n:
                    continue      # a store
                if kind == "bin" and user.get("op") in ("==", "!=", "<", "<=", ">", ">=", "&&", "||") or kind == "un" and user.get("op") == "!":
                    numeric = False
                sig = (n.get("l"), n.get("c"), norm(show(user, f))[:80])      # the CFG lists a sub-expression again inside its parent element
                if sig in done:
                    continue
                done.add(sig)
                k += 1
                res.ob("%s:%s in `%s`" % (f.qn, norm(show(n, f)), norm(show(user, f))[:50]), not numeric, f, n.get("l") or f.line,
                       "" if not numeric else "`%s` is used as a number in %s; its module stores it as (v > MAX) ? 0 : v, so a value that does not fit reads as 0 here (a long name becomes an empty one)" % (norm(show(n, f)), f.qn))
    return res


def run_endderef(prog, ctx=None):
    """ENDDEREF: a local that receives the end position of a range (`e = x.end()`, `e = begin + length`-style accessors named
    `end`) is a bound: it is compared, never dereferenced (`e->m`, `*e`, `e[i]`).  `return &e->value` inside the loop
    `for (c = begin(), e = end(); c < e; ++c)` hands out the slot behind the used data where the matching element `c` is meant."""
    res = Result("ENDDEREF")
    for f in sorted(prog.functions.values(), key=lambda f: (f.file, f.line, f.qn)):
        if f.nocfg or f.file.startswith("examples/"):
            continue
        ends = {}
        for b, i, n in f.walk_all():
            pairs = []
            if n.get("k") == "decl":
                pairs = [(v["id"], v.get("n") or v.get("name") or "?", v["init"]) for v in n["vars"] if v.get("init") is not None]
            elif n.get("k") == "bin" and n.get("op") == "=":
                l = strip(n["a"], lvalue_to_rvalue=False)
                if l.get("k") == "ref" and "id" in l["d"]:
                    pairs = [(l["d"]["id"], l["d"].get("n"), n["b"])]
            for vid, name, rhs in pairs:
                r = strip(rhs, all_casts=True)
                if r.get("k") == "call":
                    nm = callee_name(r) or ""
                    if nm == "end" or nm.endswith("::end"):
                        ends[vid] = name
        if not ends:
            continue
        # a variable that is assigned anything else as well is not a pure bound
        for b, i, n in f.walk_all():
            if n.get("k") == "bin" and n.get("op", "").endswith("=") and n["op"] not in ("==", "!=", "<=", ">="):
                l = strip(n["a"], lvalue_to_rvalue=False)
                r = strip(n["b"], all_casts=True)
                if l.get("k") == "ref" and l["d"].get("id") in ends:
                    nm = callee_name(r) or "" if r.get("k") == "call" else ""
                    if not (nm == "end" or nm.endswith("::end")):
                        ends.pop(l["d"]["id"], None)
            if n.get("k") == "un" and n.get("op") in ("++", "--", "post++", "post--", "pre++", "pre--"):
                x = strip(n["e"], lvalue_to_rvalue=False)
                if x.get("k") == "ref":
                    ends.pop(x["d"].get("id"), None)
        for vid, name in sorted(ends.items()):
            bad = None
            for b, i, n in f.walk_all():
                base = None
                if n.get("k") == "mem" and n.get("arrow"):
                    base = strip(n["b"], all_casts=True)
                elif n.get("k") == "un" and n.get("op") == "*":
                    base = strip(n["e"], all_casts=True)
                elif n.get("k") == "idx":
                    base = strip(n["a"], all_casts=True)
                if base is not None and base.get("k") == "ref" and base["d"].get("id") == vid and bad is None:
                    bad = n
            res.ob("%s:%s is a bound" % (f.qn, name), bad is None, f, (bad.get("l") if bad else f.line) or f.line,
                   "" if bad is None else "`%s` dereferences %s, which holds the end of the range: the slot behind the last element" % (norm(show(bad, f)), name))
    return res
