"""C19 value generators: VTABLE, NULLDEST, ITERPROTO, STRSCAN, OUTPARAM (tested result)."""
from .facts import strip, cval, walk, walk_own, show, callee_name
from .ival import Analysis, AV, join, ctype_test
from .core import Result, Broken, norm
from .rules_path import funcs_of, natural_loops, OutSummary
from .rules_ref import vtables
from .rules_effect import root_of, return_cases
from .rules_conv import DestTracker


def run_vtable(prog, ctx=None):
    """VTABLE: every initialiser of an interface vtable fills every slot with a function of the slot's arity"""
    res = Result("VTABLE")
    files = set(ctx.get("files", [])) if ctx and ctx.get("files") else None
    for g, u, rname, slot, fn, qn in vtables(prog):
        if "_vptr_" not in rname and "vptr" not in rname.lower():
            continue
        if files and g["file"] not in files:
            continue
        key = "%s:%s.%s" % (g["file"], g["n"], slot)
        if fn is None and qn is None:
            res.ob(key, False, None, g["line"], "vtable slot %s of %s is left NULL: calling it faults" % (slot, g["n"]), file=g["file"])
            continue
        if fn is None:
            res.ob(key, True, None, g["line"], file=g["file"], detail={"fn": qn, "note": "defined outside the analysed sources"})
            continue
        # arity of the slot's function pointer type
        r = prog.records.get(rname)
        want = None
        cur = r
        path = slot.split(".")
        for pi, part in enumerate(path):
            fl = [x for x in cur["fields"] if x["n"] == part] if cur else []
            if not fl:
                cur = None
                break
            T = cur["unit"].types[fl[0]["t"]]
            if pi < len(path) - 1:
                cur = prog.records.get(T.get("name")) if T.get("k") == "record" else None
            else:
                if T.get("k") == "ptr":
                    FT = cur["unit"].types[T["to"]]
                    if FT.get("k") == "func" and not FT.get("noproto"):
                        want = len(FT.get("params", []))
        ok = want is None or want == len(fn.params)
        res.ob(key, ok, fn, fn.line, "" if ok else "slot %s takes %s arguments, %s() is defined with %d" % (slot, want, fn.qn, len(fn.params)))
    return res


def convert_impls(prog, files=None):
    seen = {}
    for g, u, rname, slot, fn, qn in vtables(prog):
        if slot.split(".")[-1] == "convert" and fn is not None and len(fn.params) == 3:
            if files and fn.file not in files:
                continue
            seen[fn.key()] = fn
    return list(seen.values())


def run_nulldest(prog, ctx=None):
    """NULLDEST: a convert() implementation asked without destination (dest == NULL, 'is this conversion possible?') dereferences nothing through it"""
    res = Result("NULLDEST")
    files = set(ctx.get("files", [])) if ctx and ctx.get("files") else None
    for f in sorted(convert_impls(prog, files), key=lambda f: (f.file, f.line)):
        dest_id = f.params[2]["id"]
        if f.T(f.params[2]["t"]).get("k") != "ptr":
            continue
        tr = DestTracker(f, dest_id)
        an = Analysis(prog, f)
        st = an.entry_state()
        st[("v", dest_id)] = AV(0, 0)
        an.run(state=st)
        bad = {}
        for (bid, idx), pre in sorted(an.pre.items()):
            el = f.blocks[bid].el[idx]
            for node, p in tr.derefs(el):
                pv = an.ev(p, dict(pre), True, el)
                if pv.contains(0):
                    bad.setdefault(norm(show(node, f))[:60], node)
        for txt, node in sorted(bad.items()):
            res.ob("%s:%s" % (f.qn, txt), False, f, node.get("l", 0), "destination dereferenced although the caller passed none (query mode): %s" % txt)
        if not bad:
            res.ob("%s:query-mode-safe" % f.qn, True, f, f.line)
    return res


def obj_fields(f, skip_param=True):
    """(reads, writes) of member paths of the object the function works on (rooted at a local derived from the first parameter)"""
    if not f.params:
        return set(), set()
    roots = {f.params[0]["id"]}
    changed = True
    while changed:
        changed = False
        for b, i, n in f.walk_all():
            if n.get("k") == "decl":
                for v in n["vars"]:
                    if v.get("init") is not None and v["id"] not in roots and root_of(v["init"]) in roots and f.T(v["t"]).get("k") == "ptr":
                        roots.add(v["id"]); changed = True
    reads, writes = set(), set()

    def path(m):
        p = []
        cur = m
        while isinstance(cur, dict) and cur.get("k") == "mem":
            p.append(cur["f"])
            cur = strip(cur["b"], all_casts=True)
        if isinstance(cur, dict) and cur.get("k") == "ref" and cur["d"].get("id") in roots and cur["d"]["id"] != f.params[0]["id"]:
            return ".".join(reversed(p))
        return None

    for b, i, e in f.elements():
        wr = set()
        for n in walk_own(e):
            if n.get("k") == "un" and n.get("op") == "&":
                x = strip(n["e"], lvalue_to_rvalue=False)
                while isinstance(x, dict) and x.get("k") == "mem":
                    wr.add(id(x))         # &d->curr: the address is taken, the field is not read
                    x = strip(x["b"], lvalue_to_rvalue=False) if not x.get("arrow") else None
        for n in walk_own(e):
            t = None
            if n.get("k") == "bin" and n["op"].endswith("=") and n["op"] not in ("==", "!=", "<=", ">="):
                t = strip(n["a"], lvalue_to_rvalue=False)
                plain = n["op"] == "="
            elif n.get("k") == "un" and n.get("op") in ("++", "--"):
                t = strip(n["e"], lvalue_to_rvalue=False)
                plain = False
            if t is not None and t.get("k") == "mem":
                p = path(t)
                if p:
                    writes.add(p)
                    if plain:
                        wr.add(id(t))
                    else:
                        reads.add(p)
        for n in walk_own(e):
            if n.get("k") == "mem" and id(n) not in wr:
                p = path(n)
                if p:
                    # outermost path only
                    reads.add(p)
    # drop prefixes of longer paths (d->data read because d->data.pos is read)
    def trim(s):
        return {p for p in s if not any(q != p and q.startswith(p + ".") for q in s)}
    return trim(reads), trim(writes)


def run_iterproto(prog, ctx=None):
    """ITERPROTO: for every iterator vtable {value, advance, reset}:
       advance can report all three outcomes (negative = past the end, 0 = last element consumed, positive = more to come)
       reset restores every field advance changes; a clone() next to it copies every field value/advance read (or the enclosing struct)"""
    res = Result("ITERPROTO")
    files = set(ctx.get("files", [])) if ctx and ctx.get("files") else None
    vt = vtables(prog)
    groups = {}
    for g, u, rname, slot, fn, qn in vt:
        if rname.split("::")[-1] in ("_mpt_vptr_iterator",):
            groups.setdefault((g["file"], g["line"], g["n"]), {})[slot] = fn
    n = 0
    for (gf, gl, gn), slots in sorted(groups.items()):
        if files and gf not in files:
            continue
        val, adv, rst = slots.get("value"), slots.get("advance"), slots.get("reset")
        if not (val and adv and rst):
            continue
        n += 1
        key = "%s:%s" % (gf, gn)
        # advance: three outcomes
        an = Analysis(prog, adv).run()
        signs = set()
        for (bid, idx), pre in an.pre.items():
            el = adv.blocks[bid].el[idx]
            if el.get("k") == "ret" and el.get("e") is not None:
                rv = an.val(bid, idx, el["e"])
                if rv.hi < 0: signs.add("neg")
                elif rv.lo == 0 and rv.hi == 0: signs.add("zero")
                elif rv.lo > 0: signs.add("pos")
                else: signs.add("var")
        ok = ("neg" in signs and ("zero" in signs or "var" in signs)) or signs == {"var"}
        res.ob(key + ":advance-outcomes", ok, adv, adv.line,
               "" if ok else "advance() can only return %s: the documented loop needs a negative result past the end and 0 after the last element" % sorted(signs))
        # the end of the sequence is recorded: every way to `return 0` (last element consumed) passes a store into the
        # iterator object; a return that leaves the state as it was is reported again and again by the next calls
        store_blocks = set()
        for bid, blk in adv.blocks.items():
            for e in blk.el:
                for nn in walk_own(e):
                    t = None
                    if nn.get("k") == "bin" and nn.get("op", "").endswith("=") and nn["op"] not in ("==", "!=", "<=", ">="):
                        t = strip(nn["a"], lvalue_to_rvalue=False)
                    elif nn.get("k") == "un" and nn.get("op") in ("++", "--"):
                        t = strip(nn["e"], lvalue_to_rvalue=False)
                    while t is not None and t.get("k") == "mem":
                        if t.get("arrow"):
                            store_blocks.add(bid)
                            break
                        t = strip(t["b"], lvalue_to_rvalue=False)
                if e.get("k") == "call" and e.get("fn", {}).get("inroot"):
                    # a helper that is handed the object (or a member's address) counts as a store
                    store_blocks.add(bid)
        zero_rets = []
        for (bid, idx), pre in an.pre.items():
            el = adv.blocks[bid].el[idx]
            if el.get("k") == "ret" and el.get("e") is not None and cval(el["e"]) == 0:
                zero_rets.append((bid, el))
        for bid, el in zero_rets:
            reach = {adv.entry} | set(adv.reachable_from(adv.entry, avoid=store_blocks)) if adv.entry not in store_blocks else set()
            ok = bid in store_blocks or bid not in reach
            res.ob(key + ":end-recorded line %s" % (el.get("l", 0) - adv.line), ok, adv, el.get("l", adv.line),
                   "" if ok else "advance() can reach `return 0` (no further element) without having stored anything in the iterator: the next call finds the same state and cannot report the end")
        # reset restores what advance changes
        ar, aw = obj_fields(adv)
        rr, rw = obj_fields(rst)
        for b, i, e in rst.elements():
            if e.get("k") == "call" and e.get("fn", {}).get("inroot"):
                for c in prog.resolve_call(rst, e):
                    if c.file == rst.file:
                        rw = rw | obj_fields(c)[1]
        missing = {p for p in aw if not any(p == q or p.startswith(q + ".") or q.startswith(p + ".") for q in rw)}
        ok = not missing
        res.ob(key + ":reset-restores", ok, rst, rst.line,
               "" if ok else "advance() changes %s but reset() does not set it again: the sequence is not replayed after a reset" % ", ".join(sorted(missing)),
               {"advance_writes": sorted(aw), "reset_writes": sorted(rw)})
        # clone copies what value/advance read
        clone = None
        for g2, u2, rname2, slot2, fn2, qn2 in vt:
            if g2["file"] == gf and slot2 == "clone" and fn2 is not None:
                clone = fn2
        if clone is not None:
            vr, vw = obj_fields(val)
            need = (vr | ar) - {p for p in (vw | aw) if p not in (vr | ar)}
            # fields written in clone through the destination object
            cw = set()
            for b, i, e in clone.elements():
                for nn in walk_own(e):
                    if nn.get("k") == "bin" and nn.get("op") == "=":
                        l = strip(nn["a"], lvalue_to_rvalue=False)
                        if l.get("k") == "mem":
                            p = []
                            cur = l
                            while isinstance(cur, dict) and cur.get("k") == "mem":
                                p.append(cur["f"]); cur = strip(cur["b"], all_casts=True)
                            cw.add(".".join(reversed(p)))
            # fields of the source read by clone are handed over (constructor arguments, locals); a clone that only
            # builds a new object through its constructor is judged by that constructor, not here
            direct = set(cw)
            cr, _cw2 = obj_fields(clone)
            cw |= cr
            if not direct:
                cw = set()
            for b, i, e in clone.elements():
                if e.get("k") == "call" and callee_name(e) in ("memcpy", "memmove") and e.get("args"):
                    for nn in walk(e["args"][0]):
                        if nn.get("k") == "mem":
                            cw.add(nn["f"])
            if cw:
                miss = {p for p in need if not any(p == q or p.startswith(q + ".") for q in cw) and p not in ("val", "_mt", "_it")}
                # fields the constructor derives from its arguments are not visible here: only judge when clone assigns fields itself
                ok = not miss
                res.ob(key + ":clone-copies", ok, clone, clone.line,
                       "" if ok else "clone() assigns %s but not %s which value()/advance() read: the clone continues differently" % (", ".join(sorted(cw)), ", ".join(sorted(miss))),
                       {"read": sorted(need), "copied": sorted(cw)})
    if n < 4:
        raise Broken("ITERPROTO: only %d iterator vtables found" % n)
    return res


def cond_at_nul(f, c, pid):
    """truth of condition c when the character under the scanning pointer is NUL: True / False / None (unknown)"""
    c = strip(c, all_casts=True)
    k = c.get("k")
    if k == "un" and c.get("op") == "!":
        v = cond_at_nul(f, c["e"], pid)
        return None if v is None else (not v)
    if k == "bin" and c.get("op") in ("&&", "||"):
        a, b = cond_at_nul(f, c["a"], pid), cond_at_nul(f, c["b"], pid)
        if c["op"] == "&&":
            if a is False or b is False: return False
            if a is True and b is True: return True
        else:
            if a is True or b is True: return True
            if a is False and b is False: return False
        return None
    ct = ctype_test(c)
    if ct is not None:
        v = char_at_nul(f, ct[0], pid)
        if v == 0:
            return bool(ct[1] & 2)      # only iscntrl() holds for NUL
        return None
    if k == "call" and (callee_name(c) or "").split("::")[-1] in ("isspace", "isgraph", "isalpha", "isdigit", "isalnum", "isprint", "ispunct", "isupper", "islower", "isxdigit"):
        if c.get("args") and char_at_nul(f, c["args"][0], pid) == 0:
            return False
        return None
    if k == "bin" and c.get("op") in ("==", "!=", "<", ">", "<=", ">="):
        a, b = char_at_nul(f, c["a"], pid), char_at_nul(f, c["b"], pid)
        if a is None or b is None:
            return None
        return {"==": a == b, "!=": a != b, "<": a < b, ">": a > b, "<=": a <= b, ">=": a >= b}[c["op"]]
    v = char_at_nul(f, c, pid)
    if v is not None:
        return v != 0
    return None


def char_at_nul(f, e, pid):
    e = strip(e, all_casts=True)
    if cval(e) is not None:
        return cval(e)
    if e.get("k") == "un" and e.get("op") == "*":
        p = strip(e["e"], all_casts=True)
        if p.get("k") == "ref" and p["d"].get("id") == pid:
            return 0
    if e.get("k") == "idx" and cval(e["i"]) == 0:
        p = strip(e["a"], all_casts=True)
        if p.get("k") == "ref" and p["d"].get("id") == pid:
            return 0
    if e.get("k") == "bin" and e.get("op") == "=":
        return char_at_nul(f, e["b"], pid)
    return None


def run_strscan(prog, ctx=None):
    """STRSCAN: a loop that advances a char pointer and whose condition reads the character under it stops at the terminating NUL"""
    res = Result("STRSCAN")
    files = set(ctx.get("files", [])) if ctx and ctx.get("files") else None
    for f in funcs_of(prog, files):
        loops = natural_loops(f)
        for h, body in sorted(loops.items()):
            # char pointers incremented in the loop
            incs = set()
            for x in body:
                for e in f.blocks[x].el:
                    for n in walk_own(e):
                        if n.get("k") == "un" and n.get("op") == "++":
                            t = strip(n["e"], lvalue_to_rvalue=False)
                            if t.get("k") == "ref" and "id" in t["d"]:
                                T = f.T(t.get("t"))
                                if T.get("k") == "ptr" and f.T(T.get("to")).get("char"):
                                    incs.add((t["d"]["id"], t["d"]["n"]))
            if not incs:
                continue
            for x in body:
                blk = f.blocks[x]
                if not (blk.term and blk.term.get("cond") is not None and blk.term.get("cls") in ("WhileStmt", "ForStmt", "DoStmt")):
                    continue
                for pid, nm in incs:
                    c = blk.term["cond"]
                    reads = any(n.get("k") == "un" and n.get("op") == "*" and strip(n["e"], all_casts=True).get("k") == "ref"
                                and strip(n["e"], all_casts=True)["d"].get("id") == pid for n in walk(c))
                    if not reads:
                        continue
                    # other exits of the loop that test the same character (if (!*p) break) save it
                    other = False
                    for y in body:
                        b2 = f.blocks[y]
                        if y != x and b2.term and b2.term.get("cond") is not None and any(s is not None and s not in body for s in b2.succ):
                            v2 = cond_at_nul(f, b2.term["cond"], pid)
                            if v2 is not None:
                                other = True
                    v = cond_at_nul(f, c, pid)
                    key = "%s:%s" % (f.qn, norm(show(c, f))[:60])
                    if v is None:
                        res.notes.append("%s: not decided" % key)
                        continue
                    ok = (v is False) or other
                    res.ob(key, ok, f, blk.term.get("l", 0),
                           "" if ok else "the loop condition is still true for the terminating NUL: %s runs past the end of the string" % nm)
    return res


def run_outparam_tested(prog, ctx=None):
    """OUTPARAM (caller, tested result): where a local passed as result parameter is read, the callee's result cannot lie in the
    class of returns on which the callee leaves it unwritten"""
    res = Result("OUTPARAM")
    files = set(ctx.get("files", [])) if ctx and ctx.get("files") else None
    osum = OutSummary(prog)
    for f in funcs_of(prog, files):
        uninit = {}
        for b, i, n in f.walk_all():
            if n.get("k") == "decl":
                for v in n["vars"]:
                    if v.get("init") is None and not v.get("static") and f.T(v["t"]).get("k") in ("int", "ptr", "float", "enum", "bool"):
                        uninit[v["id"]] = v["n"]
        if not uninit:
            continue
        assigned = {}
        for b, i, n in f.walk_all():
            if n.get("k") == "bin" and n["op"].endswith("=") and n["op"] not in ("==", "!=", "<=", ">="):
                l = strip(n["a"], lvalue_to_rvalue=False)
                if l.get("k") == "ref" and "id" in l["d"]:
                    assigned.setdefault(l["d"]["id"], []).append((b.id, n))
        an = None
        for b, i, el in f.elements():
            if el.get("k") != "call" or not el.get("fn", {}).get("inroot"):
                continue
            cs = prog.resolve_call(f, el)
            if not cs:
                continue
            outs = []
            for ai, a in enumerate(el.get("args", [])):
                s = strip(a, all_casts=True)
                if s.get("k") == "un" and s.get("op") == "&":
                    x = strip(s["e"], lvalue_to_rvalue=False)
                    if x.get("k") == "ref" and x["d"].get("id") in uninit and x["d"]["id"] not in assigned:
                        outs.append((ai, x["d"]["id"]))
            if not outs:
                continue
            consts = tuple(cval(a) for a in el.get("args", []))
            summ = osum.get(cs[0], consts)
            if not summ:
                continue
            # variable receiving the result:  (r = call(...))
            rvar = None
            for e2 in b.el[i + 1:]:
                for n in walk(e2):
                    if n.get("k") == "bin" and n.get("op") == "=" and any(m.get("sid") == el.get("sid") for m in walk(n["b"])):
                        l = strip(n["a"], lvalue_to_rvalue=False)
                        if l.get("k") == "ref" and "id" in l["d"]:
                            rvar = l
            if rvar is None:
                continue
            for ai, vid in outs:
                s = summ.get(ai)
                if not s or s["unwritten"] is None:
                    continue
                unw = s["unwritten"]
                # trace partition on "which call last defined the result variable": only states where it still holds
                # the result of *this* call are compared with the callee's unwritten class
                PK = Analysis.PK
                rid = rvar["d"]["id"]
                mysid = el.get("sid")

                def hook(an_, b_, i_, e_, st_, rid=rid):
                    for n in walk_own(e_):
                        if n.get("k") == "bin" and n["op"].endswith("=") and n["op"] not in ("==", "!=", "<=", ">="):
                            l = strip(n["a"], lvalue_to_rvalue=False)
                            if l.get("k") == "ref" and l["d"].get("id") == rid:
                                sids = [m.get("sid") for m in walk(n["b"]) if m.get("k") == "call" and "sid" in m]
                                st_[PK] = sids[0] if sids else "other"

                an2 = Analysis(prog, f, hook=hook)
                st0 = an2.entry_state()
                st0[PK] = "none"
                an2.run(state=st0)
                bad = None
                for (bid, idx), parts in sorted(an2.pre_parts.items()):
                    st = parts.get(mysid)
                    if st is None:
                        continue
                    e3 = f.blocks[bid].el[idx]
                    for n in walk_own(e3):
                        if n.get("k") == "cast" and n.get("ck") == "LValueToRValue":
                            x = strip(n["e"], lvalue_to_rvalue=False)
                            if x.get("k") == "ref" and x["d"].get("id") == vid:
                                rv = an2.ev(rvar, dict(st), True, e3)
                                lo, hi = max(rv.lo, unw.lo), min(rv.hi, unw.hi)
                                if lo <= hi and bad is None:
                                    bad = (e3, rv)
                key = "%s:%s:out %s" % (f.qn, norm(show(el, f))[:60], uninit[vid])
                ok = bad is None
                res.ob(key, ok, f, el.get("l", 0),
                       "" if ok else "%s is read (line %s) while the result of %s() may be %s; for results in %s the callee does not write it" % (
                           uninit[vid], bad[0].get("l"), cs[0].qn, bad[1], unw), {"unwritten_on": unw.tojson()})
    return res


def run_containerof(prog, ctx=None):
    """CONTAINEROF: a pointer to an embedded interface object is turned into a pointer to the record that embeds it by going back
    exactly the offset of a member of that type: `(R *)((int8_t *) p - k)` (MPT_baseaddr) needs a member of R at offset k whose
    type is what p points to; `(R *)(p + c)` / `(R *)(p - c)` in units of *p likewise with k = -c * sizeof(*p)."""
    res = Result("CONTAINEROF")
    files = set(ctx.get("files", [])) if ctx and ctx.get("files") else None
    from .rules_path import funcs_of

    def short(a):
        return (a or "").replace("mpt::", "").replace("mpt_", "")

    def parents(T, depth=0):
        """interfaces a C interface record extends: its vtable record starts with the parent's vtable record"""
        out = set()
        rec = prog.records.get(T)
        if not rec or depth > 3:
            return out
        for fl in rec["fields"][:1]:
            FT = rec["unit"].types[fl["t"]] if fl["t"] is not None and fl["t"] >= 0 else {}
            if fl["n"] == "_vptr" and FT.get("k") == "ptr":
                V = rec["unit"].types[FT["to"]] if FT.get("to") is not None and FT["to"] >= 0 else {}
                vrec = prog.records.get(V.get("name")) if V.get("k") == "record" else None
                for vf in (vrec or {}).get("fields", [])[:1]:
                    W = vrec["unit"].types[vf["t"]] if vf["t"] is not None and vf["t"] >= 0 else {}
                    if W.get("k") == "record" and "vptr_" in (W.get("name") or ""):
                        par = W["name"].split("vptr_", 1)[1]
                        out.add(par)
                        out |= parents("mpt_" + par, depth + 1)
        return out

    def same(a, b):
        """member type a serves for a pointer to b: the same record, or an interface that extends b"""
        return short(a) == short(b) or short(b) in {short(x) for x in parents(a)}

    def member_at(R, S, k, depth=0):
        """name of the (possibly nested) member of record R at byte offset k whose type is S (an interface embedded as the
        first member of another interface counts: a metatype starts with its convertable part)"""
        rec = prog.records.get(R)
        if not rec or depth > 4 or k < 0:
            return None
        for bs in rec.get("bases") or []:
            if same(bs.get("name"), S) and (bs.get("off", 0) or 0) == k:
                return "<base>"
        for fl in rec["fields"]:
            T = rec["unit"].types[fl["t"]] if fl["t"] is not None and fl["t"] >= 0 else {}
            if T.get("k") != "record" or fl.get("off") is None:
                continue
            if fl["off"] == k and same(T.get("name"), S):
                return fl["n"]
            if fl["off"] <= k < fl["off"] + (T.get("sz") or 0):
                m = member_at(T.get("name"), S, k - fl["off"], depth + 1)
                if m:
                    return fl["n"] + "." + m
        return None

    def has_member_of(R, S, depth=0):
        rec = prog.records.get(R)
        if not rec or depth > 4:
            return False
        for fl in rec["fields"]:
            T = rec["unit"].types[fl["t"]] if fl["t"] is not None and fl["t"] >= 0 else {}
            if T.get("k") == "record" and (same(T.get("name"), S) or has_member_of(T.get("name"), S, depth + 1)):
                return True
        return False

    for f in funcs_of(prog, files):
        for b, i, n in f.walk_all():
            if n.get("k") != "cast" or n.get("ck") != "BitCast":
                continue
            T = f.T(n.get("t"))
            if T.get("k") != "ptr":
                continue
            R = f.T(T.get("to"))
            if R.get("k") != "record":
                continue
            r = strip(n["e"], all_casts=True)
            if not (r.get("k") == "bin" and r.get("op") in ("+", "-") and cval(r["b"]) is not None):
                continue
            c = cval(r["b"])
            # the pointer whose object is embedded: through the byte cast of MPT_baseaddr, or used directly
            a = r["a"]
            unit = 1
            inner = strip(a, all_casts=True)
            AT = f.T(a.get("t"))
            if AT.get("k") == "ptr":
                ET = f.T(AT.get("to"))
                unit = ET.get("sz", 1) or 1
            PT = f.T(inner.get("t"))
            if PT.get("k") != "ptr":
                continue
            S = f.T(PT.get("to"))
            if S.get("k") != "record" or S.get("name") == R.get("name"):
                continue
            if not has_member_of(R.get("name"), S.get("name")):
                continue          # not a container relation (payload behind a header, unrelated cast)
            k = -(c if r["op"] == "+" else -c) * unit
            m = member_at(R.get("name"), S.get("name"), k)
            ok = m is not None
            res.ob("%s:%s" % (f.qn, norm(show(n, f))[:70]), ok, f, n.get("l", f.line),
                   "" if ok else "%s: a pointer to %s is taken back %d bytes to a %s, which has no member of that type at offset %d" % (
                       f.qn, S.get("name"), k, R.get("name"), k), {"member": m, "offset": k})
            res.count("sites")
    return res


def run_fieldnull(prog, ctx=None):
    """FIELDNULL (Engler's contradiction, across the methods of one object): a pointer member that one method of an iterator
    sets to null (the exhausted marker) or tests for null is not dereferenced, nor used in pointer arithmetic, by another method of
    the same object without a null test of its own that excludes null on the way."""
    res = Result("FIELDNULL")
    files = set(ctx.get("files", [])) if ctx and ctx.get("files") else None
    groups = {}
    for g, u, rname, slot, fn, qn in vtables(prog):
        if fn is None or fn.nocfg:
            continue
        if files and fn.file not in files:
            continue
        groups.setdefault(fn.file, {})[fn.key()] = fn
    n = 0
    for file, fns in sorted(groups.items()):
        fns = sorted(fns.values(), key=lambda f: f.line)

        def fields_of(e):
            """(field name) for `x->F` where F is a pointer member"""
            e = strip(e, all_casts=True)
            if e.get("k") == "mem" and e.get("arrow"):
                return e.get("f"), e.get("rec")
            return None, None
        setnull, tested = {}, {}
        for f in fns:
            for b, i, nn in f.walk_all():
                if nn.get("k") == "bin" and nn.get("op") == "=" and cval(nn["b"]) == 0:
                    l = strip(nn["a"], lvalue_to_rvalue=False)
                    if l.get("k") == "mem" and l.get("arrow") and f.T(l.get("t")).get("k") == "ptr":
                        setnull.setdefault((l.get("rec"), l["f"]), f.name)
            for bid, blk in f.blocks.items():
                t = blk.term
                if t and isinstance(t.get("cond"), dict):
                    c = strip(t["cond"], all_casts=True)
                    while c.get("k") == "un" and c.get("op") == "!":
                        c = strip(c["e"], all_casts=True)
                    if c.get("k") == "mem" and c.get("arrow") and f.T(c.get("t")).get("k") == "ptr":
                        tested.setdefault((c.get("rec"), c["f"]), set()).add(f.name)
        # the marker idiom: one method stores null, at least two methods test for it
        nullable = {k: "%s sets it to null and %s test it for null" % (setnull[k], ", ".join(sorted(tested[k])))
                    for k in setnull if len(tested.get(k, ())) >= 2}
        if not nullable:
            continue
        for f in fns:
            dom = f.dominators()
            # blocks reached only with F non-null: dominated by a test of F whose null edge does not lead there
            def guarded(bid, rec, fld):
                for d in dom[bid]:
                    D = f.blocks[d]
                    t = D.term
                    if not (t and isinstance(t.get("cond"), dict) and len(D.succ) == 2):
                        continue
                    c = strip(t["cond"], all_casts=True)
                    neg = False
                    while c.get("k") == "un" and c.get("op") == "!":
                        neg = not neg
                        c = strip(c["e"], all_casts=True)
                    if c.get("k") == "bin" and c.get("op") == "=":
                        c = strip(c["a"], lvalue_to_rvalue=False)
                    if not (c.get("k") == "mem" and c.get("f") == fld and c.get("rec") == rec):
                        continue
                    null_succ = D.succ[0] if neg else D.succ[1]
                    if null_succ is None or (null_succ != bid and bid not in f.reachable_from(null_succ, avoid={d})):
                        return True
                return False
            for b, i, e in f.elements():
                for nn in walk_own(e):
                    uses = []
                    if nn.get("k") == "un" and nn.get("op") == "*":
                        uses.append(nn["e"])
                    elif nn.get("k") == "idx":
                        uses.append(nn["a"])
                    elif nn.get("k") == "bin" and nn.get("op") in ("+", "-") and f.T(nn["a"].get("t")).get("k") == "ptr":
                        uses.append(nn["a"])
                        if f.T(nn["b"].get("t")).get("k") == "ptr":
                            uses.append(nn["b"])
                    elif nn.get("k") == "bin" and nn.get("op") in ("+=", "-=") and f.T(nn["a"].get("t")).get("k") == "ptr":
                        uses.append(nn["a"])
                    for u_ in uses:
                        us = strip(u_, all_casts=True)
                        if us.get("k") == "mem" and us.get("arrow") and (us.get("rec"), us.get("f")) in nullable:
                            ok = guarded(b.id, us.get("rec"), us["f"])
                            if not ok:
                                # set to something else on the way here (same block before, or a dominating block)
                                prior = list(f.blocks[b.id].el[:i + 1])
                                for dd in dom[b.id]:
                                    if dd != b.id:
                                        prior.extend(f.blocks[dd].el)
                                for e2 in prior:
                                    for m2 in walk_own(e2):
                                        if m2.get("k") == "bin" and m2.get("op") == "=" and cval(m2["b"]) != 0:
                                            l2 = strip(m2["a"], lvalue_to_rvalue=False)
                                            if l2.get("k") == "mem" and l2.get("f") == us["f"] and l2.get("rec") == us.get("rec") and m2 is not nn:
                                                ok = True
                            n += 1
                            res.ob("%s:%s:%s" % (f.qn, us["f"], norm(show(nn, f))[:40]), ok, f, nn.get("l", f.line),
                                   "" if ok else "%s uses ->%s (%s) although %s, and no test in %s excludes null here" % (
                                       f.qn, us["f"], norm(show(nn, f))[:40], nullable[(us.get("rec"), us["f"])], f.name))
    if n < 3:
        raise Broken("FIELDNULL: only %d uses of nullable pointer members in vtable methods" % n)
    return res


def run_parkrestore(prog, ctx=None):
    """PARKRESTORE: a scanner that terminates the current word in place parks the byte it overwrites (`X->S = *X->R;
    *X->R = 0`, R the marker, S the parked byte).  Before a function drops the marker (`X->R = 0`) of an object it was
    handed, the parked byte is back in the text (`*X->R = X->S`) or the marker is known to be null: otherwise the text stays
    cut at the last word that was read and everything behind it is lost for reset, clone and the following elements.
    Typestate over the marker with trace partitioning (parked? / restored-or-null)."""
    res = Result("PARKRESTORE")
    files = set(ctx.get("files", [])) if ctx else None
    fs = funcs_of(prog, files)
    # discover (R, S) pairs from the park idiom
    pairs = set()
    for f in fs:
        for b, i, n in f.walk_all():
            if n.get("k") == "bin" and n.get("op") == "=":
                l = strip(n["a"], lvalue_to_rvalue=False)
                r = strip(n["b"], all_casts=True)
                if l.get("k") == "mem" and r.get("k") == "un" and r.get("op") == "*":
                    p = strip(r["e"], all_casts=True)
                    if p.get("k") == "mem" and norm(show(strip(p["b"], all_casts=True), f)) == norm(show(strip(l["b"], all_casts=True), f)):
                        pairs.add((p["f"], l["f"], l.get("rec") or ""))
    for R, S, rec in sorted(pairs):
        for f in fs:
            clears = []
            for b, i, e in f.elements():
                for n in walk_own(e):
                    if n.get("k") == "bin" and n.get("op") == "=" and cval(n["b"]) == 0:
                        l = strip(n["a"], lvalue_to_rvalue=False)
                        if l.get("k") == "mem" and l.get("f") == R and (not rec or (l.get("rec") or "") == rec):
                            clears.append((b, i, n, l))
            if not clears and not any(n.get("k") == "mem" and n.get("f") == R for b, i, n in f.walk_all()):
                continue
            pids = {p["id"] for p in f.params}
            PK = Analysis.PK

            def is_R(x):
                x = strip(x, all_casts=True)
                return x.get("k") == "mem" and x.get("f") == R

            def hook(an, blk, idx, el, st):
                for n in walk_own(el):
                    if n.get("k") == "bin" and n.get("op") == "=":
                        l = strip(n["a"], lvalue_to_rvalue=False)
                        if l.get("k") == "un" and l.get("op") == "*" and is_R(l["e"]):
                            v = strip(n["b"], all_casts=True)
                            if v.get("k") == "mem" and v.get("f") == S:
                                st[PK] = "R"          # put back
                            elif cval(n["b"]) == 0:
                                st[PK] = "U"          # parked: the text is cut here

            def edge_hook(an, blk, cond, truth, st):
                c = strip(cond, all_casts=True)
                neg = False
                while c.get("k") == "un" and c.get("op") == "!":
                    neg = not neg
                    c = strip(c["e"], all_casts=True)
                if is_R(c) and (truth == neg):
                    st[PK] = "R"                      # marker null: nothing is parked

            an = Analysis(prog, f, hook=hook, edge_hook=edge_hook)
            st0 = an.entry_state()
            st0[PK] = "U"
            an.run(state=st0)
            # reads of the text through the marker: a call that is handed X->R (or a local that holds it) as a string sees the
            # terminator that was parked there, i.e. an empty text, unless the byte was put back first
            mark_locals = set()
            for b2, i2, m in f.walk_all():
                if m.get("k") == "bin" and m.get("op") == "=":
                    ll = strip(m["a"], lvalue_to_rvalue=False)
                    if ll.get("k") == "ref" and "id" in ll["d"] and is_R(m["b"]):
                        mark_locals.add(ll["d"]["id"])
                elif m.get("k") == "decl":
                    for v in m["vars"]:
                        if v.get("init") is not None and is_R(v["init"]):
                            mark_locals.add(v["id"])
            for b2, i2, e2 in f.elements():
                if e2.get("k") != "call" or not e2.get("args"):
                    continue
                for a in e2["args"]:
                    x = strip(a, all_casts=True)
                    via = None
                    if is_R(x):
                        via = norm(show(x, f))
                    elif x.get("k") == "ref" and x["d"].get("id") in mark_locals:
                        via = x["d"]["n"]
                    if via is None:
                        continue
                    # the state in which the marker was loaded: at the call for X->R itself, at the assignment for a local
                    sites = [(b2.id, i2)]
                    if x.get("k") == "ref":
                        sites = [(bb.id, ii) for bb, ii, ee in f.elements() if any(m.get("k") == "bin" and m.get("op") == "=" and strip(m["a"], lvalue_to_rvalue=False).get("k") == "ref"
                                                                                  and strip(m["a"], lvalue_to_rvalue=False)["d"].get("id") == x["d"]["id"] and is_R(m["b"]) for m in walk_own(ee))] or sites
                    bad = any(("U" in an.pre_parts.get(s2, {})) or ("*" in an.pre_parts.get(s2, {})) for s2 in sites)
                    res.ob("%s:%s read through %s" % (f.qn, norm(show(e2, f))[:50], via), not bad, f, e2.get("l", f.line) or f.line,
                           "" if not bad else "`%s` is handed the marker %s as text while the byte parked in %s may not have been put back: the text starts with the terminator that replaced it (an empty string)" % (
                               norm(show(e2, f))[:70], via, S))
            for b, i, n, l in clears:
                root = root_of(l["b"])
                fresh = False
                if root is not None and root not in pids and root != 0:
                    # object created here (allocation result), not one the function was handed
                    own = True
                    for b2, i2, m in f.walk_all():
                        src = None
                        if m.get("k") == "decl":
                            for v in m["vars"]:
                                if v["id"] == root and v.get("init") is not None:
                                    src = v["init"]
                        elif m.get("k") == "bin" and m.get("op") == "=":
                            ll = strip(m["a"], lvalue_to_rvalue=False)
                            if ll.get("k") == "ref" and ll["d"].get("id") == root:
                                src = m["b"]
                        if src is not None and root_of(src) in pids:
                            own = False
                    fresh = own
                if fresh:
                    res.ob("%s:%s at line %s" % (f.qn, norm(show(n, f)), n.get("l", f.line)), True, f, n.get("l", f.line) or f.line)
                    continue
                parts = an.pre_parts.get((b.id, i), {})
                bad = "U" in parts or "*" in parts
                res.ob("%s:%s at line %s" % (f.qn, norm(show(n, f)), n.get("l", f.line)), not bad, f, n.get("l", f.line) or f.line,
                       "" if not bad else "`%s` drops the marker on a path where the byte parked in %s was not put back (`*%s = %s`) and the marker was not known to be null: the text stays cut behind the last word read" % (
                           norm(show(n, f)), S, norm(show(l, f)), norm(show(l, f)).replace(R, S)))
    if not pairs:
        raise Broken("PARKRESTORE: no park idiom (X->S = *X->R) found in the files given")
    return res


def run_derivedfield(prog, ctx=None):
    """DERIVEDFIELD: a member that caches something computed from another member of the same object (`m->str = data +
    m->s._off`) is brought up to date wherever that other member is given a new value: a function that stores to the source
    member B of an object also stores to the cached member A of it, or hands the object to a function of the file that does
    (the one that derives it).  A clone or copy that moves the position but keeps the cached pointer delivers the element of
    the old position first."""
    res = Result("DERIVEDFIELD")
    files = set(ctx.get("files", [])) if ctx else None
    fs = funcs_of(prog, files)
    byfile = {}
    for f in fs:
        byfile.setdefault(f.file, []).append(f)

    def mpath(e):
        p = []
        cur = strip(e, lvalue_to_rvalue=False)
        while isinstance(cur, dict) and cur.get("k") == "mem":
            p.append(cur["f"])
            cur = strip(cur["b"], all_casts=True)
        return ".".join(reversed(p)), cur

    for file, funcs in sorted(byfile.items()):
        # derivations: rec-level pairs (A, B) with the deriving functions
        derive = {}
        stores = {}          # function key -> {path: [node]} per root variable id
        for f in funcs:
            for b, i, n in f.walk_all():
                if not (n.get("k") == "bin" and n.get("op") == "="):
                    continue
                a, root = mpath(n["a"])
                if not a or not isinstance(root, dict) or root.get("k") != "ref" or "id" not in root["d"]:
                    continue
                rid = root["d"]["id"]
                stores.setdefault(f.key(), {}).setdefault((rid, a), []).append(n)
                if f.T(strip(n["a"], lvalue_to_rvalue=False).get("t")).get("k") != "ptr" or cval(n["b"]) is not None:
                    continue
                for m in walk(n["b"]):
                    if m.get("k") == "mem":
                        bpath, r2 = mpath(m)
                        if bpath and bpath != a and isinstance(r2, dict) and r2.get("k") == "ref" and r2["d"].get("id") == rid \
                                and f.T(m.get("t")).get("k") == "int":
                            derive.setdefault((a, bpath), set()).add(f.key())
        if not derive:
            continue
        writers = {}         # cached member -> functions of the file that store it
        for f in funcs:
            for (rid, a), ns in stores.get(f.key(), {}).items():
                writers.setdefault(a, set()).add(f.key())
        # cached means: some function of the file reads the member without computing it itself
        readers = {}
        for f in funcs:
            lhs = set()
            for b, i, n in f.walk_all():
                if n.get("k") == "bin" and n.get("op") == "=":
                    lhs.add(id(strip(n["a"], lvalue_to_rvalue=False)))
            for b, i, n in f.walk_all():
                if n.get("k") == "mem" and id(n) not in lhs:
                    pth, r2 = mpath(n)
                    if pth:
                        readers.setdefault(pth, set()).add(f.key())
        for (a, bpath), dfs in sorted(derive.items()):
            if not (readers.get(a, set()) - writers.get(a, set())):
                continue
            for f in funcs:
                st = stores.get(f.key(), {})
                roots = {rid for (rid, p) in st if p == bpath}
                for rid in sorted(roots):
                    if (rid, a) in st:
                        ok = True
                    else:
                        # the object is handed to a function of this file that stores the cached member
                        ok = False
                        for b2, i2, e2 in f.elements():
                            if e2.get("k") == "call":
                                for g in prog.resolve_call(f, e2):
                                    if g.key() in writers.get(a, ()) and any(root_of(x) == rid for x in e2.get("args", [])):
                                        ok = True
                    n0 = st[(rid, bpath)][0]
                    res.ob("%s:%s follows %s" % (f.qn, a, bpath), ok, f, n0.get("l", f.line) or f.line,
                           "" if ok else "`%s` gives %s a new value, but %s, which %s derives from it, is neither stored here nor by a callee that is handed the object: the cached value belongs to the old %s" % (
                               norm(show(n0, f)), bpath, a, ", ".join(sorted(k[2] if isinstance(k, tuple) and len(k) > 2 else str(k) for k in dfs))[:60], bpath))
            # path clause: behind a change of the source member (a store to it, or a callee that is handed the address of the
            # sub-object it lives in) no exit of the function is reached with the cached pointer as it was: it is stored again,
            # recomputed by a writer of the file that is handed the object, or it was null already (null is never stale)
            bpre = bpath.split(".")[0]
            for f in funcs:
                _derived_paths(prog, f, a, bpath, bpre, writers.get(a, ()), mpath, res)
    return res


def _derived_paths(prog, f, a, bpath, bpre, awriters, mpath, res):
    """typestate of the cached member per object root: U as found, N null, F stored here, S stale (source changed behind it)"""
    # events per (block, element index): list of (root id, kind)
    ev = {}
    roots = set()
    names = {}
    for b, i, e in f.elements():
        out = []
        for n in walk_own(e):
            if n.get("k") == "bin" and n.get("op") == "=":
                pth, root = mpath(n["a"])
                if pth and isinstance(root, dict) and root.get("k") == "ref" and "id" in root["d"]:
                    rid = root["d"]["id"]
                    names[rid] = root["d"].get("n")
                    if pth == a:
                        out.append((rid, "N" if cval(n["b"]) == 0 else "F"))
                    elif pth == bpath:
                        out.append((rid, "chg"))
                        roots.add(rid)
            if n.get("k") == "call":
                tg = prog.resolve_call(f, n)
                for x in n.get("args", []):
                    s = strip(x, all_casts=True)
                    if s.get("k") == "un" and s.get("op") == "&":
                        pth, root = mpath(s["e"])
                        if pth and pth.split(".")[0] == bpre and (pth == bpre or bpath.startswith(pth + ".") or pth == bpath) \
                                and isinstance(root, dict) and root.get("k") == "ref" and "id" in root["d"]:
                            ptee = f.T(f.pointee(x.get("t")) if f.pointee(x.get("t")) is not None else -1)
                            if not ptee.get("const"):
                                out.append((root["d"]["id"], "chg"))
                                roots.add(root["d"]["id"])
                                names[root["d"]["id"]] = root["d"].get("n")
                    r = root_of(x)
                    if r is not None and any(g.key() in awriters for g in tg):
                        out.append((r, "F"))
        if out:
            ev[(b.id, i)] = out
    for rid in sorted(roots):
        # forward may-analysis over {U, N, F, S}
        IN = {bid: set() for bid in f.blocks}
        IN[f.entry] = {"U"}
        work = [f.entry]
        OUTS = {}
        bad = None
        while work:
            bid = work.pop()
            st = set(IN[bid])
            blk = f.blocks[bid]
            for i, e in enumerate(blk.el):
                for r, k in ev.get((bid, i), []):
                    if r != rid:
                        continue
                    if k == "chg":
                        st = {("N" if x == "N" else "S") for x in st}
                    else:
                        st = {k}
                if e.get("k") == "ret" and "S" in st and bad is None:
                    v = cval(e["e"]) if e.get("e") is not None else None
                    if not (v is not None and v < 0):
                        bad = e
            if OUTS.get(bid) == st:
                continue
            OUTS[bid] = st
            for s2 in blk.succ:
                if s2 is not None and s2 in IN and not st <= IN[s2]:
                    IN[s2] |= st
                    work.append(s2)
        res.ob("%s:%s behind %s of %s" % (f.qn, a, bpath, names.get(rid) or "?"), bad is None, f, (bad.get("l") if bad else f.line) or f.line,
               "" if bad is None else "`%s` is reached on a path where %s was changed and %s, derived from it, was neither stored afterwards nor null before: the cached pointer belongs to the old %s" % (
                   norm(show(bad, f)), bpath, a, bpath))
