"""PROPTABLE (C20) and CONVDEST (C20, C07, C10, C19)."""
from .facts import strip, cval, walk, walk_own, show, callee_name
from .core import Result, Broken, norm
from .typemap import TypeMap, idname
from .rules_table import same_ctype

KINDS = ("axis", "line", "text", "graph", "world")
STRCMP = ("strcasecmp", "strcmp")


def mem_path(e, root_id=None):
    """('a.b.c', root expr) for a member chain; root is what the chain starts from"""
    path = []
    cur = strip(e, lvalue_to_rvalue=False)
    while isinstance(cur, dict) and cur.get("k") == "mem":
        path.append(cur["f"])
        cur = strip(cur["b"], all_casts=True)
    return ".".join(reversed(path)), cur


def static_local(prog, fn, pred):
    for u, g in prog.globals:
        if g.get("slocal") and g.get("in") == fn.qn and g["file"] == fn.file and pred(u, g):
            return u, g
    return None


def leaves(prog, u, tid, prefix=""):
    """scalar leaves (path, type dict) of a type in declaration order"""
    T = u.types[tid]
    if T.get("k") == "record":
        r = prog.records.get(T["name"])
        out = []
        if r:
            for fl in r["fields"]:
                out.extend(leaves(prog, r["unit"], fl["t"], prefix + fl["n"] + "."))
        return out
    if T.get("k") == "array":
        out = []
        for i in range(T.get("n", 0)):
            out.extend(leaves(prog, u, T["to"], prefix[:-1] + "[%d]." % i))
        return out
    return [(prefix[:-1], T)]


def name_branches(f, name_id):
    """literal -> (block id of the comparison, successor taken on match)"""
    out = {}
    for bid, b in f.blocks.items():
        if not b.term or b.term.get("cond") is None or len(b.succ) != 2:
            continue
        c = strip(b.term["cond"], all_casts=True)
        # the branch of a block that ends an `a || b` / `a && b` condition is taken on its last operand
        while c.get("k") == "bin" and c.get("op") in ("||", "&&"):
            c = strip(c["b"], all_casts=True)
        neg = False
        if c.get("k") == "un" and c.get("op") == "!":
            neg = True
            c = strip(c["e"], all_casts=True)
        elif c.get("k") == "bin" and c.get("op") in ("==", "!=") and cval(c["b"]) == 0:
            neg = c["op"] == "=="
            c = strip(c["a"], all_casts=True)
        if c.get("k") != "call" or callee_name(c) not in STRCMP + ("strncasecmp", "strncmp"):
            continue
        args = c.get("args", [])
        a0 = strip(args[0], all_casts=True) if args else {}
        a1 = strip(args[1], all_casts=True) if len(args) > 1 else {}
        if a0.get("k") == "ref" and a0["d"].get("id") == name_id and a1.get("k") == "str":
            out[a1.get("s")] = (bid, b.succ[0] if neg else b.succ[1], callee_name(c))
    return out


def region(f, start, stops):
    seen = set()
    st = [start]
    while st:
        b = st.pop()
        if b is None or b in seen or (b in stops and b != start):
            continue
        seen.add(b)
        st.extend(s for s in f.blocks[b].succ if s is not None)
    return seen


def touched(f, blocks, obj_id):
    out = set()
    for bid in blocks:
        for e in f.blocks[bid].el:
            for n in walk(e):
                if n.get("k") == "mem":
                    p, root = mem_path(n)
                    if isinstance(root, dict) and root.get("k") == "ref" and root["d"].get("id") == obj_id:
                        out.add(p)
    # keep outermost paths only is not needed: prefixes are in the set as well
    return out


def run_proptable(prog, ctx=None):
    res = Result("PROPTABLE")
    tm = TypeMap(prog)
    for kind in KINDS:
        getter = prog.func("mpt_%s_get" % kind)
        setter = prog.func("mpt_%s_set" % kind)
        if getter is None or setter is None:
            raise Broken("anchor missing: mpt_%s_get/_set" % kind)
        tab = static_local(prog, getter, lambda u, g: u.types[g["t"]].get("k") == "array" and u.types[u.types[g["t"]]["to"]].get("k") == "record")
        fmt = static_local(prog, getter, lambda u, g: u.types[g["t"]].get("k") == "array" and u.types[u.types[g["t"]]["to"]].get("k") == "int")
        if tab is None:
            raise Broken("mpt_%s_get: property table not found" % kind)
        u, g = tab
        obj_t = getter.pointee(getter.params[0]["t"])
        rec = getter.T(obj_t)
        rows = []
        for row in g["init"].get("elts", []):
            if row.get("k") != "init" or len(row["elts"]) < 4:
                continue
            nm = strip(row["elts"][0], all_casts=True).get("s")
            tid = cval(row["elts"][2])
            off = cval(row["elts"][3])
            path = ft = None
            for n in walk(row["elts"][3]):
                if n.get("k") == "mem":
                    p, root = mem_path(n)
                    if path is None or len(p) > len(path):
                        path, ft = p, u.types[n["t"]]
            rows.append((nm, tid, off, path, ft, row.get("l", 0)))
        if len(rows) < 3:
            raise Broken("mpt_%s_get: %d table rows" % (kind, len(rows)))
        # (1) row type tag vs type of the field the offset expression names
        for nm, tid, off, path, ft, line in rows:
            key = "%s:get-row %s" % (kind, nm)
            if path is None:
                res.ob(key + ":offset", False, getter, line, "offset expression of row %s names no field" % nm)
                continue
            if tid is None or tid <= 0:
                res.notes.append("%s: dynamic type id, field type not compared" % key)
                res.ob(key + ":offset", True, getter, line)
                continue
            T = tm.scalar.get(tid)
            if T is None:
                res.notes.append("%s: type id %s not in the scalar table" % (key, idname(tid)))
                continue
            ok = same_ctype(ft, T)
            res.ob(key + ":type", ok, getter, line,
                   "" if ok else "row \"%s\" is typed %s (%s) but field %s is %s" % (nm, idname(tid), T.get("s"), path, ft.get("s")))
        # (2) format[] equals the field type sequence of the struct
        if fmt is not None:
            fu, fg = fmt
            fl = [cval(x) for x in fg["init"].get("elts", [])]
            r = prog.records.get(rec.get("name"))
            if r is None:
                raise Broken("record %s not found" % rec.get("name"))
            top = r["fields"]
            seq = []      # (path, type dict or None for a whole-record placeholder)
            fi = 0
            ok = True
            why = ""
            ents = fl[:-1] if fl and fl[-1] == 0 else fl
            pend = []
            for ent in ents:
                if not pend:
                    if fi >= len(top):
                        ok, why = False, "format lists more entries than struct %s has fields" % rec.get("name")
                        break
                    fld = top[fi]
                    fi += 1
                    FT = r["unit"].types[fld["t"]]
                    if ent == 0:
                        continue      # placeholder for a dynamically registered id: one whole field
                    pend = leaves(prog, r["unit"], fld["t"], fld["n"] + ".")
                    if FT.get("k") not in ("record", "array"):
                        pend = [(fld["n"], FT)]
                elif ent == 0:
                    ok, why = False, "placeholder inside a flattened sub-struct"
                    break
                p, LT = pend.pop(0)
                T = tm.scalar.get(ent)
                # the descriptor is used to walk the raw struct: sizes and number class must line up
                # (char fields described as 'y' differ in signedness only and shift nothing)
                if T is None or T.get("sz") != LT.get("sz") or (T.get("k") == "float") != (LT.get("k") == "float") or (T.get("k") == "ptr") != (LT.get("k") == "ptr"):
                    ok, why = False, "format entry %s (%s) stands for field %s of type %s" % (idname(ent), T.get("s") if T else "unregistered", p, LT.get("s"))
                    break
            if ok and (pend or fi != len(top)):
                ok, why = False, "format ends before field %s" % (pend[0][0] if pend else top[fi]["n"])
            res.ob("%s:format" % kind, ok, getter, fg["line"], why, {"format": [idname(x) if x else 0 for x in fl]})
        # (3)/(4) names accepted by the setter, writing the field the row points to
        name_id = setter.params[1]["id"]
        obj_id = setter.params[0]["id"]
        br = name_branches(setter, name_id)
        stops = {b for b, s, c in br.values()}
        gm = None
        for b, i, e in getter.elements():
            if e.get("k") == "call" and callee_name(e) == "mpt_property_match":
                gm = e
        for nm, tid, off, path, ft, line in rows:
            key = "%s:set %s" % (kind, nm)
            # the getter matches case-insensitively by unique prefix; the setter must at least take the full name
            cand = [lit for lit in br if lit.lower() == nm.lower()]
            ok = bool(cand)
            res.ob(key + ":accepted", ok, setter, setter.line, "" if ok else "property \"%s\" is listed by the getter but the setter compares no such name" % nm)
            if not cand or path is None:
                continue
            lit = cand[0]
            bid, succ, fn = br[lit]
            reg = region(setter, succ, stops)
            tp = touched(setter, reg, obj_id)
            hit = any(t == path or path.startswith(t + ".") or t.startswith(path + ".") for t in tp)
            res.ob(key + ":same-field", hit, setter, setter.blocks[bid].term.get("l", 0),
                   "" if hit else "setter branch \"%s\" touches %s, the getter reads %s" % (lit, sorted(tp), path), {"touched": sorted(tp), "get": path})
        # (5) literal row indices
        for bid, b in getter.blocks.items():
            if not b.term or b.term.get("cond") is None:
                continue
            c = strip(b.term["cond"], all_casts=True)
            if c.get("k") == "bin" and c.get("op") == "==" and cval(c["b"]) is not None and strip(c["a"], all_casts=True).get("k") == "ref":
                idx = cval(c["b"])
                if strip(c["a"], all_casts=True)["d"].get("dk") != "local" or idx < 0 or idx >= len(rows):
                    continue
                # fields of the object read in the conjunct that follows
                nxt = b.succ[0]
                rd = set()
                if nxt is not None and getter.blocks[nxt].term and getter.blocks[nxt].term.get("cond") is not None:
                    for n in walk(getter.blocks[nxt].term["cond"]):
                        if n.get("k") == "mem":
                            p, root = mem_path(n)
                            if isinstance(root, dict) and root.get("k") == "ref" and root["d"].get("id") == getter.params[0]["id"]:
                                rd.add(p)
                nm = rows[idx][0]
                cand = [lit for lit in br if lit.lower() == nm.lower()]
                if not rd or not cand:
                    continue
                reg = region(setter, br[cand[0]][1], stops)
                tp = touched(setter, reg, obj_id)
                ok = rd <= tp
                res.ob("%s:index %d is %s" % (kind, idx, nm), ok, getter, b.term.get("l", 0),
                       "" if ok else "special case for row %d (\"%s\") reads %s, which the setter of \"%s\" never writes" % (idx, nm, sorted(rd), nm))
        res.count("kinds")
    return res


def convert_calls(prog, f):
    """(call node, K expr, dest expr, what) for conversion calls with a type selector and a destination"""
    out = []
    for b, i, e in f.elements():
        if e.get("k") != "call":
            continue
        args = e.get("args", [])
        nm = callee_name(e)
        if nm is None:
            cal = strip(e.get("callee"), all_casts=True) if e.get("callee") else {}
            if cal.get("k") == "mem" and cal.get("f") == "convert" and len(args) == 3:
                out.append((e, args[1], args[2], "convert"))
        elif nm in ("mpt_value_convert", "mpt_iterator_consume") and len(args) == 3:
            out.append((e, args[1], args[2], nm))
    return out


def run_convdest(prog, ctx=None):
    """CONVDEST: convert(x, K, &e) with constant K: typeof(e) is the C type registered for K"""
    res = Result("CONVDEST")
    tm = TypeMap(prog)
    ec = prog.enum_consts
    E = lambda n: ec.get("MPT_" + n, ec.get(n))
    ib, im = E("_TypeInterfaceBase"), E("_TypeInterfaceMax")
    for f in prog.functions.values():
        if f.nocfg:
            continue
        for call, ke, de, what in convert_calls(prog, f):
            K = cval(ke)
            if K is None or K == 0:
                continue
            d = strip(de, all_casts=True)
            if cval(de) == 0:
                continue
            # destination object type
            DT = None
            if d.get("k") == "un" and d.get("op") == "&":
                DT = f.T(d["e"].get("t"))
            else:
                pt = f.pointee(d.get("t"))
                if pt is not None:
                    DT = f.T(pt)
            if DT is None or DT.get("k") in ("void", "none"):
                continue
            key = "%s:%s(%s, %s)" % (f.qn, what, idname(K), norm(show(de, f)))
            T = tm.scalar.get(K)
            if T is not None:
                if DT.get("k") == "array":
                    DT2 = f.T(DT.get("to"))
                    ok = DT.get("sz", 0) >= T.get("sz", 0)
                else:
                    ok = same_ctype(DT, T)
                    # 'c' only ever yields printable ASCII (33..126): representable in every 1 byte integer
                    if not ok and K == ord("c") and DT.get("k") == "int" and DT.get("sz") == 1:
                        ok = True
                res.ob(key, ok, f, call.get("l", 0),
                       "" if ok else "type id %s (%s) converted into an object of type %s" % (idname(K), T.get("s"), DT.get("s")))
            elif K in tm.core:
                ok = DT.get("sz") == tm.core[K].get("sz")
                res.ob(key, ok, f, call.get("l", 0), "" if ok else "core id %s (%s, %s bytes) converted into %s" % (hex(K), tm.core[K].get("s"), tm.core[K].get("sz"), DT.get("s")))
            elif ib is not None and ib <= K <= im:
                ok = DT.get("k") == "ptr"
                res.ob(key, ok, f, call.get("l", 0), "" if ok else "interface id %s converted into non-pointer %s" % (hex(K), DT.get("s")))
            else:
                res.notes.append("%s: id not in a size table" % key)
    return res


def run_errprop(prog, ctx=None):
    """ERRPROP: a status variable is not assigned the result of a comparison `(ret = f() < 0)`"""
    res = Result("ERRPROP")
    for f in prog.functions.values():
        if f.nocfg:
            continue
        # variables that are returned or compared with 0 / negative
        status = set()
        for b, i, n in f.walk_all():
            if n.get("k") == "ret" and n.get("e") is not None:
                r = strip(n["e"], all_casts=True)
                if r.get("k") == "ref" and "id" in r["d"]:
                    status.add(r["d"]["id"])
        seen = set()
        for b, i, n in f.walk_all():
            if n.get("k") != "bin" or n.get("op") != "=" or id(n) in seen:
                continue
            seen.add(id(n))
            l = strip(n["a"], lvalue_to_rvalue=False)
            if l.get("k") != "ref" or "id" not in l["d"]:
                continue
            LT = f.T(l.get("t"))
            if LT.get("k") != "int" or LT.get("sz", 0) < 4:
                continue
            r = strip(n["b"], all_casts=True)
            if r.get("k") == "bin" and r.get("op") in ("<", "<=", ">", ">=") and cval(r["b"]) == 0 and cval(r) is None:
                c = strip(r["a"], all_casts=True)
                if c.get("k") == "call":
                    used = l["d"]["id"] in status
                    key = "%s:%s" % (f.qn, norm(show(n, f)))
                    res.ob(key, not used, f, n.get("l", 0),
                           "" if not used else "status variable %s receives the truth value of `%s` and is then returned as the status" % (l["d"]["n"], norm(show(r, f))))
                    continue
        # count well-formed status assignments `(ret = f()) < 0` as discharged instances
        for b, i, n in f.walk_all():
            if n.get("k") == "bin" and n.get("op") in ("<", "<=", ">", ">=") and cval(n["b"]) == 0:
                a = strip(n["a"], all_casts=True)
                if a.get("k") == "bin" and a.get("op") == "=" and strip(a["b"], all_casts=True).get("k") == "call":
                    l = strip(a["a"], lvalue_to_rvalue=False)
                    if l.get("k") == "ref":
                        res.ob("%s:%s" % (f.qn, norm(show(n, f))), True, f, n.get("l", 0))
    return res


def run_deepcopy(prog, ctx=None):
    """DEEPCOPY: a layout object copied as a whole re-duplicates every pointer its finaliser frees"""
    res = Result("DEEPCOPY")
    for kind in KINDS:
        fini = prog.func("mpt_%s_fini" % kind)
        init = prog.func("mpt_%s_init" % kind)
        if fini is None or init is None:
            if kind in ("axis", "text", "graph", "world"):
                raise Broken("anchor missing: mpt_%s_init/_fini" % kind)
            continue      # plain-data kinds (line) have no finaliser
        freed = set()
        for b, i, e in fini.elements():
            if e.get("k") == "call" and callee_name(e) == "free" and e.get("args"):
                p, root = mem_path(strip(e["args"][0], all_casts=True))
                if p and isinstance(root, dict) and root.get("k") == "ref" and root["d"].get("id") == fini.params[0]["id"]:
                    freed.add(p)
        # whole-struct copy in init
        copies = []
        dup = set()
        for b, i, n in init.walk_all():
            if n.get("k") == "bin" and n.get("op") == "=":
                l = strip(n["a"], lvalue_to_rvalue=False)
                if l.get("k") == "un" and l.get("op") == "*" and strip(l["e"], all_casts=True).get("k") == "ref" \
                        and strip(l["e"], all_casts=True)["d"].get("id") == init.params[0]["id"]:
                    r = strip(n["b"], all_casts=True)
                    if r.get("k") == "un" and r.get("op") == "*" and strip(r["e"], all_casts=True).get("k") == "ref" \
                            and strip(r["e"], all_casts=True)["d"].get("dk") == "param":
                        copies.append(n)
                if l.get("k") == "mem":
                    p, root = mem_path(l)
                    if isinstance(root, dict) and root.get("k") == "ref" and root["d"].get("id") == init.params[0]["id"]:
                        if any(c.get("k") == "call" for c in walk(n["b"])):
                            dup.add(p)
        if not copies:
            res.notes.append("mpt_%s_init: no whole-struct copy" % kind)
            res.ob("%s:no-shallow-copy" % kind, True, init, init.line)
            continue
        for p in sorted(freed):
            ok = p in dup
            res.ob("%s:field %s" % (kind, p), ok, init, copies[0].get("l", 0),
                   "" if ok else "mpt_%s_fini() frees %s but mpt_%s_init() copies the struct without duplicating it (two objects own one string)" % (kind, p, kind))
            if not ok:
                continue
            # on every way from the whole-struct copy to the return: the field is duplicated, or the source's field was tested null
            dup_blocks, copy_blocks = set(), set()
            for bid, blk in init.blocks.items():
                for e in blk.el:
                    for n in walk(e):
                        if n.get("k") == "bin" and n.get("op") == "=":
                            l = strip(n["a"], lvalue_to_rvalue=False)
                            if l.get("k") == "mem":
                                q, root = mem_path(l)
                                if q == p and isinstance(root, dict) and root.get("k") == "ref" and root["d"].get("id") == init.params[0]["id"] \
                                        and any(c.get("k") == "call" for c in walk(n["b"])):
                                    dup_blocks.add(bid)
                            if any(n is c for c in copies):
                                copy_blocks.add(bid)

            def null_edge(blk):
                """index of the successor taken when the source's field p is null, if the block tests exactly that"""
                t = blk.term
                if not (t and isinstance(t.get("cond"), dict) and len(blk.succ) == 2):
                    return None
                c = strip(t["cond"], all_casts=True)
                neg = False
                while c.get("k") == "un" and c.get("op") == "!":
                    neg = not neg
                    c = strip(c["e"], all_casts=True)
                if c.get("k") == "bin" and c.get("op") in ("!=", "==") and cval(c["b"]) == 0:
                    if c["op"] == "==":
                        neg = not neg
                    c = strip(c["a"], all_casts=True)
                if c.get("k") != "mem":
                    return None
                q, root = mem_path(c)
                if q != p or not (isinstance(root, dict) and root.get("k") == "ref" and root["d"].get("dk") == "param"):
                    return None       # the source's member, or the copy's (equal after the whole-struct copy)
                return 0 if neg else 1
            leak = None
            seen = set()
            stack = [(c, True) for c in copy_blocks]
            while stack and leak is None:
                bid, first = stack.pop()
                if bid in seen:
                    continue
                seen.add(bid)
                blk = init.blocks[bid]
                if bid in dup_blocks:
                    continue
                if bid == init.exit or any(e.get("k") == "ret" for e in blk.el) or not [x for x in blk.succ if x is not None]:
                    leak = bid
                    break
                ne = null_edge(blk)
                for k, sx in enumerate(blk.succ):
                    if sx is None or k == ne:
                        continue
                    stack.append((sx, False))
            ok2 = leak is None
            res.ob("%s:field %s:every-path" % (kind, p), ok2, init, copies[0].get("l", 0),
                   "" if ok2 else "mpt_%s_init(): after the whole-struct copy a path reaches the return with %s neither duplicated nor tested null in the source: copy and source own one string on that path" % (kind, p))
        if not freed:
            res.ob("%s:no-owned-pointers" % kind, True, init, init.line)
    return res


def run_flagpath(prog, ctx=None):
    """FLAGPATH: where a getter special-cases a row on a second field F (`pos == k && obj->F & ...`), every path of the setter branch
    for that row that reports success has written F — otherwise a stored value is read back as the stale special case"""
    from .ival import Analysis, AV
    from .rules_effect import return_cases
    res = Result("FLAGPATH")
    n = 0
    for kind in KINDS:
        getter = prog.func("mpt_%s_get" % kind)
        setter = prog.func("mpt_%s_set" % kind)
        if getter is None or setter is None:
            continue
        tab = static_local(prog, getter, lambda u, g: u.types[g["t"]].get("k") == "array" and u.types[u.types[g["t"]]["to"]].get("k") == "record")
        if tab is None:
            continue
        names = [strip(r["elts"][0], all_casts=True).get("s") for r in tab[1]["init"].get("elts", []) if r.get("k") == "init"]
        name_id = setter.params[1]["id"]
        obj_id = setter.params[0]["id"]
        br = name_branches(setter, name_id)
        stops = {b for b, s, c in br.values()}
        for bid, b in getter.blocks.items():
            if not b.term or b.term.get("cond") is None:
                continue
            c = strip(b.term["cond"], all_casts=True)
            if not (c.get("k") == "bin" and c.get("op") == "==" and cval(c["b"]) is not None and strip(c["a"], all_casts=True).get("k") == "ref"):
                continue
            idx = cval(c["b"])
            if strip(c["a"], all_casts=True)["d"].get("dk") != "local" or idx < 0 or idx >= len(names):
                continue
            nxt = b.succ[0]
            rd = set()
            if nxt is not None and getter.blocks[nxt].term and getter.blocks[nxt].term.get("cond") is not None:
                for m in walk(getter.blocks[nxt].term["cond"]):
                    if m.get("k") == "mem":
                        p, root = mem_path(m)
                        if isinstance(root, dict) and root.get("k") == "ref" and root["d"].get("id") == getter.params[0]["id"]:
                            rd.add(p)
            cand = [lit for lit in br if lit.lower() == (names[idx] or "").lower()]
            if not rd or not cand:
                continue
            F = sorted(rd)[0]
            start = br[cand[0]][1]
            reg = region(setter, start, stops)
            PK = Analysis.PK

            def hook(an, blk, i, el, st, F=F):
                w = st.get(PK)
                for m in walk_own(el):
                    if m.get("k") == "bin" and m["op"].endswith("=") and m["op"] not in ("==", "!=", "<=", ">="):
                        p, root = mem_path(strip(m["a"], lvalue_to_rvalue=False))
                        if p == F and isinstance(root, dict) and root.get("k") == "ref" and root["d"].get("id") == obj_id:
                            w = "wrote"
                st[PK] = w

            an = Analysis(prog, setter, hook=hook)
            st0 = an.entry_state()
            st0[PK] = "no"
            an.run(start=start, state=st0)
            bad = []
            for el, vexpr, pos, parts in return_cases(an, setter):
                if pos[0] not in reg:
                    continue
                for pk, st in parts:
                    rv = an.ev(vexpr, dict(st), True, setter.blocks[pos[0]].el[pos[1]])
                    if rv.hi < 0:
                        continue
                    if pk != "wrote" and not (rv.lo < 0):
                        bad.append(el)
            n += 1
            ok = not bad
            res.ob("%s:set %s writes %s on success" % (kind, names[idx], F), ok, setter, bad[0].get("l", 0) if bad else setter.blocks[start].el[0].get("l", 0) if setter.blocks[start].el else setter.line,
                   "" if ok else "a path of the \"%s\" setter returns success (line %s) without touching %s, which the getter consults for this row: the stored value is read back as the old special case" % (
                       names[idx], bad[0].get("l"), F))
    if n < 1:
        raise Broken("FLAGPATH: no getter special case found")
    return res


def run_terminated(prog, ctx=None):
    """TERMINATED: a function that gets room for n + 1 bytes (malloc/realloc(.., n + 1)) into P and copies n bytes into P
    stores the terminator P[n] = 0 on every path that performs the copy: the store dominates the copy or every path from the
    copy to the function's end passes it"""
    res = Result("TERMINATED")
    files = set(ctx.get("files", [])) if ctx else None
    from .rules_path import funcs_of
    for f in funcs_of(prog, files):
        allocs = {}      # var id -> text of n
        for b, i, n in f.walk_all():
            if n.get("k") == "bin" and n.get("op") == "=":
                l = strip(n["a"], lvalue_to_rvalue=False)
                r = strip(n["b"], all_casts=True)
                if l.get("k") == "ref" and "id" in l["d"] and r.get("k") == "call" and callee_name(r) in ("malloc", "realloc") and r.get("args"):
                    sz = strip(r["args"][-1], all_casts=True)
                    if sz.get("k") == "bin" and sz.get("op") == "+" and cval(sz["b"]) == 1:
                        allocs[l["d"]["id"]] = norm(show(strip(sz["a"], all_casts=True), f))
        if not allocs:
            continue
        copies = []
        stores = []
        for b, i, e in f.elements():
            if e.get("k") == "call" and callee_name(e) in ("memcpy", "memmove", "strncpy") and len(e.get("args", [])) == 3:
                d = strip(e["args"][0], all_casts=True)
                if d.get("k") == "ref" and d["d"].get("id") in allocs and norm(show(strip(e["args"][2], all_casts=True), f)) == allocs[d["d"]["id"]]:
                    copies.append((b, e, d["d"]["id"]))
            for n in walk_own(e):
                if n.get("k") == "bin" and n.get("op") == "=" and cval(n["b"]) == 0:
                    l = strip(n["a"], lvalue_to_rvalue=False)
                    if l.get("k") == "idx":
                        a = strip(l["a"], all_casts=True)
                        if a.get("k") == "ref" and a["d"].get("id") in allocs and norm(show(strip(l["i"], all_casts=True), f)) == allocs[a["d"]["id"]]:
                            stores.append((b, a["d"]["id"]))
        dom = f.dominators()
        for b, e, vid in copies:
            tblocks = {sb.id for sb, v in stores if v == vid}
            ok = any(t in dom[b.id] for t in tblocks) or b.id in tblocks
            if not ok:
                # every path from the copy to the exit passes a store
                reach = f.reachable_from(b.id, avoid=tblocks)
                ok = f.exit not in reach
            res.ob("%s:%s" % (f.qn, norm(show(e, f))[:60]), ok, f, e.get("l", f.line),
                   "" if ok else "%s bytes are copied into the block sized %s + 1, but a path through this copy stores no terminator at [%s]" % (allocs[vid], allocs[vid], allocs[vid]))
    return res


def _null_source_stores(prog, g, src_id, ptr_id):
    """True / False: the region of g behind `!src` stores through the pointer parameter (or hands it to a callee); None when g
    has no such test"""
    dom = g.dominators()
    found = None
    for bid, b in g.blocks.items():
        t = b.term
        if not (t and t.get("cond") is not None and len(b.succ) == 2 and b.succ[0] is not None):
            continue
        first = strip(t["cond"], all_casts=True)
        while first.get("k") == "bin" and first.get("op") in ("||", "&&"):
            first = strip(first["a"], all_casts=True)
        if not (first.get("k") == "un" and first.get("op") == "!"):
            continue
        v = strip(first["e"], all_casts=True)
        if not (v.get("k") == "ref" and v["d"].get("id") == src_id):
            continue
        region = {x for x in g.blocks if b.succ[0] in dom[x]}
        stores = False
        for x in region:
            for e in g.blocks[x].el:
                for n in walk_own(e):
                    if n.get("k") == "bin" and n.get("op", "").endswith("=") and n["op"] not in ("==", "!=", "<=", ">="):
                        l = strip(n["a"], lvalue_to_rvalue=False)
                        for m in walk(l):
                            if m.get("k") == "ref" and m["d"].get("id") == ptr_id:
                                stores = True
                    if n.get("k") == "call":
                        nm = callee_name(n) or ""
                        if nm in ("memcmp", "strcmp", "strlen"):
                            continue
                        for a in n.get("args", []):
                            if any(m.get("k") == "ref" and m["d"].get("id") == ptr_id for m in walk(a)):
                                stores = True
        found = stores if found is None else (found and stores)
    return found


def run_resetsame(prog, ctx=None):
    """RESETSAME: in the branch a setter takes for one property name, resetting (no source) and setting touch the same
    member: the members stored on the `!src` path overlap the members the value path writes or hands to its parser
    (`wld->attr.width` against `&wld->attr`; not `wld->cyc` against `&wld->color`).  A reset that restores the default of
    another member leaves the named property as it was and changes a property that was not named.  RESETWRITES: where the
    branch has no reset of its own and hands the (possibly null) source to a helper together with a pointer into the object,
    the helper's no-source path stores through that pointer: a helper that only reports whether the member differs from
    its default leaves a reset without effect."""
    res = Result("RESETSAME")
    for kind in KINDS:
        f = prog.func("mpt_%s_set" % kind)
        if f is None:
            raise Broken("anchor missing: mpt_%s_set" % kind)
        if len(f.params) < 3:
            continue
        oid, nid, sid = f.params[0]["id"], f.params[1]["id"], f.params[2]["id"]
        dom = f.dominators()

        def region(bid):
            return {x for x in f.blocks if bid in dom[x]}

        def obj_paths(e, lhs_only=False):
            out = set()
            for n in walk_own(e) if isinstance(e, dict) else []:
                if n.get("k") == "bin" and n.get("op", "").endswith("=") and n["op"] not in ("==", "!=", "<=", ">="):
                    p, root = mem_path(n["a"])
                    if p and isinstance(root, dict) and root.get("k") == "ref" and root["d"].get("id") == oid:
                        out.add(p)
                if not lhs_only and n.get("k") == "call":
                    for a in n.get("args", []):
                        s = strip(a, all_casts=True)
                        if s.get("k") == "un" and s.get("op") == "&":
                            s = strip(s["e"], lvalue_to_rvalue=False)
                        p, root = mem_path(s)
                        if p and isinstance(root, dict) and root.get("k") == "ref" and root["d"].get("id") == oid:
                            out.add(p)
            return out

        for bid, blk in sorted(f.blocks.items(), reverse=True):
            t = blk.term
            if not (t and t.get("cond") is not None and t.get("cls") == "IfStmt" and len(blk.succ) == 2 and blk.succ[0] is not None):
                continue
            names = []
            for n in walk(t["cond"]):
                if n.get("k") == "call" and callee_name(n) in STRCMP and len(n.get("args", [])) >= 2:
                    a0 = strip(n["args"][0], all_casts=True)
                    a1 = strip(n["args"][1], all_casts=True)
                    if a0.get("k") == "ref" and a0["d"].get("id") == nid and a1.get("k") == "str":
                        names.append(a1.get("s"))
            # the chain `!strcasecmp(a) || !strcasecmp(b)` is split over blocks: take the block that branches into the body
            if not names:
                continue
            body = region(blk.succ[0])
            if not body or bid in body:
                continue
            # the reset sub-branch: an IfStmt inside the body whose condition tests the source parameter for null
            resets = set()
            for x in sorted(body):
                b2 = f.blocks[x]
                t2 = b2.term
                if not (t2 and t2.get("cond") is not None and len(b2.succ) == 2):
                    continue
                c = strip(t2["cond"], all_casts=True)
                first = c
                while first.get("k") == "bin" and first.get("op") in ("||", "&&"):
                    first = strip(first["a"], all_casts=True)
                if first.get("k") == "un" and first.get("op") == "!":
                    v = strip(first["e"], all_casts=True)
                    if v.get("k") == "ref" and v["d"].get("id") == sid and b2.succ[0] is not None:
                        resets |= region(b2.succ[0]) & body
            if not resets:
                # no reset sub-branch here: the null source goes to a helper together with a pointer into the object; the helper's
                # own no-source path has to store through that pointer (RESETWRITES)
                for x in sorted(body):
                    for e in f.blocks[x].el:
                        for n in walk_own(e):
                            if n.get("k") != "call" or not callee_name(n):
                                continue
                            args = n.get("args", [])
                            spos = [j for j, a in enumerate(args) if strip(a, all_casts=True).get("k") == "ref" and strip(a, all_casts=True)["d"].get("id") == sid]
                            ppos = []
                            for j, a in enumerate(args):
                                s2 = strip(a, all_casts=True)
                                if s2.get("k") == "un" and s2.get("op") == "&":
                                    p_, root = mem_path(s2["e"])
                                    if p_ and isinstance(root, dict) and root.get("k") == "ref" and root["d"].get("id") == oid:
                                        ppos.append((j, p_))
                            if not spos or not ppos:
                                continue
                            for g in prog.resolve_call(f, n):
                                if g.nocfg or len(g.params) <= max(spos[0], ppos[0][0]):
                                    continue
                                verdict = _null_source_stores(prog, g, g.params[spos[0]]["id"], g.params[ppos[0][0]]["id"])
                                if verdict is None:
                                    continue
                                res.ob("mpt_%s_set:%s:reset through %s" % (kind, "/".join(names), g.name), verdict, f, n.get("l", f.line) or f.line,
                                       "" if verdict else "for property '%s' a null source (reset) is handed to %s with &%s->%s, whose no-source path returns without storing through that pointer: resetting leaves the property as it was" % (
                                           names[0], g.name, f.params[0].get("n", "obj"), ppos[0][1]))
                continue
            p_reset, p_set = set(), set()
            for x in body:
                for e in f.blocks[x].el:
                    if x in resets:
                        p_reset |= obj_paths(e, lhs_only=True)
                    else:
                        p_set |= obj_paths(e)
                if x not in resets and f.blocks[x].term and f.blocks[x].term.get("cond") is not None:
                    for n in walk(f.blocks[x].term["cond"]):
                        if n.get("k") == "call":
                            p_set |= obj_paths(n)
            if not p_reset or not p_set:
                continue
            bad = [p for p in sorted(p_reset) if not any(p == q or p.startswith(q + ".") or q.startswith(p + ".") for q in p_set)]
            res.ob("mpt_%s_set:%s" % (kind, "/".join(names)), not bad, f, t.get("l", f.line) or f.line,
                   "" if not bad else "for property '%s' the reset path restores %s while the value path writes %s: resetting leaves the named property unchanged and changes another one" % (
                       names[0], ", ".join(bad), ", ".join(sorted(p_set))))
    return res



def run_convfailok(prog, ctx=None):
    """CONVFAILOK: a layout setter that keeps the answer of `src->convert(..)` in a local does not report success (`return
    <constant >= 0>`) while that local holds a failure code.  Sign analysis of the local (subsets of {negative, zero,
    positive}, refined at the tests `!len`, `len < 0`, `len > 0` .. and at the short-circuit operands of a condition, reset
    by every other assignment): no constant success return is reached with `negative` still possible.  `if (len) return 0;`
    behind the zero test of a conversion answers success for a source the conversion refused and stores nothing; `return
    len < 0 ? len : 0` and `if (len < 0) return len;` are the accepted forms."""
    res = Result("CONVFAILOK")
    ALL = frozenset("NZP")
    for kind in KINDS:
        f = prog.func("mpt_%s_set" % kind)
        if f is None:
            raise Broken("anchor missing: mpt_%s_set" % kind)

        def is_conv(r):
            r = strip(r, all_casts=True)
            if r.get("k") == "call" and r.get("callee") is not None:
                ce = strip(r["callee"], all_casts=True)
                return ce.get("k") == "mem" and ce.get("f") == "convert"
            return False
        conv_locals = {}
        for b, i, n in f.walk_all():
            if n.get("k") == "bin" and n.get("op") == "=" and is_conv(n["b"]):
                l = strip(n["a"], lvalue_to_rvalue=False)
                if l.get("k") == "ref" and "id" in l["d"]:
                    conv_locals[l["d"]["id"]] = l["d"].get("n")
        for vid, vname in sorted(conv_locals.items()):
            def transfer(st, e):
                for n in walk_own(e):
                    if n.get("k") == "bin" and n.get("op", "").endswith("=") and n["op"] not in ("==", "!=", "<=", ">="):
                        l = strip(n["a"], lvalue_to_rvalue=False)
                        if l.get("k") == "ref" and l["d"].get("id") == vid:
                            st = ALL if (n["op"] == "=" and is_conv(n["b"])) else None
                return st

            def refine(st, c, truth):
                """state on the edge where condition c has the given truth value"""
                if st is None:
                    return None
                c = strip(c, all_casts=True)
                if c.get("k") == "un" and c.get("op") == "!":
                    return refine(st, c["e"], not truth)
                if c.get("k") == "bin" and c.get("op") == "=":
                    l = strip(c["a"], lvalue_to_rvalue=False)
                    if l.get("k") == "ref" and l["d"].get("id") == vid:
                        return st & (frozenset("NP") if truth else frozenset("Z"))
                    return st
                if c.get("k") == "ref" and c["d"].get("id") == vid:
                    return st & (frozenset("NP") if truth else frozenset("Z"))
                if c.get("k") == "bin" and c.get("op") in ("<", "<=", ">", ">=", "==", "!="):
                    a, b2 = strip(c["a"], all_casts=True), c["b"]
                    op = c["op"]
                    if a.get("k") == "bin" and a.get("op") == "=":
                        a = strip(a["a"], lvalue_to_rvalue=False)
                    if a.get("k") == "ref" and a["d"].get("id") == vid and cval(b2) == 0:
                        yes = {"<": "N", "<=": "NZ", ">": "P", ">=": "ZP", "==": "Z", "!=": "NP"}[op]
                        keep = frozenset(yes) if truth else ALL - frozenset(yes)
                        return st & keep
                return st
            IN = {bid: None for bid in f.blocks}
            seen = set()
            work = [(f.entry, None)]
            bad = {}
            nret = 0
            OUT = {}
            while work:
                bid, st_in = work.pop()
                cur = IN[bid]
                if bid in seen:
                    new = cur if st_in is None else (st_in if cur is None else cur | st_in)
                    if new == cur:
                        continue
                    IN[bid] = new
                else:
                    seen.add(bid)
                    IN[bid] = st_in if cur is None else (cur if st_in is None else cur | st_in)
                st = IN[bid]
                blk = f.blocks[bid]
                for i, e in enumerate(blk.el):
                    st = transfer(st, e)
                    if e.get("k") == "ret" and e.get("e") is not None:
                        v = cval(e["e"])
                        if v is not None and v >= 0 and st is not None and "N" in st:
                            bad[e.get("l")] = e
                t = blk.term
                if t and t.get("cond") is not None and len(blk.succ) == 2:
                    c = strip(t["cond"], all_casts=True)
                    if t.get("cls") == "BinaryOperator":
                        if c.get("k") == "bin" and c.get("op") in ("&&", "||"):
                            c = c["a"]
                    else:
                        while isinstance(c, dict) and strip(c, all_casts=True).get("k") == "bin" and strip(c, all_casts=True).get("op") in ("&&", "||"):
                            c = strip(c, all_casts=True)["b"]
                    for k2, s2 in enumerate(blk.succ):
                        if s2 is not None:
                            work.append((s2, refine(st, c, k2 == 0)))
                else:
                    for s2 in blk.succ:
                        if s2 is not None:
                            work.append((s2, st))
            rets = [e for b, i, e in f.elements() if e.get("k") == "ret" and e.get("e") is not None and cval(e["e"]) is not None and cval(e["e"]) >= 0]
            for k2, e in enumerate(sorted(rets, key=lambda e: (e.get("l") or 0))):
                isbad = e.get("l") in bad
                res.ob("mpt_%s_set:%s:success return %d" % (kind, vname, k2), not isbad, f, e.get("l") or f.line,
                       "" if not isbad else "`return %d` at line %s is reached while %s, the answer of a conversion, may be negative: a source the conversion refused is answered with success and nothing is stored" % (
                           cval(e["e"]), e.get("l"), vname))
    return res


TYPEID_STEM_ALIAS = {"lattr": "lineattr"}


def run_typeiddest(prog, ctx=None):
    """TYPEIDDEST: `type = mpt_<kind>_typeid(); .. src->convert(src, type, dest)` asks the source for an object of that kind
    and lets it write one through dest: dest points to a `struct mpt_<kind>` (for `mpt_<kind>_pointer_typeid()` to a pointer
    to one).  The type id that reaches the call is taken from the nearest assignment that dominates it.  Asking for a colour
    with the whole line as destination (the "copy from sibling" branch of the line setter) refuses every line and lets a
    colour source overwrite the head of the line."""
    res = Result("TYPEIDDEST")
    for f in sorted(prog.functions.values(), key=lambda f: (f.file, f.line, f.qn)):
        if f.nocfg or f.file.startswith("examples/"):
            continue
        assigns = {}      # local id -> [(block id, element index, callee name)]
        for b, i, e in f.elements():
            for n in walk_own(e):
                if n.get("k") == "bin" and n.get("op") == "=":
                    l = strip(n["a"], lvalue_to_rvalue=False)
                    r = strip(n["b"], all_casts=True)
                    if l.get("k") == "ref" and "id" in l["d"]:
                        nm = (callee_name(r) or "") if r.get("k") == "call" else ""
                        assigns.setdefault(l["d"]["id"], []).append((b.id, i, nm if nm.endswith("_typeid") else None))
        if not any(nm for v in assigns.values() for _, _, nm in v):
            continue
        dom = f.dominators()
        order = {}
        for b, i, e in f.elements():
            order[id(e)] = (b.id, i)
        for call, ke, de, what in convert_calls(prog, f):
            k = strip(ke, all_casts=True)
            if not (k.get("k") == "ref" and k["d"].get("id") in assigns):
                continue
            pos = None
            for b, i, e in f.elements():
                if e is call or any(m is call for m in walk_own(e)):
                    pos = (b.id, i)
                    break
            if pos is None:
                continue
            # nearest dominating assignment: same block before the call, else the closest dominator block that assigns
            best = None
            for (ab, ai, nm) in assigns[k["d"]["id"]]:
                if ab == pos[0] and ai < pos[1]:
                    if best is None or best[0] != pos[0] or ai > best[1]:
                        best = (ab, ai, nm)
            if best is None:
                cands = [(ab, ai, nm) for (ab, ai, nm) in assigns[k["d"]["id"]] if ab in dom[pos[0]] and ab != pos[0]]
                # the dominator closest to the call is the one every other candidate dominates
                for c in cands:
                    if all(o[0] in dom[c[0]] for o in cands):
                        if best is None or (c[0] == best[0] and c[1] > best[1]) or c[0] != best[0]:
                            best = c if best is None or c[0] != best[0] or c[1] > best[1] else best
            if best is None or not best[2]:
                continue
            nm = best[2]
            stem = nm[len("mpt_"):-len("_typeid")] if nm.startswith("mpt_") else nm[:-len("_typeid")]
            want_ptr = stem.endswith("_pointer")
            if want_ptr:
                stem = stem[:-len("_pointer")]
            stem = TYPEID_STEM_ALIAS.get(stem, stem)
            d = strip(de, all_casts=True)
            if d.get("k") == "un" and d.get("op") == "&":
                DT = f.T(d["e"].get("t"))
            else:
                pt = f.pointee(d.get("t"))
                DT = f.T(pt) if pt is not None else {}
            if want_ptr:
                DT = f.T(DT.get("to")) if DT.get("k") == "ptr" else {}
            if DT.get("k") != "record":
                continue
            name = DT.get("name", "").split("::")[-1].replace("struct ", "")
            name = name[len("mpt_"):] if name.startswith("mpt_") else name
            ok = name == stem
            res.ob("%s:convert(%s(), %s)" % (f.qn, nm, norm(show(de, f))), ok, f, call.get("l") or f.line,
                   "" if ok else "the source is asked for the type of %s() and writes through `%s`, which points to a %s: an object of the destination's own kind is refused, one of the other kind overwrites its head" % (
                       nm, norm(show(de, f)), DT.get("s", name)))
    return res


def run_typeidname(prog, ctx=None):
    """TYPEIDNAME: the specialisations `type_properties<K>::id()` / `type_properties<K *>::id()` of the layout classes answer
    with the type id registered for K: the function they return is `mpt_<K>_typeid()` or `mpt_<K>_pointer_typeid()` (lineattr is
    `lattr`).  A specialisation that returns its neighbour's id makes objects of K convert to, and be taken for, the other kind."""
    import re
    res = Result("TYPEIDNAME")
    alias = {v: k for k, v in TYPEID_STEM_ALIAS.items()}
    for f in sorted(prog.functions.values(), key=lambda f: (f.file, f.line, f.qn)):
        if f.nocfg:
            continue
        m = re.search(r"type_properties<\s*(?:struct\s+)?(?:::)?(?:mpt::)?(\w+)(\s*\*)?\s*>::id$", f.qn)
        if not m:
            continue
        stem = alias.get(m.group(1), m.group(1))
        want = "mpt_%s%s_typeid" % (stem, "_pointer" if m.group(2) else "")
        got = set()
        for b, i, e in f.elements():
            if e.get("k") == "ret" and e.get("e") is not None:
                r = strip(e["e"], all_casts=True)
                if r.get("k") == "call" and (callee_name(r) or "").endswith("_typeid"):
                    got.add(callee_name(r))
        if not got:
            continue
        ok = got == {want}
        res.ob("%s" % f.qn, ok, f, f.line, "" if ok else "%s returns %s, the id of another kind; %s is the id of its own" % (f.qn, ", ".join(sorted(got)), want))
    return res
