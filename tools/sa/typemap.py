"""TYPEMAP oracle: the repository's own `id -> C type` relation.

Source rows are the `{ sizeof(T), id }` initialisers of the tables iterated by
`_scalar_init` / `_core_init` in mptcore/types/type_traits.c (located through the
functions that read them, not by position); the C type is the *argument type of
the sizeof expression* as clang resolved it.
"""
from .facts import strip, cval, walk
from .core import Broken


def _rows(prog, u, g):
    """rows of a `{size, type}` table: list of (id, ctype dict or None, size)"""
    rows = []
    init = g["init"]
    if init.get("k") != "init":
        return rows
    for row in init["elts"]:
        if row.get("k") != "init" or len(row["elts"]) < 2:
            continue
        se, te = row["elts"][0], row["elts"][1]
        size = cval(se)
        tid = cval(te)
        ct = None
        s = strip(se, all_casts=True)
        if s.get("k") == "sizeof":
            ct = u.types[s["at"]]
        rows.append((tid, ct, size, row.get("l")))
    return rows


class TypeMap:
    def __init__(self, prog):
        self.prog = prog
        self.scalar = {}     # id -> ctype dict
        self.core = {}
        self.rows_scalar = []
        self.rows_core = []
        sg = prog.global_var("scalar_sizes", "mptcore/types/type_traits.c")
        cg = prog.global_var("core_sizes", "mptcore/types/type_traits.c")
        if sg is None or cg is None:
            raise Broken("anchor missing: scalar_sizes/core_sizes tables in type_traits.c")
        self.unit = sg[0]
        self.rows_scalar = _rows(prog, *sg)
        self.rows_core = _rows(prog, *cg)
        for tid, ct, size, line in self.rows_scalar:
            if tid is not None and ct is not None:
                self.scalar.setdefault(tid, ct)
        for tid, ct, size, line in self.rows_core:
            if tid is not None and ct is not None:
                self.core.setdefault(tid, ct)
        if len(self.scalar) < 8:
            raise Broken("scalar size table has %d typed rows (expected >= 8)" % len(self.scalar))
        ec = prog.enum_consts
        for n in ("_TypeScalarBase", "_TypeVectorBase", "_TypeScalarMax", "_TypeVectorMax"):
            if "MPT_" + n not in ec and n not in ec:
                raise Broken("anchor missing: enumerator " + n)
        self.scalar_base = ec.get("MPT__TypeScalarBase", ec.get("_TypeScalarBase"))
        self.vector_base = ec.get("MPT__TypeVectorBase", ec.get("_TypeVectorBase"))
        io = prog.records.get("iovec")
        self.iovec_size = io["size"] if io else 16

    def ctype(self, tid):
        """C type dict for a scalar id, ('vector', elem ctype) for a vector id, else None"""
        if tid in self.scalar:
            return self.scalar[tid]
        return None

    def vector_elem(self, tid):
        s = tid - self.vector_base + self.scalar_base
        if tid >= self.vector_base and tid < self.scalar_base and s in self.scalar:
            return self.scalar[s]
        return None


def idname(k):
    if k is None:
        return "?"
    if 33 <= k < 127:
        return "'%s'" % chr(k)
    return hex(k)
